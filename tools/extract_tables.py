#!/usr/bin/env python3
"""(T) translator, part 2: regenerates lean/Umya/Model/Gen/Tables.lean from the CURRENT source of the
constant tables and escape pipelines that the hand model copies:

  * `FILL_BUILT_IN_FORMAT_CODES` (structs/numbering_format.rs): a sequence of `map.insert(id, "code".to_string())`
    -> an association list sorted by id, the LAST insert of an id winning (HashMap::insert semantics)
  * `ERRORS` (helper/formula.rs), `DATE_FORMAT_REPLACEMENTS[_24|_12]` (helper/number_format/date_formater.rs):
    `const` slices of string literals / pairs of string literals, order kept
  * `CellErrorType` (structs/error.rs): the `Display` arms `CellErrorType::V => write!(f, "...")` and the
    `FromStr` arms `"..." => Ok(CellErrorType::V)`, order kept
  * the escape pipelines of writer/driver.rs (`write_start_tag`, `write_text_node`,
    `write_text_node_conversion`): the quick-xml function applied first (`escape` / `partial_escape`) and the
    chain of `.replace('<char>', "<text>")` calls that follows, in order
  * the white-space normalisation of reader/driver.rs (`unescape_text`, `get_attribute_value`): the chain of
    `.replace(<pattern>, "<text>")` calls, patterns being a string, a char or an array of chars, in order
  * the string tables of the style enums (structs/underline_values.rs, font_scheme_values.rs,
    vertical_alignment_run_values.rs, pattern_values.rs, border_style_values.rs, horizontal_alignment_values.rs,
    vertical_alignment_values.rs): the `Self::V => "text"` arms of `EnumTrait::get_value_string`, the
    `"text" => Ok(Self::V)` arms of `FromStr::from_str` (exactly one wildcard arm, which must be `Err`) and the
    `Default` variant, order kept

Rust string syntax handled: "..." with \\ \" \n \r \t \' \0 \\u{..} escapes, r"..." and r#"..."#, char literals.
Anything else -> the committed snapshot of that definition is kept and the item is reported under "fallbacks".
Prints one JSON line."""
import re, os, sys, json

REPO = os.environ.get("UMYA_REPO", "/repo")
ROOT = os.path.dirname(os.path.dirname(os.path.abspath(__file__)))
OUT = os.path.join(ROOT, "lean", "Umya", "Model", "Gen", "Tables.lean")

STR = r'(?:r#"(?P<raw1>.*?)"#|r"(?P<raw0>[^"]*)"|"(?P<esc>(?:[^"\\]|\\.)*)")'

def unesc(s):
    out, i = [], 0
    while i < len(s):
        c = s[i]
        if c != "\\":
            out.append(c); i += 1; continue
        n = s[i + 1]
        if n == "u":
            j = s.index("}", i)
            out.append(chr(int(s[i + 3:j], 16))); i = j + 1; continue
        out.append({"n": "\n", "r": "\r", "t": "\t", "0": "\0", "\\": "\\", '"': '"', "'": "'"}[n]); i += 2
    return "".join(out)

def lit_value(m):
    d = m.groupdict() if hasattr(m, "groupdict") else m
    if d.get("raw1") is not None: return d["raw1"]
    if d.get("raw0") is not None: return d["raw0"]
    return unesc(d["esc"])

def strip_comments(s):
    # line comments only outside string literals (good enough for these files: no `//` inside the literals used)
    return re.sub(r"(?m)^\s*//[^\n]*$", "", re.sub(r'(?<=[;,{])\s*//[^\n]*', "", s))

def lean_str(s):
    out = ['"']
    for ch in s:
        o = ord(ch)
        if ch == '"': out.append('\\"')
        elif ch == "\\": out.append("\\\\")
        elif ch == "\n": out.append("\\n")
        elif ch == "\r": out.append("\\r")
        elif ch == "\t": out.append("\\t")
        elif o < 32 or o == 127: out.append("\\x%02x" % o)
        else: out.append(ch)
    out.append('"')
    return "".join(out)

def lean_char(c):
    return {"\n": "'\\n'", "\r": "'\\r'", "\t": "'\\t'", "'": "'\\''", "\\": "'\\\\'"}.get(c, "'" + c + "'")

def char_lit(tok):
    body = tok[1:-1]
    return unesc(body) if body.startswith("\\") else body

def block_after(src, marker, open_ch, close_ch):
    i = src.index(marker)
    j = src.index(open_ch, i + len(marker))
    depth, k = 0, j
    while True:
        if src[k] == open_ch: depth += 1
        elif src[k] == close_ch:
            depth -= 1
            if depth == 0: break
        k += 1
    return src[j + 1:k]

def fn_body(src, fn):
    m = re.search(r"fn\s+" + re.escape(fn) + r"\b", src)
    if not m: raise ValueError("function not found")
    return block_after(src[m.start():], "fn", "{", "}") if False else block_after(src, src[m.start():m.end()], "{", "}")

def decl_order(src, ty):
    """variants of `enum ty { … }` in declaration order (unit variants; attributes and comments skipped)"""
    m = re.search(r"\benum\s+" + re.escape(ty) + r"\s*\{", src)
    if not m: return None
    body = block_after(src, src[m.start():m.end() - 1], "{", "}")
    body = re.sub(r"#\[[^\]]*\]", "", body)
    return [v for v in re.findall(r"\b([A-Z]\w*)\b\s*(?:\([^)]*\))?\s*(?:=\s*[^,]+)?\s*(?:,|$)", body)]

def canon_to_str(arms, order):
    """`Self::V => "text"` arms: the patterns are distinct variants, so the order of the arms is irrelevant; canonical order = the
    enum declaration (kept as in the source when a variant is repeated or unknown)"""
    vs = [a for a, _ in arms]
    if order is None or len(set(vs)) != len(vs) or any(v not in order for v in vs): return arms
    return sorted(arms, key=lambda a: order.index(a[0]))

def canon_from_str(arms, order):
    """`"text" => V` arms: with pairwise distinct literal patterns the order of the arms is irrelevant; canonical order = the
    declaration order of the variant (stable: several spellings of one variant keep their source order)"""
    ts = [t for t, _ in arms]
    if order is None or len(set(ts)) != len(ts) or any(v not in order for _, v in arms): return arms
    return sorted(arms, key=lambda a: order.index(a[1]))

# ------------------------------------------------------------------ the items

def builtin_formats():
    src = open(os.path.join(REPO, "src/structs/numbering_format.rs")).read()
    consts = {m.group(1): lit_value(m) for m in re.finditer(r"const\s+([A-Z_0-9]+)\s*:\s*&(?:'static\s+)?str\s*=\s*" + STR + r"\s*;", src)}
    body = strip_comments(block_after(src, "static ref FILL_BUILT_IN_FORMAT_CODES", "{", "}"))
    table = {}
    n_stmt = len(re.findall(r"map\s*\.\s*insert\s*\(", body))
    for m in re.finditer(r"map\s*\.\s*insert\s*\(\s*(\d+)\s*,\s*(?:" + STR + r"|NumberingFormat::(?P<const>[A-Z_0-9]+))\s*\.\s*to_string\s*\(\s*\)\s*\)\s*;", body):
        v = consts[m.group("const")] if m.group("const") else lit_value(m)
        table[int(m.group(1))] = v
        n_stmt -= 1
    if n_stmt != 0:
        raise ValueError(f"{n_stmt} map.insert statement(s) of an unknown form")
    rows = ", ".join(f"({k}, {lean_str(v)})" for k, v in sorted(table.items()))
    return ("/-- translated from `src/structs/numbering_format.rs` `FILL_BUILT_IN_FORMAT_CODES`: id ↦ code, sorted by id,\n"
            "    the last `insert` of an id winning -/\n"
            f"def builtin_format_codes : List (Nat × String) :=\n  [{rows}]\n")

def const_list(path, name, pairs):
    src = strip_comments(open(os.path.join(REPO, path)).read())
    m = re.search(r"const\s+" + name + r"\s*:[^=]*=\s*&\s*\[", src)
    if not m: raise ValueError("const not found")
    body = block_after(src, src[m.start():m.end() - 1], "[", "]")
    if pairs:
        items = [(lit_value(a), lit_value(b)) for a, b in
                 ((re.match(STR, x.group(1)), re.match(STR, x.group(2))) for x in
                  re.finditer(r"\(\s*(" + STR.replace("?P<raw1>", "?:").replace("?P<raw0>", "?:").replace("?P<esc>", "?:") + r")\s*,\s*(" +
                              STR.replace("?P<raw1>", "?:").replace("?P<raw0>", "?:").replace("?P<esc>", "?:") + r")\s*\)", body))]
        left = re.sub(r"\(\s*" + STR.replace("?P<raw1>", "?:").replace("?P<raw0>", "?:").replace("?P<esc>", "?:") + r"\s*,\s*" +
                      STR.replace("?P<raw1>", "?:").replace("?P<raw0>", "?:").replace("?P<esc>", "?:") + r"\s*\)", "", body)
        if re.sub(r"[\s,]", "", left): raise ValueError("unknown element form: " + left.strip()[:40])
        return "[" + ", ".join(f"({lean_str(a)}, {lean_str(b)})" for a, b in items) + "]"
    items = [lit_value(x) for x in re.finditer(STR, body)]
    left = re.sub(STR.replace("?P<raw1>", "?:").replace("?P<raw0>", "?:").replace("?P<esc>", "?:"), "", body)
    if re.sub(r"[\s,]", "", left): raise ValueError("unknown element form: " + left.strip()[:40])
    return "[" + ", ".join(lean_str(a) for a in items) + "]"

def formula_errors():
    return ("/-- translated from `src/helper/formula.rs` `ERRORS` -/\n"
            f"def formula_errors : List String :=\n  {const_list('src/helper/formula.rs', 'ERRORS', False)}\n")

def date_tables():
    out = []
    for name, lean in (("DATE_FORMAT_REPLACEMENTS", "date_format_replacements"), ("DATE_FORMAT_REPLACEMENTS_24", "date_format_replacements_24"),
                       ("DATE_FORMAT_REPLACEMENTS_12", "date_format_replacements_12")):
        out.append(f"/-- translated from `src/helper/number_format/date_formater.rs` `{name}` (order kept) -/\n"
                   f"def {lean} : List (String × String) :=\n  {const_list('src/helper/number_format/date_formater.rs', name, True)}\n")
    return "\n".join(out)

def cell_errors():
    src = strip_comments(open(os.path.join(REPO, "src/structs/error.rs")).read())
    disp = block_after(src, "impl fmt::Display for CellErrorType", "{", "}")
    frm = block_after(src, "impl FromStr for CellErrorType", "{", "}")
    d = [(m.group(1), lit_value(m)) for m in re.finditer(r"CellErrorType::(\w+)\s*=>\s*write!\s*\(\s*f\s*,\s*" + STR + r"\s*\)", disp)]
    f = [(lit_value(m), m.group("v")) for m in re.finditer(STR + r"\s*=>\s*Ok\s*\(\s*CellErrorType::(?P<v>\w+)\s*\)", frm)]
    if not d or not f or len(re.findall(r"=>", disp)) != len(d) or len(re.findall(r"=>", frm)) != len(f) + 1:
        raise ValueError("match arms of an unknown form")
    # the `FromStr` arms have pairwise distinct literal patterns: canonical order = the order of the `Display` arms (which is kept as
    # in the source: it is the order of the hand model's list of error literals, not the declaration order of the enum)
    f = canon_from_str(f, [v for v, _ in d] if len({v for v, _ in d}) == len(d) else None)
    return ("/-- translated from `src/structs/error.rs`: `impl Display for CellErrorType` (variant ↦ text) -/\n"
            "def cell_error_display : List (String × String) :=\n  [" + ", ".join(f"({lean_str(a)}, {lean_str(b)})" for a, b in d) + "]\n\n"
            "/-- translated from `src/structs/error.rs`: `impl FromStr for CellErrorType` (text ↦ variant; anything else is an error) -/\n"
            "def cell_error_from_str : List (String × String) :=\n  [" + ", ".join(f"({lean_str(a)}, {lean_str(b)})" for a, b in f) + "]\n")

def enum_table(path, rust, lean):
    """`EnumTrait::get_value_string` arms `Self::V => "text"` and `FromStr::from_str` arms `"text" => Ok(Self::V)` /
    `"text" => Self::V` of one enum: (variant, text) in arm order and (text, variant) in arm order."""
    def f():
        src = strip_comments(open(os.path.join(REPO, path)).read())
        disp = fn_body(block_after(src, "impl EnumTrait for " + rust, "{", "}"), "get_value_string")
        frm = fn_body(block_after(src, "impl FromStr for " + rust, "{", "}"), "from_str")
        d = [(m.group(1), lit_value(m)) for m in re.finditer(r"Self::(\w+)\s*=>\s*" + STR + r"\s*,", disp)]
        r = [(lit_value(m), m.group("v")) for m in re.finditer(STR + r"\s*=>\s*(?:Ok\s*\(\s*)?Self::(?P<v>\w+)\s*\)?\s*,", frm)]
        if not d or not r or len(re.findall(r"=>", disp)) != len(d) or len(re.findall(r"=>", frm)) != len(r) + 1:
            raise ValueError("match arms of an unknown form")
        order = decl_order(src, rust)
        d, r = canon_to_str(d, order), canon_from_str(r, order)
        pairs = lambda l: "[" + ", ".join(f"({lean_str(a)}, {lean_str(b)})" for a, b in l) + "]"
        return (f"/-- translated from `{path}`: `get_value_string` (variant ↦ text) and `from_str` (text ↦ variant; anything else is an error), arm order kept -/\n"
                f"def {lean} : List (String × String) × List (String × String) :=\n  ({pairs(d)},\n   {pairs(r)})\n")
    return f

ENUMS = [("dv_type_table", "src/structs/data_validation_values.rs", "DataValidationValues"),
         ("dv_operator_table", "src/structs/data_validation_operator_values.rs", "DataValidationOperatorValues"),
         ("cf_type_table", "src/structs/conditional_format_values.rs", "ConditionalFormatValues"),
         ("cf_operator_table", "src/structs/conditional_formatting_operator_values.rs", "ConditionalFormattingOperatorValues"),
         ("time_period_table", "src/structs/time_period_values.rs", "TimePeriodValues"),
         ("cfvo_type_table", "src/structs/conditional_format_value_object_values.rs", "ConditionalFormatValueObjectValues")]

CHAR = r"'(?:[^'\\]|\\.|\\u\{[0-9a-fA-F]+\})'"

def stmt_end(body, start):
    """index of the `;` that ends the statement starting at `start`, skipping string and char literals"""
    i = start
    while i < len(body):
        c = body[i]
        if c == '"':
            i += 1
            while body[i] != '"':
                i += 2 if body[i] == "\\" else 1
        elif c == "'":
            m = re.match(CHAR, body[i:])
            if m: i += m.end() - 1
        elif c == ";":
            return i
        i += 1
    raise ValueError("statement without end")

def statements(body):
    out, i = [], 0
    while True:
        try:
            j = stmt_end(body, i)
        except ValueError:
            break
        out.append(body[i:j]); i = j + 1
    return out

def replace_chain(expr):
    """`.replace(P, "T")` calls of an expression, in order; P = "str" | 'c' | ['a', 'b', ..]"""
    steps = []
    for m in re.finditer(r"\.\s*replace\s*\(\s*(?:(?P<ps>" + STR.replace("?P<raw1>", "?P<p1>").replace("?P<raw0>", "?P<p0>").replace("?P<esc>", "?P<pe>") + r")|(?P<pc>" + CHAR +
                         r")|\[(?P<pa>[^\]]*)\])\s*,\s*" + STR + r"\s*\)", expr):
        if m.group("ps") is not None:
            pat = [lit_value({"raw1": m.group("p1"), "raw0": m.group("p0"), "esc": m.group("pe")})]
            kind = "str"
        elif m.group("pc") is not None:
            pat = [char_lit(m.group("pc"))]; kind = "chars"
        else:
            pat = [char_lit(x) for x in re.findall(CHAR, m.group("pa"))]; kind = "chars"
        steps.append((kind, pat, lit_value(m)))
    if len(steps) != len(re.findall(r"\.\s*replace\s*\(", expr)):
        raise ValueError("a replace call of an unknown form")
    return steps

def lean_steps(steps):
    out = []
    for kind, pat, to in steps:
        if kind == "str":
            out.append(f".str {lean_str(pat[0])} {lean_str(to)}")
        else:
            out.append(f".chars [{', '.join(lean_char(c) for c in pat)}] {lean_str(to)}")
    return "[" + ", ".join(out) + "]"

def writer_pipelines():
    src = strip_comments(open(os.path.join(REPO, "src/writer/driver.rs")).read())
    out = []
    for fn, lean in (("write_start_tag", "write_start_tag_escape"), ("write_text_node", "write_text_node_escape"),
                     ("write_text_node_conversion", "write_text_node_conversion_escape")):
        body = fn_body(src, fn)
        m = re.search(r"\b(partial_escape|escape)\s*\(", body)
        if not m: raise ValueError(f"{fn}: no escape call")
        if len(re.findall(r"\b(?:partial_escape|escape|minimal_escape|unescape)\s*\(", body)) != 1:
            raise ValueError(f"{fn}: more than one escape call")
        # the statement containing the escape call
        steps = replace_chain(body[m.start():stmt_end(body, m.start())])
        if any(k != "chars" or len(p) != 1 for k, p, _ in steps): raise ValueError(f"{fn}: replace pattern is not a single char")
        if len(re.findall(r"\.\s*replace\s*\(", body)) != len(steps): raise ValueError(f"{fn}: a replace call outside the statement of the escape call")
        out.append(f"/-- translated from `src/writer/driver.rs` fn `{fn}`: quick-xml `{m.group(1)}`, then the `.replace` chain in order -/\n"
                   f"def {lean} : Pipeline :=\n  {{ base := .{ 'partialEscape' if m.group(1) == 'partial_escape' else 'escape' }, steps := {lean_steps(steps)} }}\n")
    return "\n".join(out)

def driver_shape():
    """tag-level structure of writer/driver.rs: which quick-xml event under which flag, raw writes, the new-line literal"""
    src = strip_comments(open(os.path.join(REPO, "src/writer/driver.rs")).read())
    def one(fn, rx, what):
        body = fn_body(src, fn)
        m = re.search(rx, body, re.S)
        if not m: raise ValueError(f"{fn}: {what} not of the expected form")
        return body, m
    # write_start_tag
    body, m = one("write_start_tag",
                  r"if\s+empty_flag\s*\{\s*writer\s*\.\s*write_event\(\s*Event::(\w+)\(elem\)\s*\)\s*;?\s*\}\s*else\s*\{\s*writer\s*\.\s*write_event\(\s*Event::(\w+)\(elem\)\s*\)\s*;?\s*\}",
                  "the empty_flag branch")
    ev_empty, ev_else = m.group(1), m.group(2)
    if len(re.findall(r"write_event\s*\(", body)) != 2 or re.search(r"get_mut|\.write\s*\(|write_all|push_str|push\s*\(", body):
        raise ValueError("write_start_tag: writes other than the two events")
    if not re.search(r"BytesStart::from_content\(\s*tag_name\s*,\s*len\s*\)", body) or not re.search(r"let\s+len\s*=\s*tag_name\.len\(\)", body):
        raise ValueError("write_start_tag: element is not BytesStart::from_content(tag_name, tag_name.len())")
    loop = re.search(r"for\s*\(\s*key\s*,\s*value\s*\)\s*in\s+attributes\s*\{(.*?)\n    \}", body, re.S)
    if not loop: raise ValueError("write_start_tag: attribute loop")
    lb = loop.group(1)
    escaped = bool(re.search(r"let\s+value\s*=\s*escape\(\s*value\s*\)", lb)) and \
        bool(re.search(r"elem\.push_attribute\(\(\s*key\.as_bytes\(\)\s*,\s*value\.as_bytes\(\)\s*\)\)\s*;\s*$", lb.strip(), re.S)) and \
        len(re.findall(r"push_attribute|extend_attributes|with_attributes", body)) == 1 and len(statements(lb)) == 2
    if not escaped: raise ValueError("write_start_tag: attribute loop is not `let value = escape(value)…; elem.push_attribute((key, value))`")
    # write_end_tag
    body, m = one("write_end_tag", r"^\s*writer\s*\.\s*write_event\(\s*Event::(\w+)\(\s*BytesEnd::new\(\s*tag_name\.into\(\)\s*\)\s*\)\s*\)\s*;\s*$", "body")
    ev_end = m.group(1)
    # write_text_node
    body, m = one("write_text_node", r"writer\s*\.\s*write_event\(\s*Event::(\w+)\(\s*BytesText::(\w+)\(\s*escaped\s*\)\s*\)\s*\)\s*;\s*$", "the event")
    ev_text, ctor = m.group(1), m.group(2)
    if len(statements(body)) != 2 or not re.search(r"^\s*let\s+escaped\s*=\s*escape\(\s*data\.into\(\)\s*\)", body):
        raise ValueError("write_text_node: not `let escaped = escape(data.into())…; write_event(…)`")
    # write_text_node_no_escape
    body = fn_body(src, "write_text_node_no_escape")
    raw = re.sub(r"\s+", "", body) == "writer.get_mut().write(data.into().as_bytes());"
    if not raw: raise ValueError("write_text_node_no_escape: not a raw write of the bytes")
    # write_text_node_conversion
    body, m = one("write_text_node_conversion", r"^\s*(\w+)\(\s*writer\s*,\s*partial_escape\(\s*data\.into\(\)\s*\)", "body")
    via_conv = m.group(1)
    if len(statements(body)) != 1: raise ValueError("write_text_node_conversion: more than one statement")
    # write_new_line
    body, m = one("write_new_line", r"^\s*(\w+)\(\s*writer\s*,\s*" + STR + r"\s*\)\s*;\s*$", "body")
    via_nl, lit = m.group(1), lit_value(m)
    b = lambda x: "true" if x else "false"
    return ("/-- translated from `src/writer/driver.rs`: the tag-level structure of `write_start_tag`, `write_end_tag`, `write_text_node`,\n"
            "    `write_text_node_no_escape`, `write_text_node_conversion`, `write_new_line` -/\n"
            "def driver_shape : DriverShape :=\n"
            f"  {{ startTagWhenEmpty := {lean_str(ev_empty)}, startTagOtherwise := {lean_str(ev_else)}, attrValueIsEscaped := {b(escaped)},\n"
            f"    endTag := {lean_str(ev_end)}, textNodeEvent := {lean_str(ev_text)}, textNodeCtor := {lean_str(ctor)},\n"
            f"    conversionVia := {lean_str(via_conv)}, noEscapeIsRawWrite := {b(raw)},\n"
            f"    newLineVia := {lean_str(via_nl)}, newLineLiteral := {lean_str(lit)} }}\n")

def reader_pipelines():
    src = strip_comments(open(os.path.join(REPO, "src/reader/driver.rs")).read())
    out = []
    for fn, lean in (("unescape_text", "unescape_text_normalise"), ("get_attribute_value", "get_attribute_value_normalise")):
        body = fn_body(src, fn)
        chains = [s for s in statements(body) if ".replace" in s]
        if len(chains) != 1: raise ValueError(f"{fn}: {len(chains)} statements with replace")
        steps = replace_chain(chains[0])
        if len(re.findall(r"\bunescape\s*\(", body)) < 1: raise ValueError(f"{fn}: no unescape call")
        out.append(f"/-- translated from `src/reader/driver.rs` fn `{fn}`: the `.replace` chain applied to the raw text before `unescape` -/\n"
                   f"def {lean} : List Step :=\n  {lean_steps(steps)}\n")
    return "\n".join(out)


# ------------------------------------------------------------------ C06 view / page / protection codecs (w21)
# One Lean definition per item, so that the fallback (which keeps ONE definition of the item's name) is exact.

def _enum_impls(path, ty):
    src = strip_comments(open(os.path.join(REPO, path)).read())
    disp = block_after(src, "impl EnumTrait for " + ty, "{", "}")
    frm = block_after(src, "impl FromStr for " + ty, "{", "}")
    dflt = block_after(src, "impl Default for " + ty, "{", "}")
    ENUM_ORDER[ty] = decl_order(src, ty)
    return disp, frm, dflt

ENUM_ORDER = {}

def enum_to_str(path, ty, lean):
    def f():
        disp, _, _ = _enum_impls(path, ty)
        d = [(m.group(1), lit_value(m)) for m in re.finditer(r"Self::(\w+)\s*=>\s*" + STR + r"\s*,", disp)]
        if not d or len(re.findall(r"=>", disp)) != len(d):
            raise ValueError("get_value_string arms of an unknown form")
        d = canon_to_str(d, ENUM_ORDER.get(ty))
        return (f"/-- translated from `{path}`: `impl EnumTrait for {ty}` (variant, text), order kept -/\n"
                f"def {lean} : List (String × String) :=\n  [" + ", ".join(f"({lean_str(a)}, {lean_str(b)})" for a, b in d) + "]\n")
    return f

def enum_from_str(path, ty, lean):
    def f():
        _, frm, _ = _enum_impls(path, ty)
        d = [(lit_value(m), m.group("v")) for m in re.finditer(STR + r"\s*=>\s*Ok\s*\(\s*Self::(?P<v>\w+)\s*\)", frm)]
        if not d or len(re.findall(r"=>", frm)) != len(d) + 1 or not re.search(r"_\s*=>\s*Err\s*\(\s*\(\s*\)\s*\)", frm):
            raise ValueError("from_str arms of an unknown form")
        d = canon_from_str(d, ENUM_ORDER.get(ty))
        return (f"/-- translated from `{path}`: `impl FromStr for {ty}` (text, variant; anything else is `Err`), order kept -/\n"
                f"def {lean} : List (String × String) :=\n  [" + ", ".join(f"({lean_str(a)}, {lean_str(b)})" for a, b in d) + "]\n")
    return f

def enum_default(path, ty, lean):
    def f():
        _, _, dflt = _enum_impls(path, ty)
        body = block_after(dflt, "fn default", "{", "}")
        m = re.fullmatch(r"\s*Self::(\w+)\s*", body)
        if not m: raise ValueError("default() of an unknown form")
        return (f"/-- translated from `{path}`: `impl Default for {ty}` -/\n"
                f"def {lean} : String := {lean_str(m.group(1))}\n")
    return f

def attr_read_table(path, lean):
    """`set_string_from_xml!(self, e, <field>, "<attr>");` lines of `set_attributes`, in order"""
    def f():
        src = strip_comments(open(os.path.join(REPO, path)).read())
        body = fn_body(src, "set_attributes")
        rows = [(m.group(1), lit_value(m)) for m in
                re.finditer(r"set_string_from_xml!\s*\(\s*self\s*,\s*e\s*,\s*(\w+)\s*,\s*" + STR + r"\s*,?\s*\)\s*;", body)]
        rest = re.sub(r"set_string_from_xml!\s*\(\s*self\s*,\s*e\s*,\s*\w+\s*,\s*" + STR.replace("?P<raw1>", "?:").replace("?P<raw0>", "?:").replace("?P<esc>", "?:") + r"\s*,?\s*\)\s*;", "", body)
        if not rows or rest.strip():
            raise ValueError("set_attributes is not a plain list of set_string_from_xml! lines")
        return (f"/-- translated from `{path}` fn `set_attributes`: (field, attribute) of every `set_string_from_xml!` line, order kept -/\n"
                f"def {lean} : List (String × String) :=\n  [" + ", ".join(f"({lean_str(a)}, {lean_str(b)})" for a, b in rows) + "]\n")
    return f

def attr_write_table(path, lean):
    """`if self.<c>.has_value() { attributes.push(("<attr>", <text of field v>)); }` statements of `write_to`, in order:
    (field tested, attribute, field whose text is pushed); `&local` is resolved through `let local = self.<v>.get_value_string();`"""
    def f():
        src = strip_comments(open(os.path.join(REPO, path)).read())
        body = fn_body(src, "write_to")
        locals_ = {m.group(1): m.group(2) for m in re.finditer(r"let\s+(\w+)\s*=\s*self\s*\.\s*(\w+)\s*\.\s*get_value_string\s*\(\s*\)\s*;", body)}
        rows = []
        pat = (r"if\s+self\s*\.\s*(\w+)\s*\.\s*has_value\s*\(\s*\)\s*\{\s*attributes\s*\.\s*push\s*\(\s*\(\s*" + STR +
               r"\s*,\s*(?:&\s*(?P<loc>\w+)|self\s*\.\s*(?P<fld>\w+)\s*\.\s*get_value_(?:str|string)\s*\(\s*\))\s*,?\s*\)\s*\)\s*;\s*\}")
        for m in re.finditer(pat, body):
            v = m.group("fld") if m.group("fld") else locals_.get(m.group("loc"))
            if v is None: raise ValueError("pushed value of an unknown form")
            rows.append((m.group(1), lit_value(m), v))
        if not rows or len(rows) != len(re.findall(r"attributes\s*\.\s*push\s*\(", body)):
            raise ValueError("a push of an unknown form")
        return (f"/-- translated from `{path}` fn `write_to`: (field tested with `has_value`, attribute pushed, field whose text is pushed), order kept -/\n"
                f"def {lean} : List (String × String × String) :=\n  [" + ", ".join(f"({lean_str(a)}, {lean_str(b)}, {lean_str(c)})" for a, b, c in rows) + "]\n")
    return f

# ------------------------------------------------------------------ C05 style enums (w19)
STYLE_ENUMS = [("UnderlineValues", "underline_values"), ("FontSchemeValues", "font_scheme_values"),
         ("VerticalAlignmentRunValues", "vertical_alignment_run_values"), ("PatternValues", "pattern_values"),
         ("BorderStyleValues", "border_style_values"), ("HorizontalAlignmentValues", "horizontal_alignment_values"),
         ("VerticalAlignmentValues", "vertical_alignment_values")]

def style_enum_table(ty, stem):
    """`impl EnumTrait for T` (`Self::V => "text"` arms, order kept), `impl FromStr for T` (`"text" => Ok(Self::V)` arms, order
    kept, one wildcard arm) and `impl Default for T` of src/structs/<stem>.rs -> one triple"""
    def f():
        src = strip_comments(open(os.path.join(REPO, "src/structs", stem + ".rs")).read())
        to = block_after(src, "impl EnumTrait for " + ty, "{", "}")
        frm = block_after(src, "impl FromStr for " + ty, "{", "}")
        dfl = block_after(src, "impl Default for " + ty, "{", "}")
        d = [(m.group(1), lit_value(m)) for m in re.finditer(r"Self::(\w+)\s*=>\s*" + STR + r"\s*,", to)]
        g = [(lit_value(m), m.group("v")) for m in re.finditer(STR + r"\s*=>\s*Ok\s*\(\s*Self::(?P<v>\w+)\s*\)", frm)]
        dm = re.findall(r"Self::(\w+)", dfl)
        if not d or not g or len(re.findall(r"=>", to)) != len(d) or len(re.findall(r"=>", frm)) != len(g) + 1 or len(dm) != 1:
            raise ValueError("match arms of an unknown form")
        if not re.search(r"_\s*=>\s*Err\s*\(", frm):
            raise ValueError("no wildcard error arm")
        order = decl_order(src, ty)
        d, g = canon_to_str(d, order), canon_from_str(g, order)
        pairs = lambda l: "[" + ", ".join(f"({lean_str(a)}, {lean_str(b)})" for a, b in l) + "]"
        return (f"/-- translated from `src/structs/{stem}.rs`: `EnumTrait::get_value_string` of `{ty}` (variant ↦ text), its `FromStr`\n"
                f"    (text ↦ variant; anything else is an error) and its `Default` variant -/\n"
                f"def enum_{stem} : List (String × String) × List (String × String) × String :=\n"
                f"  ({pairs(d)},\n   {pairs(g)},\n   {lean_str(dm[0])})\n")
    return f

VIEW_ITEMS = []
for _path, _ty, _lean in (("src/structs/pane_values.rs", "PaneValues", "pane_values"), ("src/structs/pane_state_values.rs", "PaneStateValues", "pane_state_values"),
                          ("src/structs/sheet_view_values.rs", "SheetViewValues", "sheet_view_values"), ("src/structs/orientation_values.rs", "OrientationValues", "orientation_values")):
    VIEW_ITEMS += [(_lean + "_to_str", enum_to_str(_path, _ty, _lean + "_to_str")), (_lean + "_from_str", enum_from_str(_path, _ty, _lean + "_from_str")),
                   (_lean + "_default", enum_default(_path, _ty, _lean + "_default"))]
VIEW_ITEMS += [("sheet_protection_read_table", attr_read_table("src/structs/sheet_protection.rs", "sheet_protection_read_table")),
               ("sheet_protection_write_table", attr_write_table("src/structs/sheet_protection.rs", "sheet_protection_write_table")),
               ("workbook_protection_read_table", attr_read_table("src/structs/workbook_protection.rs", "workbook_protection_read_table")),
               ("workbook_protection_write_table", attr_write_table("src/structs/workbook_protection.rs", "workbook_protection_write_table"))]

# ------------------------------------------------------------------ regular-expression literals
# The hand-written matchers of the model (Umya/Model/Coord.lean for the coordinate regex, Umya/Model/Annot.lean for the
# is_address regex, Umya/Model/NumFmt*.lean / Date.lean for the number-format regexes) implement these TEXTS.  The texts are
# regenerated here; Umya/Lemmas/RegexGen.lean proves them equal to the texts the model records next to its matchers, so that a
# changed regular expression breaks an obligation even if no generated input tells the two apart.
REGEX_FILES = ["src/helper/coordinate.rs", "src/helper/address.rs", "src/structs/address.rs", "src/helper/number_format.rs",
               "src/helper/number_format/number_formater.rs", "src/helper/number_format/date_formater.rs"]

def regex_literals():
    rows = []
    for path in REGEX_FILES:
        src = strip_comments(open(os.path.join(REPO, path)).read())
        k = 0
        for m in re.finditer(r"Regex::new\(\s*(?:&\s*)?(?:" + STR + r"|(?P<expr>[A-Za-z_][A-Za-z_0-9]*))\s*\)", src, flags=re.S):
            if m.group("expr") is not None:
                # built from a variable: resolve `let <name> = <literal>;` just before, else give up
                mm = None
                for mm in re.finditer(r"let\s+" + re.escape(m.group("expr")) + r"\s*(?::\s*[^=]+)?=\s*" + STR + r"\s*;", src[:m.start()], flags=re.S):
                    pass
                # (a text built at run time, e.g. with format!, is recorded by the name of the variable)
                rows.append((f"{path}#{k}", lit_value(mm) if mm is not None else "«built at run time: " + m.group("expr") + "»"))
            else:
                rows.append((f"{path}#{k}", lit_value(m)))
            k += 1
    if not rows:
        raise ValueError("no Regex::new literal found")
    return ("/-- translated from the `Regex::new(<literal>)` calls of the files the matchers of the model stand for: (file#index, text), order kept -/\n"
            "def regex_literals : List (String × String) :=\n  [" + ",\n   ".join(f"({lean_str(a)}, {lean_str(b)})" for a, b in rows) + "]\n")

ITEMS = [("builtin_format_codes", builtin_formats), ("formula_errors", formula_errors), ("date_format_replacements", date_tables),
         ("cell_error_display", cell_errors), ("write_start_tag_escape", writer_pipelines), ("unescape_text_normalise", reader_pipelines),
         ("driver_shape", driver_shape), ("regex_literals", regex_literals)] + VIEW_ITEMS + \
        [(lean, enum_table(path, rust, lean)) for lean, path, rust in ENUMS] + \
        [("enum_" + stem, style_enum_table(ty, stem)) for ty, stem in STYLE_ENUMS]

ITEM_DEFS = {"date_format_replacements": ["date_format_replacements", "date_format_replacements_24", "date_format_replacements_12"],
             "cell_error_display": ["cell_error_display", "cell_error_from_str"],
             "write_start_tag_escape": ["write_start_tag_escape", "write_text_node_escape", "write_text_node_conversion_escape"],
             "unescape_text_normalise": ["unescape_text_normalise", "get_attribute_value_normalise"]}

HEADER = ("/-\n  GENERATED by tools/extract_tables.py from the current source of /repo — do not edit.\n"
          "  Constant tables and escape / normalisation pipelines the hand model copies.\n-/\n"
          "import Umya.Model.GenPrelude\nnamespace Umya.Gen\n\n")

def main():
    old = open(OUT).read() if os.path.exists(OUT) else ""
    parts, extracted, fallbacks = [], [], []
    for name, f in ITEMS:
        try:
            parts.append(f()); extracted.append(name)
        except Exception as ex:
            # an item may consist of several definitions: the snapshot of every one of them is kept
            kept = []
            for dn in ITEM_DEFS.get(name, [name]):
                m = re.search(r"(?:/--(?:(?!/--).)*?-/\n)def " + re.escape(dn) + r"\b.*?(?=\n/--|\nend Umya\.Gen)", old, re.S)
                if m: kept.append(m.group(0).rstrip("\n") + "\n")
            if kept: parts.append("\n".join(kept))
            fallbacks.append({"item": name, "reason": (type(ex).__name__ + ": " + str(ex))[:160]})
    text = HEADER + "\n".join(parts) + "\nend Umya.Gen\n"
    if text != old:
        os.makedirs(os.path.dirname(OUT), exist_ok=True)
        open(OUT, "w").write(text)
    print(json.dumps({"tables_extracted": extracted, "fallbacks": fallbacks, "changed": text != old}))

if __name__ == "__main__":
    main()
