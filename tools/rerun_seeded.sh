#!/bin/bash
# re-runs the own check of every seeded change (after checks were strengthened): one line per change.
# /repo must be clean; nothing else may run checks meanwhile (the change is applied to /repo itself).
cd /verif
for d in seeded/C*; do
  tools/run_seeded.py $d 2>&1 | tail -1 | awk -v m=$(basename $d) '{print m": "$0}' | cut -c1-220
done
