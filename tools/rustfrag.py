#!/usr/bin/env python3
"""Front end of the translator (T), part 3: a tokenizer and a recursive-descent parser for the first-order
Rust fragment `tools/extract_fns.py` compiles to Lean.  No regex-per-function: the whole source file is
tokenized, items (`fn`, `const`, `enum`, `struct`, `impl`) are located on the token stream, and function bodies
are parsed into a small AST.

Grammar (anything else raises `Unsupported`, which the caller turns into a fallback):

  item   ::= fn NAME [<generics>] ( params ) [-> type] [where ...] block
           | const NAME : type = expr ;      | enum NAME { Variant[(types)] , ... }
           | struct NAME { field : type , ... }   | impl [Trait for] NAME { item* }
  stmt   ::= let [mut] pat [: type] [= expr] ;  | place (= | += | -= | *=) expr ;  | expr ;  | const ... ;
           | return [expr] ;  | if ... | match ... | for pat in expr block | while expr block
  expr   ::= range < or < and < cmp < add < mul < cast (`as`) < unary (! - & &mut *) < postfix < primary
  postfix::= .name[::<type>](args) | .name | .0 | [expr] | (args) | ?        (`?` is lowered only on Option, in a function returning Option)
  primary::= literal | path | ( expr[, expr]* ) | [ expr, ... ] | if | match | block | name!( ... ) | |params| expr | return | continue | break
  pat    ::= _ | literal | [-]int | name | [&] path [( pat, ... )] | ( pat, ... ) | pat `|` pat | name @ ..
"""
import re


class Unsupported(Exception):
    pass


# ------------------------------------------------------------------------------------------------ tokenizer

TOKEN_RE = re.compile(r"""
    (?P<ws>\s+)
  | (?P<lc>//[^\n]*)
  | (?P<bc>/\*.*?\*/)
  | (?P<rstr>r(?P<hashes>\#*)"(?:.|\n)*?"(?P=hashes))
  | (?P<bstr>b?"(?:[^"\\]|\\.|\\\n)*")
  | (?P<char>b?'(?:[^'\\\n]|\\x[0-9a-fA-F]{2}|\\u\{[0-9a-fA-F]+\}|\\.)')
  | (?P<life>'[A-Za-z_][A-Za-z_0-9]*)
  | (?P<num>0x[0-9a-fA-F_]+(?:[iu](?:8|16|32|64|128|size))?|[0-9][0-9_]*(?:\.[0-9][0-9_]*)?(?:[eE][+-]?[0-9]+)?(?:[iuf](?:8|16|32|64|128|size))?)
  | (?P<id>[A-Za-z_][A-Za-z_0-9]*)
  | (?P<op>\.\.=|\.\.\.|<<=|>>=|::|->|=>|==|!=|<=|>=|&&|\|\||\+=|-=|\*=|/=|%=|\^=|&=|\|=|<<|>>|\.\.|[-+*/%^!&|=<>@.,;:#$?~(){}\[\]])
""", re.X | re.S)


def unescape(s):
    out, i = [], 0
    while i < len(s):
        c = s[i]
        if c != "\\":
            out.append(c); i += 1; continue
        n = s[i + 1]
        if n == "u":
            j = s.index("}", i)
            out.append(chr(int(s[i + 3:j], 16))); i = j + 1; continue
        if n == "x":
            out.append(chr(int(s[i + 2:i + 4], 16))); i += 4; continue
        if n == "\n":
            i += 2
            while i < len(s) and s[i] in " \t\n\r": i += 1
            continue
        if n not in "nrt0\\\"'":
            raise Unsupported("string escape \\" + n)
        out.append({"n": "\n", "r": "\r", "t": "\t", "0": "\0", "\\": "\\", '"': '"', "'": "'"}[n]); i += 2
    return "".join(out)


class Tok:
    __slots__ = ("kind", "text", "val", "pos")
    def __init__(self, kind, text, val, pos): self.kind, self.text, self.val, self.pos = kind, text, val, pos
    def __repr__(self): return f"{self.kind}:{self.text}"


def tokenize(src):
    toks, i = [], 0
    while i < len(src):
        m = TOKEN_RE.match(src, i)
        if not m:
            raise Unsupported(f"cannot tokenize at offset {i}: {src[i:i+20]!r}")
        k = m.lastgroup
        if k == "hashes": k = "rstr"
        t = m.group(0)
        if k in ("ws", "lc", "bc"):
            pass
        elif k == "rstr":
            h = len(m.group("hashes") or "")
            toks.append(Tok("str", t, t[2 + h:len(t) - 1 - h], i))
        elif k == "bstr":
            body = t[t.index('"') + 1:-1]
            toks.append(Tok("str", t, unescape(body), i))
        elif k == "char":
            body = t[t.index("'") + 1:-1]
            toks.append(Tok("char", t, unescape(body), i))
        elif k == "life":
            toks.append(Tok("life", t, t, i))
        elif k == "num":
            mm = re.fullmatch(r"(0x[0-9a-fA-F_]+|[0-9][0-9_]*(?:\.[0-9][0-9_]*)?(?:[eE][+-]?[0-9]+)?)([iuf](?:8|16|32|64|128|size))?", t)
            body, suf = mm.group(1).replace("_", ""), mm.group(2)
            if body.startswith("0x"):
                toks.append(Tok("int", t, (int(body, 16), suf), i))
            elif "." in body or "e" in body.lower() or (suf and suf.startswith("f")):
                toks.append(Tok("float", t, (body, suf), i))
            else:
                toks.append(Tok("int", t, (int(body), suf), i))
        elif k == "id":
            toks.append(Tok("id", t, t, i))
        else:
            toks.append(Tok("op", t, t, i))
        i = m.end()
    return toks


# ------------------------------------------------------------------------------------------------ parser

KEYWORDS = {"let", "mut", "if", "else", "match", "return", "fn", "const", "for", "in", "while", "loop", "as", "pub", "impl",
            "enum", "struct", "use", "mod", "where", "true", "false", "static", "ref", "move", "break", "continue", "unsafe"}


class Parser:
    def __init__(self, toks, i=0):
        self.t, self.i = toks, i

    # -- helpers
    def peek(self, k=0):
        j = self.i + k
        return self.t[j] if j < len(self.t) else Tok("eof", "<eof>", None, -1)
    def at(self, text, k=0):
        p = self.peek(k)
        return p.kind in ("op", "id") and p.text == text
    def eat(self, text=None, kind=None):
        p = self.peek()
        if text is not None and not (p.kind in ("op", "id") and p.text == text):
            raise Unsupported(f"expected `{text}`, got `{p.text}`")
        if kind is not None and p.kind != kind:
            raise Unsupported(f"expected {kind}, got `{p.text}`")
        self.i += 1
        return p
    def ident(self):
        p = self.peek()
        if p.kind != "id" or p.text in KEYWORDS - {"self", "Self"}:
            raise Unsupported(f"expected identifier, got `{p.text}`")
        self.i += 1
        return p.text
    def skip_balanced(self, open_, close):
        """current token is `open_`; skips to after the matching `close`"""
        depth = 0
        while True:
            p = self.eat()
            if p.kind == "eof": raise Unsupported("unbalanced " + open_)
            if p.kind == "op" and p.text == open_: depth += 1
            elif p.kind == "op" and p.text == close:
                depth -= 1
                if depth == 0: return
    def skip_attrs(self):
        while self.at("#"):
            self.eat("#")
            if self.at("!"): self.eat("!")
            self.skip_balanced("[", "]")

    # -- types
    def type_(self):
        while self.at("&") or self.at("&&"):
            self.eat()
            if self.peek().kind == "life": self.eat()
            if self.at("mut"): self.eat()
        if self.at("("):
            self.eat("(")
            ts = []
            while not self.at(")"):
                ts.append(self.type_())
                if self.at(","): self.eat(",")
            self.eat(")")
            return ("tuple", ts) if ts else ("unit",)
        if self.at("["):
            self.eat("["); el = self.type_()
            if self.at(";"):
                self.eat(";"); n = self.expr(); self.eat("]")
                return ("array", el, n)
            self.eat("]")
            return ("slice", el)
        if self.at("impl") or self.at("dyn"):
            self.eat()
        segs = [self.ident()]
        args = []
        while True:
            if self.at("::"):
                self.eat("::")
                if self.at("<"):
                    args = self.generic_args()
                else:
                    segs.append(self.ident())
            elif self.at("<"):
                args = self.generic_args()
            else:
                break
        return ("named", segs[-1], args)
    def generic_args(self):
        self.eat("<")
        args = []
        while not self.at(">") and not self.at(">>"):
            if self.peek().kind == "life": self.eat()
            else: args.append(self.type_())
            if self.at("+"):
                self.eat("+"); self.type_()
            if self.at(","): self.eat(",")
        if self.at(">>"):
            # `>>` closes two argument lists: the inner one takes the first half, the outer one the second
            if getattr(self, "_half_gt", False):
                self._half_gt = False; self.eat()
            else:
                self._half_gt = True
        else:
            self.eat(">")
        return args

    # -- patterns
    def pattern(self):
        alts = [self.pattern1()]
        while self.at("|"):
            self.eat("|"); alts.append(self.pattern1())
        return alts[0] if len(alts) == 1 else ("por", alts)
    def pattern1(self):
        p = self.peek()
        if self.at("&"):
            self.eat("&")
            if self.at("mut"): self.eat()
            return self.pattern1()
        if self.at("ref"):
            self.eat("ref")
        if self.at("mut"):
            self.eat("mut")
        if self.at("_"):
            self.eat(); return ("pwild",)
        if self.at("("):
            self.eat("(")
            ps = []
            while not self.at(")"):
                ps.append(self.pattern())
                if self.at(","): self.eat(",")
            self.eat(")")
            return ("ptuple", ps)
        if self.at("-") and self.peek(1).kind == "int":
            self.eat(); v = self.eat()
            return ("plit", ("int", -v.val[0], v.val[1]))
        if p.kind == "int":
            self.eat(); return ("plit", ("int", p.val[0], p.val[1]))
        if p.kind == "str":
            self.eat(); return ("plit", ("str", p.val))
        if p.kind == "char":
            self.eat(); return ("plit", ("char", p.val))
        if self.at("true") or self.at("false"):
            self.eat(); return ("plit", ("bool", p.text == "true"))
        segs = [self.ident()]
        while self.at("::"):
            self.eat("::"); segs.append(self.ident())
        if self.at("("):
            self.eat("(")
            ps = []
            while not self.at(")"):
                if self.at(".."):
                    self.eat(".."); ps.append(("prest",))
                else:
                    ps.append(self.pattern())
                if self.at(","): self.eat(",")
            self.eat(")")
            return ("ppath", segs, ps)
        if self.at("{"):
            raise Unsupported("struct pattern")
        if len(segs) == 1 and (segs[0][0].islower() or segs[0][0] == "_"):
            return ("pbind", segs[0])
        return ("ppath", segs, None)

    # -- expressions
    def expr(self, no_struct=False):
        return self.range_(no_struct)
    def range_(self, ns):
        if self.at("..") or self.at("..="):
            # `..` / `..b` (only meaningful as an index: `x[..]`, `x[..b]`)
            inc = self.eat().text == "..="
            if self.at("]"): return ("range", None, None, inc)
            return ("range", None, self.or_(ns), inc)
        a = self.or_(ns)
        if self.at("..") or self.at("..="):
            inc = self.eat().text == "..="
            if self.at("]"): return ("range", a, None, inc)
            if self.at(")") or self.at("{"):
                raise Unsupported("open range")
            b = self.or_(ns)
            return ("range", a, b, inc)
        return a
    def or_(self, ns):
        a = self.and_(ns)
        while self.at("||"):
            self.eat(); a = ("binary", "||", a, self.and_(ns))
        return a
    def and_(self, ns):
        a = self.cmp(ns)
        while self.at("&&"):
            self.eat(); a = ("binary", "&&", a, self.cmp(ns))
        return a
    def cmp(self, ns):
        a = self.add(ns)
        if self.peek().kind == "op" and self.peek().text in ("==", "!=", "<", ">", "<=", ">="):
            op = self.eat().text
            return ("binary", op, a, self.add(ns))
        return a
    def add(self, ns):
        a = self.mul(ns)
        while self.peek().kind == "op" and self.peek().text in ("+", "-"):
            op = self.eat().text; a = ("binary", op, a, self.mul(ns))
        return a
    def mul(self, ns):
        a = self.cast(ns)
        while self.peek().kind == "op" and self.peek().text in ("*", "/", "%"):
            op = self.eat().text; a = ("binary", op, a, self.cast(ns))
        return a
    def cast(self, ns):
        a = self.unary(ns)
        while self.at("as"):
            self.eat("as"); a = ("cast", a, self.type_())
        return a
    def unary(self, ns):
        if self.at("!"):
            self.eat(); return ("unary", "!", self.unary(ns))
        if self.at("-"):
            self.eat(); return ("unary", "-", self.unary(ns))
        if self.at("*"):
            self.eat(); return ("unary", "*", self.unary(ns))
        if self.at("&") or self.at("&&"):
            self.eat()
            if self.at("mut"):
                self.eat()
                return ("unary", "&mut", self.unary(ns))
            return ("unary", "&", self.unary(ns))
        return self.postfix(ns)
    def args(self):
        self.eat("(")
        out = []
        while not self.at(")"):
            out.append(self.expr())
            if self.at(","): self.eat(",")
        self.eat(")")
        return out
    def postfix(self, ns):
        e = self.primary(ns)
        while True:
            if self.at("."):
                self.eat(".")
                p = self.peek()
                if p.kind == "int":
                    self.eat(); e = ("field", e, str(p.val[0])); continue
                if p.kind == "float":       # `.0.1`
                    raise Unsupported("nested tuple field")
                name = self.ident()
                turbofish = None
                if self.at("::"):
                    self.eat("::"); turbofish = self.generic_args()
                if self.at("("):
                    e = ("mcall", e, name, turbofish, self.args())
                else:
                    e = ("field", e, name)
            elif self.at("["):
                self.eat("["); ix = self.expr(); self.eat("]")
                e = ("index", e, ix)
            elif self.at("(") and e[0] == "path":
                e = ("call", e, self.args())
            elif self.at("?"):
                self.eat(); e = ("try", e)
            else:
                return e
    def block(self):
        self.eat("{")
        stmts, tail = [], None
        while not self.at("}"):
            self.skip_attrs()
            s, is_tail = self.stmt()
            if is_tail:
                tail = s
                if not self.at("}"): raise Unsupported("expression without `;` in the middle of a block")
            elif s is not None:
                stmts.append(s)
        self.eat("}")
        return ("block", stmts, tail)
    def if_(self):
        self.eat("if")
        if self.at("let"):
            self.eat("let"); pat = self.pattern(); self.eat("="); scrut = self.expr(no_struct=True)
            then = self.block()
            els = None
            if self.at("else"):
                self.eat("else"); els = ("block", [], self.if_()) if self.at("if") else self.block()
            return ("match", scrut, [(pat, None, then), (("pwild",), None, els if els is not None else ("block", [], None))], "iflet")
        c = self.expr(no_struct=True)
        then = self.block()
        els = None
        if self.at("else"):
            self.eat("else")
            els = ("block", [], self.if_()) if self.at("if") else self.block()
        return ("if", c, then, els)
    def match_(self):
        self.eat("match"); scrut = self.expr(no_struct=True); self.eat("{")
        arms = []
        while not self.at("}"):
            self.skip_attrs()
            pat = self.pattern()
            guard = None
            if self.at("if"):
                self.eat("if"); guard = self.expr()
            self.eat("=>")
            body = self.expr()
            if self.at(","): self.eat(",")
            arms.append((pat, guard, body))
        self.eat("}")
        return ("match", scrut, arms, "match")
    def macro(self, name):
        self.eat("!")
        close = {"(": ")", "[": "]", "{": "}"}[self.peek().text]
        open_ = self.eat().text
        if name == "matches":
            e = self.expr(); self.eat(","); pat = self.pattern()
            if self.at(","): self.eat(",")
            self.eat(close)
            return ("matches", e, pat)
        if name in ("format", "write", "writeln", "assert", "assert_eq", "panic", "vec", "unreachable", "println"):
            out, repeat = [], False
            while not self.at(close):
                out.append(self.expr())
                if self.at(","): self.eat(",")
                elif self.at(";"):
                    self.eat(";"); repeat = True
            self.eat(close)
            if repeat:
                if name != "vec" or len(out) != 2: raise Unsupported(f"{name}![..; ..]")
                return ("macro", "vec_repeat", out)
            return ("macro", name, out)
        raise Unsupported(f"macro {name}!")
    def primary(self, ns):
        p = self.peek()
        if p.kind == "int":
            self.eat(); return ("int", p.val[0], p.val[1])
        if p.kind == "float":
            self.eat(); return ("float", p.val[0], p.val[1])
        if p.kind == "str":
            self.eat(); return ("str", p.val)
        if p.kind == "char":
            self.eat(); return ("char", p.val)
        if self.at("true") or self.at("false"):
            self.eat(); return ("bool", p.text == "true")
        if self.at("("):
            self.eat("(")
            if self.at(")"):
                self.eat(")"); return ("tuple", [])
            e = self.expr()
            if self.at(","):
                es = [e]
                while self.at(","):
                    self.eat(",")
                    if self.at(")"): break
                    es.append(self.expr())
                self.eat(")")
                return ("tuple", es)
            self.eat(")")
            return ("paren", e)
        if self.at("["):
            self.eat("[")
            es = []
            while not self.at("]"):
                es.append(self.expr())
                if self.at(";"):
                    raise Unsupported("array repeat expression")
                if self.at(","): self.eat(",")
            self.eat("]")
            return ("array", es)
        if self.at("if"): return self.if_()
        if self.at("match"): return self.match_()
        if self.at("{"): return self.block()
        if self.at("return"):
            self.eat("return")
            if self.at(";") or self.at("}"): return ("return", None)
            return ("return", self.expr())
        if self.at("continue") or self.at("break"):
            kw = self.eat().text
            if not (self.at(";") or self.at("}") or self.at(",")): raise Unsupported(kw + " with a label / value")
            return (kw,)
        if self.at("|") or self.at("||") or self.at("move"):
            if self.at("move"): self.eat()
            params = []
            if self.at("||"):
                self.eat()
            else:
                self.eat("|")
                while not self.at("|"):
                    pat = self.pattern1()
                    ty = None
                    if self.at(":"):
                        self.eat(":"); ty = self.type_()
                    params.append((pat, ty))
                    if self.at(","): self.eat(",")
                self.eat("|")
            return ("closure", params, self.expr())
        if p.kind == "id" and (p.text not in KEYWORDS or p.text in ("self", "Self")):
            segs = [self.ident()]
            while True:
                if self.at("!") and not self.at("=", 1) and self.peek(1).kind == "op" and self.peek(1).text in "([{":
                    return self.macro(segs[-1])
                if self.at("::"):
                    self.eat("::")
                    if self.at("<"):
                        self.generic_args()
                    else:
                        segs.append(self.ident())
                else:
                    break
            if self.at("{") and not ns and segs[-1][0].isupper():
                raise Unsupported("struct literal")
            return ("path", segs)
        raise Unsupported(f"unexpected token `{p.text}` in expression")

    # -- statements
    def stmt(self):
        """returns (stmt, is_tail)"""
        if self.at(";"):
            self.eat(); return None, False
        if self.at("let"):
            self.eat("let")
            mutable = False
            if self.at("mut"):
                self.eat(); mutable = True
            pat = self.pattern1() if not self.at("(") else self.pattern1()
            ty = None
            if self.at(":"):
                self.eat(":"); ty = self.type_()
            e = None
            if self.at("="):
                self.eat("="); e = self.expr()
            if self.at("else"):
                raise Unsupported("let-else")
            self.eat(";")
            return ("let", pat, ty, e, mutable), False
        if self.at("const"):
            self.eat("const"); name = self.ident(); self.eat(":"); ty = self.type_(); self.eat("="); e = self.expr(); self.eat(";")
            return ("const", name, ty, e), False
        if self.at("for"):
            self.eat("for"); pat = self.pattern(); self.eat("in"); it = self.expr(no_struct=True); body = self.block()
            return ("for", pat, it, body), False
        if self.at("while"):
            self.eat("while")
            if self.at("let"): raise Unsupported("while let")
            c = self.expr(no_struct=True); body = self.block()
            return ("while", c, body), False
        if self.at("loop"):
            raise Unsupported("loop")
        if self.at("fn") or self.at("use") or self.at("type") or self.at("struct") or self.at("enum") or self.at("impl"):
            raise Unsupported("nested item")
        e = self.expr()
        if self.peek().kind == "op" and self.peek().text in ("=", "+=", "-=", "*=", "/="):
            op = self.eat().text; rhs = self.expr(); self.eat(";")
            return ("assign", e, op, rhs), False
        if self.at(";"):
            self.eat(";")
            return ("expr", e), False
        if e[0] in ("if", "match", "block") and not self.at("}"):
            return ("expr", e), False          # block-like expression statement
        return e, True


# ------------------------------------------------------------------------------------------------ items

class SourceFile:
    """items of one file, located on the token stream"""
    def __init__(self, path, text):
        self.path, self.text = path, text
        self.toks = tokenize(text)
        self.fns, self.consts, self.enums, self.structs = {}, {}, {}, {}
        self._scan(0, len(self.toks), None)

    def _match_close(self, i, open_="{", close="}"):
        depth = 0
        while i < len(self.toks):
            t = self.toks[i]
            if t.kind == "op" and t.text == open_: depth += 1
            elif t.kind == "op" and t.text == close:
                depth -= 1
                if depth == 0: return i
            i += 1
        raise Unsupported("unbalanced braces")

    def _scan(self, i, end, owner):
        T = self.toks
        while i < end:
            t = T[i]
            if t.kind == "id" and t.text == "fn" and i + 1 < end and T[i + 1].kind == "id":
                name = T[i + 1].text
                j = i + 2
                # find the body `{` at bracket depth 0 (skipping generics / params / where clause)
                depth = 0
                while j < end:
                    x = T[j]
                    if x.kind == "op" and x.text in "([": depth += 1
                    elif x.kind == "op" and x.text in ")]": depth -= 1
                    elif x.kind == "op" and x.text == ";" and depth == 0: break
                    elif x.kind == "op" and x.text == "{" and depth == 0: break
                    j += 1
                if j < end and T[j].text == "{":
                    k = self._match_close(j)
                    self.fns.setdefault((owner, name), (i, j, k))
                    self._scan(j + 1, k, owner)       # nested consts
                    i = k + 1
                    continue
                i = j + 1
                continue
            if t.kind == "id" and t.text == "const" and i + 2 < end and T[i + 1].kind == "id" and T[i + 2].text == ":":
                j = i
                depth = 0
                while j < end and not (T[j].kind == "op" and T[j].text == ";" and depth == 0):
                    if T[j].kind == "op" and T[j].text in "([{": depth += 1
                    elif T[j].kind == "op" and T[j].text in ")]}": depth -= 1
                    j += 1
                self.consts.setdefault(T[i + 1].text, []).append((i, j, owner))
                i = j + 1
                continue
            if t.kind == "id" and t.text in ("enum", "struct") and i + 1 < end and T[i + 1].kind == "id":
                j = i + 2
                while j < end and not (T[j].kind == "op" and T[j].text in ("{", ";", "(")): j += 1
                if j < end and T[j].text == "{":
                    k = self._match_close(j)
                    (self.enums if t.text == "enum" else self.structs)[T[i + 1].text] = (j, k)
                    i = k + 1
                    continue
                i = j + 1
                continue
            if t.kind == "id" and t.text == "impl":
                j = i + 1
                names = []
                depth = 0
                while j < end and not (T[j].kind == "op" and T[j].text == "{" and depth == 0):
                    if T[j].kind == "op" and T[j].text == "<": depth += 1
                    elif T[j].kind == "op" and T[j].text == ">": depth -= 1
                    elif T[j].kind == "id" and depth == 0: names.append(T[j].text)
                    j += 1
                k = self._match_close(j)
                if "for" in names:
                    own = "<" + names[names.index("for") - 1] + " for " + names[names.index("for") + 1] + ">"
                else:
                    own = names[0] if names else None
                self._scan(j + 1, k, own)
                i = k + 1
                continue
            i += 1

    # -- accessors
    def parse_fn(self, name, owner=None):
        key = (owner, name)
        if key not in self.fns:
            cands = [k for k in self.fns if k[1] == name]
            if len(cands) != 1: raise Unsupported(f"function {name} not found" if not cands else f"function {name} ambiguous")
            key = cands[0]
        i, j, k = self.fns[key]
        p = Parser(self.toks, i + 2)
        if p.at("<"):
            p.generic_args_decl() if hasattr(p, "generic_args_decl") else self._skip_generics(p)
        p.eat("(")
        params, mutrefs = [], []
        while not p.at(")"):
            if p.at("&") or p.at("self") or (p.at("mut") and p.at("self", 1)):
                # self receiver (`mut name: T` is an ordinary parameter, handled below)
                while not p.at("self"):
                    if p.peek().kind == "eof": raise Unsupported("receiver")
                    p.eat()
                p.eat("self"); params.append(("self", ("named", "Self", [])))
            else:
                if p.at("mut"): p.eat()
                nm = p.ident(); p.eat(":")
                if p.at("&") and (p.at("mut", 1) or (p.peek(1).kind == "life" and p.at("mut", 2))): mutrefs.append(nm)
                params.append((nm, p.type_()))
            if p.at(","): p.eat(",")
        p.eat(")")
        ret = ("unit",)
        if p.at("->"):
            p.eat("->"); ret = p.type_()
        p.i = j
        body = p.block()
        return {"name": name, "owner": key[0], "params": params, "ret": ret, "body": body, "mutrefs": mutrefs, "ast": True}

    def _skip_generics(self, p):
        depth = 0
        while True:
            t = p.eat()
            if t.text == "<": depth += 1
            elif t.text == ">":
                depth -= 1
                if depth == 0: return
            elif t.text == ">>":
                depth -= 2
                if depth <= 0: return

    def parse_const(self, name, in_fn=None):
        if name not in self.consts: raise Unsupported(f"const {name} not found")
        cands = self.consts[name]
        if in_fn is not None:
            fi, fj, fk = self.fns[[k for k in self.fns if k[1] == in_fn][0]]
            cands = [c for c in cands if fj < c[0] < fk]
        if len(cands) != 1: raise Unsupported(f"const {name}: {len(cands)} candidates")
        p = Parser(self.toks, cands[0][0])
        s, _ = p.stmt()
        return s            # ("const", name, ty, expr)

    def enum_variants(self, name):
        if name not in self.enums: raise Unsupported(f"enum {name} not found")
        j, k = self.enums[name]
        p = Parser(self.toks, j + 1)
        out = []
        while p.i < k:
            p.skip_attrs()
            if p.i >= k: break
            v = p.ident()
            if p.at("("): p.skip_balanced("(", ")")
            elif p.at("{"): p.skip_balanced("{", "}")
            if p.at("="):
                p.eat(); p.expr()
            if p.at(","): p.eat(",")
            out.append(v)
        return out

    def enum_variants_typed(self, name):
        """[(variant, [payload types])] of an enum with tuple variants"""
        if name not in self.enums: raise Unsupported(f"enum {name} not found")
        j, k = self.enums[name]
        p = Parser(self.toks, j + 1)
        out = []
        while p.i < k:
            p.skip_attrs()
            if p.i >= k: break
            v = p.ident()
            tys = []
            if p.at("("):
                p.eat("(")
                while not p.at(")"):
                    tys.append(p.type_())
                    if p.at(","): p.eat(",")
                p.eat(")")
            elif p.at("{"): raise Unsupported("struct variant")
            if p.at("="):
                p.eat(); p.expr()
            if p.at(","): p.eat(",")
            out.append((v, tys))
        return out

    def struct_fields(self, name):
        if name not in self.structs: raise Unsupported(f"struct {name} not found")
        j, k = self.structs[name]
        p = Parser(self.toks, j + 1)
        out = {}
        while p.i < k:
            p.skip_attrs()
            if p.i >= k: break
            if p.at("pub"):
                p.eat()
                if p.at("("): p.skip_balanced("(", ")")
            f = p.ident(); p.eat(":"); out[f] = p.type_()
            if p.at(","): p.eat(",")
        return out

    def let_literals(self, fn):
        """`let [mut] NAME [: type] = <literal> ;` statements anywhere inside fn (token-level scan): NAME -> literal"""
        key = [k for k in self.fns if k[1] == fn]
        if len(key) != 1: raise Unsupported(f"function {fn} not found")
        i, j, k = self.fns[key[0]]
        T, out, a = self.toks, {}, j
        while a < k:
            if T[a].kind == "id" and T[a].text == "let":
                b = a + 1
                if T[b].text == "mut": b += 1
                if T[b].kind == "id" and T[b + 1].text == "=" and T[b + 2].kind in ("int", "str") and T[b + 3].text == ";":
                    out.setdefault(T[b].text, []).append(T[b + 2])
            a += 1
        return out
