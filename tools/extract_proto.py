#!/usr/bin/env python3
"""(T) translator, part 4: the save PROTOCOLS of writer/xlsx.rs, writer/csv.rs and helper/crypt.rs::try_encrypt.

Regenerates lean/Umya/Model/Gen/Proto.lean from the CURRENT source of /repo on every run of a check: for each save
function one term of the protocol language of lean/Umya/Model/SaveProto.lean (`Prog`) and the expression of its temp name (`E`).
Front end: tools/rustfrag.py (the parser of the first-order fragment).  This file: a syntax-directed translation of the
function body into continuation form, the effectful calls in source order:

  * effectful calls (extern, one `Op` each): `fs::File::create(p)`, `io::BufWriter::new(f)` / `with_capacity(n, f)`,
    `w.write_all(&buf)`, `w.write(&buf)`, `w.flush()` / `io::Write::flush(&mut w)`, `drop(w)`, `fs::rename(a, b)`,
    `fs::remove_file(p)`, `cfb::create(p)`, `File::open(p)`, `f.read_to_end(&mut buf)`, `make_buffer(..)` (opaque: the in-memory
    construction of the output, fallible), `write_compound_file(comp, ..)` (opaque; its body is checked to consist of
    `?`-checked / returned library calls only), `encrypt_parts(..)` (opaque, pure);
  * what happens to a call's `Result`: `op?` = `branch op <rest> <error exit>`; `let [mut] r = op;` / `r = op;` (also through
    `.map_err(..)`) = `set r op`; `let _ = op;` / `op.ok();` / `op;` = `act op`; `op.unwrap()` / `.expect(..)` = `branch op <rest> panic`;
    `match op { Ok(x) => A, Err(e) => B }` / `if let Err(e) = op { B }` = `branch op A B`; the same on a result variable
    and `if r.is_ok()` / `r.is_err()` / `!…` = `test r A B`; `Ok(..)` / `Err(e)` / a result variable in tail position or after
    `return` = `retOk` / `retErr` / `ret r`;
  * statements after an `if` / `match` are duplicated into its branches (continuation form: no joins, no evaluation);
  * calls of functions of the same file (and of `try_encrypt` in helper/crypt.rs) are inlined: a callee's `return`s continue
    with the caller's continuation (`const r ok?` when the call's value is stored); a writer passed by value is owned by
    the callee;
  * ownership: a `BufWriter` / `File` / compound file bound by `let` is dropped (an explicit `drop` node) at every exit of the
    owning function or block unless it was moved (`drop(w)`, passed by value); temporaries holding a writer are unsupported;
  * paths: expressions over the path parameters (`.as_ref()`, `&`, casts, `.to_path_buf()`, … are the identity;
    `.extension().unwrap().to_str().unwrap()`, `format!` with `{}` holes, `.with_extension(e)`, `if p.exists() {a} else {b}`) are
    substituted into their uses; an expression reading the file system (`exists`) must be bound before the first effect;
  * everything else must be PURE: no mention of a writer / reader / result variable, of `?`, `return`, of an I/O name space
    (`fs`, `File`, `OpenOptions`, `BufWriter`, `io`, `cfb`, …), of an I/O method name, or of a function that is not of the same file.
    Pure statements are skipped (`for` loops, the csv text and its encoding, the option defaults).

Anything else raises `Unsupported`: the committed snapshot of that definition is kept and the function is reported under
"fallbacks" (not a violation; the tie for it falls back to fault injection alone).
Prints one JSON line: {"functions_extracted": [...], "fallbacks": [...], "changed": bool}."""
import os, sys, json, re

sys.path.insert(0, os.path.dirname(os.path.abspath(__file__)))
from rustfrag import SourceFile, Unsupported

REPO = os.environ.get("UMYA_REPO", "/repo")
ROOT = os.path.dirname(os.path.dirname(os.path.abspath(__file__)))
OUT = os.environ.get("UMYA_PROTO_OUT") or os.path.join(ROOT, "lean", "Umya", "Model", "Gen", "Proto.lean")

XLSX = "src/writer/xlsx.rs"
CSV = "src/writer/csv.rs"
CRYPT = "src/helper/crypt.rs"
IMPORTS = {XLSX: [CRYPT]}                         # `use crate::helper::crypt::*;`

IO_NS = {"fs", "File", "OpenOptions", "BufWriter", "LineWriter", "io", "cfb", "CompoundFile", "process", "net", "tempfile", "Write", "Read", "Seek"}
IO_METHODS = {"write_all", "write", "write_fmt", "write_vectored", "flush", "read_to_end", "read_to_string", "read", "read_exact",
              "create_stream", "open_stream", "sync_all", "sync_data", "set_len", "seek", "into_inner", "get_mut", "get_ref", "by_ref",
              "metadata", "symlink_metadata", "exists", "is_file", "is_dir", "try_exists", "canonicalize", "read_link", "read_dir"}
PATH_ID = {"as_ref", "to_path_buf", "to_owned", "clone", "as_path", "as_os_str", "borrow", "into", "to_string", "as_str", "deref"}
PURE_CTORS = {"Some", "None"}
PURE_OPAQUE = {"encrypt_parts"}                   # assumed to perform no I/O (in-memory encryption of the package)
OPAQUE_COMPUTE = {"make_buffer"}                  # the in-memory construction of the package (fallible, no I/O)


# ------------------------------------------------------------------------------------------------ state

class State:
    def __init__(self):
        self.env = {}            # name -> value
        self.owned = []          # [(frame id, scope depth, name, kind)]   writers owned by a live variable, in declaration order
        self.effects = False     # a file-system effect has been emitted
    def copy(self):
        s = State()
        s.env, s.owned, s.effects = dict(self.env), list(self.owned), self.effects
        return s


class Frame:
    def __init__(self, fid, file, ret):
        self.fid, self.file, self.ret, self.depth = fid, file, ret, 0


class Translator:
    def __init__(self, sources):
        self.sources = sources
        self.nvars = 0
        self.nframes = 0
        self.inline_stack = []
        self.tmp_expr = None     # the E of the first create / cfbCreate

    def fresh(self):
        self.nvars += 1
        return self.nvars - 1

    # -------------------------------------------------------------------------------------------- lookup of functions
    def find_fn(self, file, name):
        for f in [file] + IMPORTS.get(file, []):
            sf = self.sources(f)
            cands = [k for k in sf.fns if k[1] == name and k[0] is None]
            if len(cands) == 1:
                return f, sf.parse_fn(name)
        return None, None

    # -------------------------------------------------------------------------------------------- purity
    def walk(self, node):
        if isinstance(node, tuple):
            yield node
            for x in node:
                yield from self.walk(x)
        elif isinstance(node, list):
            for x in node:
                yield from self.walk(x)

    def is_pure(self, e, st, fr, depth=0):
        for n in self.walk(e):
            if not n or not isinstance(n[0], str):
                continue
            tag = n[0]
            if tag == "path" and len(n) == 2 and isinstance(n[1], list):
                segs = n[1]
                if len(segs) == 1:
                    v = st.env.get(segs[0])
                    if v is not None and v[0] in ("writer", "reader", "res", "rconst", "rok", "errval", "cond"):
                        return False
                elif any(s in IO_NS for s in segs):
                    return False
            elif tag in ("try", "return"):
                return False
            elif tag == "mcall" and n[2] in IO_METHODS:
                if n[2] == "exists" and not n[4] and self.is_pure(n[1], st, fr, depth) and self.pure_val(n[1], st, fr)[0] == "path":
                    continue                  # `p.exists()` of a path expression: E.ifExists
                return False
            elif tag == "call" and n[1][0] == "path":
                segs = n[1][1]
                if len(segs) == 1:
                    f = segs[0]
                    if f in PURE_CTORS or f in PURE_OPAQUE:
                        continue
                    if f in ("Ok", "Err", "drop") or f in OPAQUE_COMPUTE or f == "write_compound_file":
                        return False
                    if depth > 4:
                        return False
                    file, decl = self.find_fn(fr.file, f)
                    if decl is None:
                        return False          # a function of another module: unknown effects
                    inner = State()
                    if not self.is_pure(decl["body"], inner, Frame(-1, file, None), depth + 1):
                        return False
        return True

    # -------------------------------------------------------------------------------------------- pure values (paths)
    def pure_val(self, e, st, fr):
        tag = e[0]
        if tag == "path":
            if len(e[1]) == 1:
                return st.env.get(e[1][0], ("pure",))
            return ("pure",)
        if tag == "str":
            return ("path", ("lit", e[1]))
        if tag in ("paren",):
            return self.pure_val(e[1], st, fr)
        if tag == "unary" and e[1] in ("&", "*", "&mut"):
            return self.pure_val(e[2], st, fr)
        if tag == "unary" and e[1] == "!":
            v = self.pure_val(e[2], st, fr)
            if v[0] == "exists": return ("exists", v[1], not v[2])
            return ("pure",)
        if tag == "cast":
            return self.pure_val(e[1], st, fr)
        if tag == "mcall":
            rv = self.pure_val(e[1], st, fr)
            name, args = e[2], e[4]
            if rv[0] == "path":
                if name in PATH_ID and not args: return rv
                if name == "extension" and not args: return ("extopt", rv[1])
                if name == "with_extension" and len(args) == 1:
                    av = self.pure_val(args[0], st, fr)
                    if av[0] != "path": raise Unsupported("with_extension: argument is not a string expression over the path parameters")
                    return ("path", ("withExt", rv[1], av[1]))
                if name == "exists" and not args:
                    if st.effects: raise Unsupported("a path expression reading the file system after the first effect")
                    return ("exists", rv[1], True)
                if rv[1][0] == "lit": return ("pure",)      # a method of a string literal
                raise Unsupported(f"method `{name}` on a path value")
            if rv[0] == "extopt":
                if name in ("unwrap", "expect"): return ("extos", rv[1])
                raise Unsupported(f"method `{name}` on `extension()`")
            if rv[0] == "extos":
                if name == "to_str" and not args: return ("extstropt", rv[1])
                if name in ("to_string_lossy",) and not args: return ("path", ("ext", rv[1]))
                raise Unsupported(f"method `{name}` on the extension")
            if rv[0] == "extstropt":
                if name in ("unwrap", "expect"): return ("path", ("ext", rv[1]))
                raise Unsupported(f"method `{name}` on `extension().to_str()`")
            if rv[0] == "data":
                return ("data",)
            return ("pure",)
        if tag == "macro" and e[1] == "format":
            args = e[2]
            vals = [self.pure_val(a, st, fr) for a in args[1:]]
            if args and args[0][0] == "str" and (not vals or any(v[0] == "path" for v in vals)):
                fmt = args[0][1]
                pieces = re.split(r"(\{[^{}]*\})", fmt)
                out, i = [], 0
                for p in pieces:
                    if p == "": continue
                    if p.startswith("{"):
                        if p != "{}" or i >= len(vals) or vals[i][0] != "path":
                            raise Unsupported("format! with a hole that is not `{}` of a path / string expression")
                        out.append(vals[i][1]); i += 1
                    else:
                        if "{" in p or "}" in p: raise Unsupported("format! with escaped braces")
                        out.append(("lit", p))
                if i != len(vals): raise Unsupported("format! argument count")
                if not out: return ("path", ("lit", ""))
                acc = out[-1]
                for x in reversed(out[:-1]): acc = ("cat", x, acc)
                return ("path", acc)
            return ("pure",)
        if tag == "binary" and e[1] == "+":
            a, b = self.pure_val(e[2], st, fr), self.pure_val(e[3], st, fr)
            if a[0] == "path" and b[0] == "path": return ("path", ("cat", a[1], b[1]))
            return ("pure",)
        if tag == "if":
            c = self.pure_val(e[1], st, fr)
            if c[0] == "exists" and e[3] is not None:
                a, b = self.pure_val(e[2], st, fr), self.pure_val(e[3], st, fr)
                if a[0] == "path" and b[0] == "path":
                    if not c[2]: a, b = b, a
                    return ("path", ("ifExists", c[1], a[1], b[1]))
                raise Unsupported("`if p.exists()` whose branches are not path expressions")
            return ("pure",)
        if tag == "block":
            inner = st.copy()
            for s in e[1]:
                if s[0] == "let":
                    self.bind_pure(s[1], self.pure_val(s[3], inner, fr) if s[3] is not None else ("pure",), inner)
                elif s[0] == "assign" and s[1][0] == "path" and len(s[1][1]) == 1:
                    inner.env[s[1][1][0]] = ("pure",)
            return self.pure_val(e[2], inner, fr) if e[2] is not None else ("unit",)
        if tag == "call" and e[1][0] == "path":
            segs, args = e[1][1], e[2]
            if len(segs) == 1 and segs[0] in PURE_OPAQUE:
                vals = [self.pure_val(a, st, fr) for a in args]
                return ("data",) if any(v[0] == "data" for v in vals) else ("pure",)
            if len(segs) == 1 and segs[0] not in PURE_CTORS:
                file, decl = self.find_fn(fr.file, segs[0])
                if decl is not None and len(decl["params"]) == len(args):
                    inner = State()
                    inner.effects = st.effects
                    for (pn, _), a in zip(decl["params"], args):
                        inner.env[pn] = self.pure_val(a, st, fr)
                    return self.pure_val(decl["body"], inner, Frame(-1, file, None))
                return ("pure",)
            if len(segs) >= 2 and tuple(segs[-2:]) in (("Path", "new"), ("PathBuf", "from"), ("String", "from")) and len(args) == 1:
                return self.pure_val(args[0], st, fr)
            return ("pure",)
        return ("pure",)

    def bind_pure(self, pat, val, st):
        if pat[0] == "pbind":
            st.env[pat[1]] = val
        elif pat[0] == "ptuple":
            for p in pat[1]:
                self.bind_pure(p, ("data",) if val[0] == "data" else ("pure",), st)
        elif pat[0] == "pwild":
            pass
        else:
            raise Unsupported("pattern in a let")

    # -------------------------------------------------------------------------------------------- emission helpers
    def emit(self, op, st):
        if op[0] not in ("compute", "openRead", "readAll"):
            st.effects = True
        if op[0] in ("create", "cfbCreate") and self.tmp_expr is None:
            self.tmp_expr = op[1]

    def consume(self, val, st, fr, k_ok, k_err):
        """a result-typed value is inspected on the spot: k_ok(payload, st) / k_err(st)"""
        if val[0] == "opres":
            self.emit(val[1], st)
            s1, s2 = st.copy(), st.copy()
            return ("branch", val[1], k_ok(val[2](s1), s1), k_err(s2))
        if val[0] == "res":
            s1, s2 = st.copy(), st.copy()
            return ("test", val[1], k_ok(("unit",), s1), k_err(s2))
        if val[0] == "rok":
            return k_ok(val[1], st)
        if val[0] == "rconst":
            return k_ok(("unit",), st) if val[1] else k_err(st)
        raise Unsupported("a value that is not a Result is used as one")

    def store(self, v, val, st, fr, k):
        """result variable v := val"""
        if val[0] == "opres":
            self.emit(val[1], st)
            return ("set", v, val[1], k(st))
        if val[0] == "res":
            s1, s2 = st.copy(), st.copy()
            return ("test", val[1], ("const", v, True, k(s1)), ("const", v, False, k(s2)))
        if val[0] == "rok":
            return ("const", v, True, k(st))
        if val[0] == "rconst":
            return ("const", v, val[1], k(st))
        raise Unsupported("a value that is not a Result is stored in a result variable")

    def is_resultish(self, val):
        return val[0] in ("opres", "res", "rok", "rconst")

    # -------------------------------------------------------------------------------------------- exits
    def drops(self, st, fr, min_depth, k):
        """drop the writers owned by variables of frame fr declared at scope depth >= min_depth, latest first"""
        mine = [o for o in st.owned if o[0] == fr.fid and o[1] >= min_depth]
        st.owned = [o for o in st.owned if not (o[0] == fr.fid and o[1] >= min_depth)]
        def go(i):
            if i < 0: return k(st)
            if mine[i][3] == "reader": return go(i - 1)
            self.emit(("drop",), st)
            return ("act", ("drop",), go(i - 1))
        return go(len(mine) - 1)

    def fn_exit(self, val, st, fr):
        if val[0] == "opres":
            # the call is made before the locals are dropped
            return self.consume(val, st, fr, lambda p, s: self.fn_exit(("rok", p), s, fr), lambda s: self.fn_exit(("rconst", False), s, fr))
        if val[0] == "writer" and val[2]:
            st.owned = [o for o in st.owned if o[2] != val[3]]
        return self.drops(st, fr, 0, lambda s: fr.ret(val, s))

    # -------------------------------------------------------------------------------------------- blocks and statements
    def tr_block(self, blk, st, fr, k):
        if blk[0] != "block":
            return self.tr_expr(blk, st, fr, k)
        fr.depth += 1
        depth = fr.depth
        saved = dict(st.env)
        def done(val, s):
            # leaving the block: its own variables go out of scope
            def after(s2):
                env2 = {}
                for name, v in saved.items():
                    nv = s2.env.get(name, v)
                    # an assignment to an outer result variable keeps its identity; a moved writer stays moved; a buffer filled
                    # inside the block stays filled; anything else was an inner `let` shadowing the outer name and ends here
                    env2[name] = nv if (nv[0] == "moved" or (nv[0] == "data" and v[0] == "pure")) else v
                s2.env = env2
                return k(val, s2)
            return self.drops(s, fr, depth, after)
        out = self.tr_stmts(blk[1], 0, blk[2], st, fr, done)
        fr.depth -= 1
        return out

    def tr_stmts(self, stmts, i, tail, st, fr, k):
        if i == len(stmts):
            if tail is None:
                return k(("unit",), st)
            return self.tr_expr(tail, st, fr, k)
        s = stmts[i]
        d = fr.depth
        rest = lambda s2: self.with_depth(fr, d, lambda: self.tr_stmts(stmts, i + 1, tail, s2, fr, k))
        tag = s[0]
        if tag == "let":
            _, pat, ty, e, mutable = s
            if e is None:
                self.bind_pure(pat, ("pure",), st)
                return rest(st)
            if self.is_pure(e, st, fr):
                self.bind_pure(pat, self.pure_val(e, st, fr), st)
                return rest(st)
            def bound(val, s2):
                if self.is_resultish(val):
                    if pat[0] == "pwild":
                        if val[0] == "opres":
                            self.emit(val[1], s2)
                            return ("act", val[1], rest(s2))
                        return rest(s2)
                    if pat[0] != "pbind": raise Unsupported("a Result bound by a pattern")
                    v = self.fresh()
                    def cont(s3):
                        s3.env[pat[1]] = ("res", v)
                        return rest(s3)
                    return self.store(v, val, s2, fr, cont)
                if val[0] == "writer":
                    if pat[0] != "pbind": raise Unsupported("a writer bound by a pattern")
                    if val[2]:
                        s2.owned = [o for o in s2.owned if o[2] != val[3]] + [(fr.fid, d, pat[1], val[1])]
                    s2.env[pat[1]] = ("writer", val[1], val[2], pat[1])
                    return rest(s2)
                if val[0] == "cond":
                    raise Unsupported("`is_ok()` / `is_err()` stored in a variable")
                if val[0] == "reader":
                    if pat[0] != "pbind": raise Unsupported("a reader bound by a pattern")
                    s2.env[pat[1]] = val
                    return rest(s2)
                self.bind_pure(pat, val, s2)
                return rest(s2)
            return self.tr_expr(e, st, fr, bound)
        if tag == "assign":
            _, place, op, rhs = s
            if place[0] == "path" and len(place[1]) == 1 and st.env.get(place[1][0], ("pure",))[0] == "res":
                if op != "=": raise Unsupported("compound assignment to a result variable")
                v = st.env[place[1][0]][1]
                return self.tr_expr(rhs, st, fr, lambda val, s2: self.store(v, val, s2, fr, rest))
            if self.is_pure(rhs, st, fr) and self.is_pure(place, st, fr):
                if place[0] == "path" and len(place[1]) == 1:
                    st.env[place[1][0]] = self.pure_val(rhs, st, fr) if op == "=" else ("pure",)
                return rest(st)
            raise Unsupported("assignment with effects")
        if tag == "expr":
            e = s[1]
            if self.is_pure(e, st, fr):
                return rest(st)
            def dropped(val, s2):
                if val[0] == "opres":
                    self.emit(val[1], s2)
                    return ("act", val[1], rest(s2))
                if val[0] == "writer" and val[2] and val[3] is None:
                    raise Unsupported("a temporary writer")
                return rest(s2)
            return self.tr_expr(e, st, fr, dropped)
        if tag in ("for", "const"):
            if self.is_pure(s, st, fr):
                return rest(st)
            raise Unsupported("a loop with effects")
        raise Unsupported("statement " + tag)

    def with_depth(self, fr, d, f):
        old = fr.depth
        fr.depth = d
        try:
            return f()
        finally:
            fr.depth = old

    # -------------------------------------------------------------------------------------------- expressions
    def path_arg(self, e, st, fr, what):
        if not self.is_pure(e, st, fr): raise Unsupported(what + ": argument with effects")
        v = self.pure_val(e, st, fr)
        if v[0] != "path": raise Unsupported(what + ": argument is not an expression over the path parameters")
        return v[1]

    def writer_arg(self, e, st, fr, what):
        """(value, by_value)"""
        by_value = True
        while e[0] in ("unary", "paren"):
            if e[0] == "unary":
                if e[1] not in ("&", "*", "&mut"): raise Unsupported(what + ": writer argument")
                by_value = False
                e = e[2]
            else:
                e = e[1]
        if e[0] == "path" and len(e[1]) == 1 and st.env.get(e[1][0], ("pure",))[0] in ("writer", "reader"):
            return st.env[e[1][0]], by_value
        return None, by_value

    def data_arg(self, e, st, fr, what):
        if not self.is_pure(e, st, fr): raise Unsupported(what + ": buffer argument with effects")
        return self.pure_val(e, st, fr)[0] == "data"

    def tr_expr(self, e, st, fr, k):
        tag = e[0]
        if tag == "path" and len(e[1]) == 1 and e[1][0] in st.env:
            return k(st.env[e[1][0]], st)
        if self.is_pure(e, st, fr):
            return k(self.pure_val(e, st, fr), st)
        if tag == "paren":
            return self.tr_expr(e[1], st, fr, k)
        if tag == "unary" and e[1] in ("&", "*", "&mut"):
            return self.tr_expr(e[2], st, fr, k)
        if tag == "unary" and e[1] == "!":
            def neg(val, s):
                if val[0] == "cond": return k(("cond", val[1], not val[2]), s)
                raise Unsupported("`!` of an effectful expression")
            return self.tr_expr(e[2], st, fr, neg)
        if tag == "block":
            return self.tr_block(e, st, fr, k)
        if tag == "return":
            if e[1] is None: raise Unsupported("return without a value")
            return self.tr_expr(e[1], st, fr, lambda val, s: self.fn_exit(val, s, fr))
        if tag == "try":
            return self.tr_expr(e[1], st, fr, lambda val, s: self.consume(val, s, fr, k, lambda s2: self.fn_exit(("rconst", False), s2, fr)))
        if tag == "if":
            def on_cond(c, s):
                if c[0] != "cond": raise Unsupported("an `if` with effects whose condition is not `r.is_ok()` / `r.is_err()`")
                s1, s2 = s.copy(), s.copy()
                a = self.tr_block(e[2], s1, fr, k)
                b = self.tr_block(e[3], s2, fr, k) if e[3] is not None else k(("unit",), s2)
                return ("test", c[1], a, b) if c[2] else ("test", c[1], b, a)
            return self.tr_expr(e[1], st, fr, on_cond)
        if tag == "match":
            return self.tr_match(e, st, fr, k)
        if tag == "mcall":
            return self.tr_mcall(e, st, fr, k)
        if tag == "call" and e[1][0] == "path":
            return self.tr_call(e, st, fr, k)
        raise Unsupported("expression `" + tag + "` with effects")

    def tr_match(self, e, st, fr, k):
        _, scrut, arms, kind = e
        ok_arm = err_arm = None
        for pat, guard, body in arms:
            if guard is not None: raise Unsupported("match guard on a Result")
            if pat[0] == "ppath" and pat[1] == ["Ok"] and pat[2] is not None and len(pat[2]) == 1 and ok_arm is None:
                ok_arm = (pat[2][0], body)
            elif pat[0] == "ppath" and pat[1] == ["Err"] and pat[2] is not None and len(pat[2]) == 1 and err_arm is None:
                err_arm = (pat[2][0], body)
            elif pat[0] == "pwild":
                if ok_arm is None: ok_arm = (("pwild",), body)
                elif err_arm is None: err_arm = (("pwild",), body)
            else:
                raise Unsupported("match on a Result with a pattern other than Ok(..) / Err(..) / _")
        if ok_arm is None or err_arm is None: raise Unsupported("match on a Result without both arms")
        def arm(a, payload, s):
            pat, body = a
            saved = dict(s.env)
            if pat[0] == "pbind":
                s.env[pat[1]] = payload
            elif pat[0] == "ptuple" and not pat[1]:
                pass
            elif pat[0] != "pwild":
                raise Unsupported("payload pattern of a Result arm")
            def leave(val, s2):
                if pat[0] == "pbind":
                    if pat[1] in saved: s2.env[pat[1]] = saved[pat[1]]
                    else: s2.env.pop(pat[1], None)
                return k(val, s2)
            return self.tr_block(body, s, fr, leave)
        def on_scrut(val, s):
            if val[0] == "writer" or not self.is_resultish(val): raise Unsupported("match with effects on a value that is not a Result")
            return self.consume(val, s, fr, lambda p, s1: arm(ok_arm, p, s1), lambda s2: arm(err_arm, ("errval",), s2))
        return self.tr_expr(scrut, st, fr, on_scrut)

    def tr_mcall(self, e, st, fr, k):
        _, recv, name, _tf, args = e
        if name in ("map_err", "or_else") and len(args) == 1:
            if not self.is_pure(args[0], st, fr): raise Unsupported("map_err with an effectful argument")
            if name == "or_else": raise Unsupported("or_else")
            return self.tr_expr(recv, st, fr, k)
        # methods of a writer / reader variable
        w, _ = self.writer_arg(recv, st, fr, name)
        if w is not None and w[0] == "writer":
            if name == "write_all" and len(args) == 1:
                if not self.data_arg(args[0], st, fr, name):
                    # the bytes come from a pure computation of this function (csv: the text and its encoding)
                    return ("act", ("compute", False), k(("opres", ("writeAll",), lambda s: ("unit",)), st))
                return k(("opres", ("writeAll",), lambda s: ("unit",)), st)
            if name == "write" and len(args) == 1:
                return k(("opres", ("write1",), lambda s: ("pure",)), st)
            if name == "flush" and not args:
                return k(("opres", ("flush",), lambda s: ("unit",)), st)
            raise Unsupported(f"method `{name}` of a writer")
        if w is not None and w[0] == "reader":
            if name == "read_to_end" and len(args) == 1:
                a = args[0]
                while a[0] in ("unary", "paren"): a = a[2] if a[0] == "unary" else a[1]
                if a[0] != "path" or len(a[1]) != 1: raise Unsupported("read_to_end: buffer argument")
                buf = a[1][0]
                def payload(s):
                    s.env[buf] = ("data",)
                    return ("pure",)
                return k(("opres", ("readAll",), payload), st)
            raise Unsupported(f"method `{name}` of a reader")
        # methods of a result-typed expression
        def on_recv(val, s):
            if val[0] == "writer" or val[0] == "reader": raise Unsupported(f"method `{name}` on a writer expression")
            if name in ("is_ok", "is_err") and not args:
                if val[0] == "res": return k(("cond", val[1], name == "is_ok"), s)
                if val[0] == "opres":
                    v = self.fresh()
                    return self.store(v, val, s, fr, lambda s2: k(("cond", v, name == "is_ok"), s2))
                raise Unsupported(name + " on a constant")
            if name in ("unwrap", "expect"):
                return self.consume(val, s, fr, k, lambda s2: ("panic",))
            if name == "ok" and not args:
                if val[0] == "opres":
                    self.emit(val[1], s)
                    return ("act", val[1], k(("pure",), s))
                return k(("pure",), s)
            if name in ("into", "map") and self.is_resultish(val) and all(self.is_pure(a, s, fr) for a in args):
                if name == "map": raise Unsupported("map on a Result")
                return k(val, s)
            if val[0] == "errval" and all(self.is_pure(a, s, fr) for a in args):
                return k(val, s)
            raise Unsupported(f"method `{name}` on an effectful expression")
        return self.tr_expr(recv, st, fr, on_recv)

    def tr_call(self, e, st, fr, k):
        segs, args = e[1][1], e[2]
        name = segs[-1]
        q = tuple(segs[-2:]) if len(segs) >= 2 else (None, name)
        if len(segs) == 1:
            if name == "Ok" and len(args) == 1:
                if self.is_pure(args[0], st, fr): return k(("rok", self.pure_val(args[0], st, fr)), st)
                return self.tr_expr(args[0], st, fr, lambda val, s: k(("rok", val), s))
            if name == "Err" and len(args) == 1:
                def on_e(val, s):
                    if val[0] in ("errval", "pure", "path"): return k(("rconst", False), s)
                    raise Unsupported("Err(..) of an effectful expression")
                return self.tr_expr(args[0], st, fr, on_e)
            if name == "drop" and len(args) == 1:
                w, by_value = self.writer_arg(args[0], st, fr, "drop")
                if w is None or not by_value:
                    if self.is_pure(args[0], st, fr): return k(("unit",), st)
                    raise Unsupported("drop of an effectful expression")
                if w[0] == "reader": return k(("unit",), st)
                if not w[2]: raise Unsupported("drop of a borrowed writer")
                st.owned = [o for o in st.owned if o[2] != w[3]]
                st.env[w[3]] = ("moved",)
                self.emit(("drop",), st)
                return ("act", ("drop",), k(("unit",), st))
            if name in OPAQUE_COMPUTE:
                for a in args:
                    if not self.is_pure(a, st, fr): raise Unsupported(name + ": argument with effects")
                return k(("opres", ("compute", True), lambda s: ("data",)), st)
            if name == "write_compound_file":
                return self.tr_write_compound_file(e, st, fr, k)
            return self.tr_inline(name, args, st, fr, k)
        if q == ("File", "create") and len(args) == 1:
            p = self.path_arg(args[0], st, fr, "File::create")
            return k(("opres", ("create", p), lambda s: ("writer", "file", True, None)), st)
        if q == ("File", "open") and len(args) == 1:
            p = self.path_arg(args[0], st, fr, "File::open")
            return k(("opres", ("openRead", p), lambda s: ("reader",)), st)
        if q == ("cfb", "create") and len(args) == 1:
            p = self.path_arg(args[0], st, fr, "cfb::create")
            return k(("opres", ("cfbCreate", p), lambda s: ("writer", "cfb", True, None)), st)
        if q in (("BufWriter", "new"), ("BufWriter", "with_capacity")):
            cap = 8192
            if name == "with_capacity":
                if len(args) != 2 or args[0][0] != "int": raise Unsupported("BufWriter::with_capacity: capacity is not a literal")
                cap = args[0][1]
            def wrap(val, s):
                if val[0] != "writer" or val[1] != "file" or not val[2]: raise Unsupported("BufWriter::new of something that is not a File just created")
                if val[3] is not None:
                    s.owned = [o for o in s.owned if o[2] != val[3]]
                    s.env[val[3]] = ("moved",)
                self.emit(("bufNew", cap), s)
                return ("act", ("bufNew", cap), k(("writer", "buf", True, None), s))
            return self.tr_expr(args[-1], st, fr, wrap)
        if q == ("fs", "rename") and len(args) == 2:
            a, b = self.path_arg(args[0], st, fr, "fs::rename"), self.path_arg(args[1], st, fr, "fs::rename")
            return k(("opres", ("rename", a, b), lambda s: ("unit",)), st)
        if q == ("fs", "remove_file") and len(args) == 1:
            p = self.path_arg(args[0], st, fr, "fs::remove_file")
            return k(("opres", ("remove", p), lambda s: ("unit",)), st)
        if q in (("Write", "flush"), ("Write", "write_all"), ("Write", "write")):
            w, _ = self.writer_arg(args[0], st, fr, "Write::" + name) if args else (None, True)
            if w is None or w[0] != "writer": raise Unsupported("Write::" + name + " on something that is not a writer variable")
            fake = ("mcall", ("path", [w[3]]) if w[3] else None, name, None, args[1:])
            if w[3] is None: raise Unsupported("Write::" + name + " on a temporary")
            return self.tr_mcall(fake, st, fr, k)
        if not any(x in IO_NS for x in segs) and len(args) == 1:
            # a conversion such as `XlsxError::from(e)`
            def conv(val, s):
                if val[0] in ("errval", "pure", "path"): return k(val if val[0] == "errval" else ("pure",), s)
                raise Unsupported("call of `" + "::".join(segs) + "` on an effectful expression")
            return self.tr_expr(args[0], st, fr, conv)
        raise Unsupported("call of `" + "::".join(segs) + "`")

    def tr_write_compound_file(self, e, st, fr, k):
        args = e[2]
        file, decl = self.find_fn(fr.file, "write_compound_file")
        if decl is None or len(decl["params"]) != len(args) or not args: raise Unsupported("write_compound_file not found")
        w, by_value = self.writer_arg(args[0], st, fr, "write_compound_file")
        if w is None or w[0] != "writer" or w[1] != "cfb" or not by_value or not w[2]:
            raise Unsupported("write_compound_file: the first argument is not the compound file just created, by value")
        for a in args[1:]:
            if not self.data_arg(a, st, fr, "write_compound_file"): raise Unsupported("write_compound_file: a stream that is not derived from the package")
        self.check_all_checked(decl["body"], True)
        st.owned = [o for o in st.owned if o[2] != w[3]]
        st.env[w[3]] = ("moved",)
        return k(("opres", ("cfbWrite",), lambda s: ("unit",)), st)

    def check_all_checked(self, blk, is_fn_body):
        """every statement is `let x = call?;`, `call?;`, a nested block of that form, or (last) the returned call"""
        def is_call(x):
            return x[0] in ("mcall", "call")
        for s in blk[1]:
            if s[0] == "let" and s[1][0] == "pbind" and s[3] is not None and s[3][0] == "try" and is_call(s[3][1]): continue
            if s[0] == "expr" and s[1][0] == "try" and is_call(s[1][1]): continue
            if s[0] == "expr" and s[1][0] == "block":
                self.check_all_checked(s[1], False); continue
            raise Unsupported("write_compound_file: a statement that is not a `?`-checked call")
        t = blk[2]
        if t is None:
            if is_fn_body: raise Unsupported("write_compound_file: no returned value")
            return
        if t[0] == "block" and not is_fn_body:
            return self.check_all_checked(t, False)
        if is_fn_body and (is_call(t) or (t[0] == "call" and t[1] == ("path", ["Ok"]))): return
        raise Unsupported("write_compound_file: tail expression")

    def tr_inline(self, name, args, st, fr, k):
        file, decl = self.find_fn(fr.file, name)
        if decl is None: raise Unsupported(f"call of `{name}`: not a function of this file")
        if name in self.inline_stack or len(self.inline_stack) > 4: raise Unsupported("recursive / deep inlining of " + name)
        if len(decl["params"]) != len(args): raise Unsupported("argument count of " + name)
        self.nframes += 1
        caller_env = st.env
        callee = Frame(self.nframes, file, None)
        new_env = {}
        moved = []
        copies = []              # result variables passed by value: the callee gets its own copy
        for (pn, _), a in zip(decl["params"], args):
            w, by_value = self.writer_arg(a, st, fr, name)
            b = a
            while b[0] == "paren": b = b[1]
            if w is None and b[0] == "path" and len(b[1]) == 1 and st.env.get(b[1][0], ("pure",))[0] == "res":
                v = self.fresh()
                copies.append((v, st.env[b[1][0]]))
                new_env[pn] = ("res", v)
                continue
            if w is not None:
                if w[0] == "writer" and by_value and w[2]:
                    moved.append((w[3], pn, w[1]))
                    new_env[pn] = ("writer", w[1], True, pn)
                elif w[0] == "writer":
                    new_env[pn] = ("writer", w[1], False, pn)
                else:
                    new_env[pn] = w
            else:
                if not self.is_pure(a, st, fr): raise Unsupported(f"argument of `{name}` with effects")
                new_env[pn] = self.pure_val(a, st, fr)
        for old, pn, kind in moved:
            st.owned = [o for o in st.owned if o[2] != old] + [(callee.fid, 0, pn, kind)]
            caller_env = dict(caller_env); caller_env[old] = ("moved",)
        def ret(val, s):
            s.env = dict(caller_env)
            self.inline_stack.pop()
            try:
                return k(val, s)
            finally:
                self.inline_stack.append(name)
        callee.ret = ret
        def enter(s, i=0):
            if i < len(copies):
                return self.store(copies[i][0], copies[i][1], s, fr, lambda s2: enter(s2, i + 1))
            s.env = dict(new_env)
            self.inline_stack.append(name)
            try:
                return self.tr_block(decl["body"], s, callee, lambda val, s2: self.fn_exit(val, s2, callee))
            finally:
                self.inline_stack.pop()
        return enter(st)


# ------------------------------------------------------------------------------------------------ Lean printer

def lean_chars(s):
    def ch(c):
        if c == "'": return "'\\''"
        if c == "\\": return "'\\\\'"
        if c == "\n": return "'\\n'"
        if c == "\t": return "'\\t'"
        if c == "\r": return "'\\r'"
        if 32 <= ord(c) < 127: return f"'{c}'"
        return "'\\u{%x}'" % ord(c)
    return "[" + ", ".join(ch(c) for c in s) + "]"


def lean_E(e):
    t = e[0]
    if t in ("dest", "src"): return "." + t
    if t == "lit": return f"(.lit {lean_chars(e[1])})"
    if t == "ext": return f"(.ext {lean_E(e[1])})"
    if t in ("cat", "withExt"): return f"(.{t} {lean_E(e[1])} {lean_E(e[2])})"
    if t == "ifExists": return f"(.ifExists {lean_E(e[1])} {lean_E(e[2])} {lean_E(e[3])})"
    raise ValueError(t)


def lean_op(op):
    t = op[0]
    if t in ("writeAll", "write1", "flush", "drop", "cfbWrite", "readAll"): return "." + t
    if t == "bufNew": return f"(.bufNew {op[1]})"
    if t == "compute": return f"(.compute {'true' if op[1] else 'false'})"
    if t in ("create", "remove", "cfbCreate", "openRead"): return f"(.{t} {lean_E(op[1])})"
    if t == "rename": return f"(.rename {lean_E(op[1])} {lean_E(op[2])})"
    raise ValueError(t)


def lean_prog(p, ind):
    pad = "  " * ind
    t = p[0]
    if t in ("retOk", "retErr", "panic"): return pad + "." + t
    if t == "ret": return pad + f"(.ret {p[1]})"
    if t == "act": return pad + f"(.act {lean_op(p[1])}\n" + lean_prog(p[2], ind + 1) + ")"
    if t == "set": return pad + f"(.set {p[1]} {lean_op(p[2])}\n" + lean_prog(p[3], ind + 1) + ")"
    if t == "const": return pad + f"(.const {p[1]} {'true' if p[2] else 'false'}\n" + lean_prog(p[3], ind + 1) + ")"
    if t == "branch": return pad + f"(.branch {lean_op(p[1])}\n" + lean_prog(p[2], ind + 1) + "\n" + lean_prog(p[3], ind + 1) + ")"
    if t == "test": return pad + f"(.test {p[1]}\n" + lean_prog(p[2], ind + 1) + "\n" + lean_prog(p[3], ind + 1) + ")"
    raise ValueError(t)


def size(p):
    return 1 + sum(size(x) for x in p[1:] if isinstance(x, tuple) and x and x[0] in
                   ("ret", "retOk", "retErr", "panic", "act", "set", "const", "branch", "test"))


# ------------------------------------------------------------------------------------------------ targets

def t_save(lean_name, file, fn, roles, writer_param=None):
    """roles: parameter index -> "dest" | "src"; writer_param: index of the caller-supplied writer (borrowed)"""
    def build(sources):
        tr = Translator(sources)
        decl = sources(file).parse_fn(fn)
        st = State()
        for i, (pn, _) in enumerate(decl["params"]):
            if i in roles: st.env[pn] = ("path", (roles[i],))
            elif i == writer_param: st.env[pn] = ("writer", "sink", False, pn)
            else: st.env[pn] = ("pure",)
        def top_ret(val, s):
            if val[0] == "rok" or (val[0] == "rconst" and val[1]): return ("retOk",)
            if val[0] == "rconst": return ("retErr",)
            if val[0] == "res": return ("ret", val[1])
            raise Unsupported("the function returns something that is not a Result of the protocol")
        fr = Frame(0, file, top_ret)
        prog = tr.tr_block(decl["body"], st, fr, lambda val, s: tr.fn_exit(val, s, fr))
        if size(prog) > 4000: raise Unsupported("the continuation form is too large")
        out = (f"/-- translated from `{file}` fn `{fn}`: the protocol in continuation form ({size(prog)} nodes) -/\n"
               f"def {lean_name} : Prog :=\n" + lean_prog(prog, 1) + "\n")
        if writer_param is None:
            if tr.tmp_expr is None: raise Unsupported("no file is created")
            out += (f"\n/-- translated from `{file}` fn `{fn}`: the path of the file it creates -/\n"
                    f"def {lean_name}_tmp : E := {lean_E(tr.tmp_expr)}\n")
        return out
    return build


TARGETS = [
    ("xlsx_write", t_save("xlsx_write", XLSX, "write", {1: "dest"})),
    ("xlsx_write_light", t_save("xlsx_write_light", XLSX, "write_light", {1: "dest"})),
    ("csv_write", t_save("csv_write", CSV, "write", {1: "dest"})),
    ("xlsx_write_writer", t_save("xlsx_write_writer", XLSX, "write_writer", {}, writer_param=1)),
    ("xlsx_write_writer_light", t_save("xlsx_write_writer_light", XLSX, "write_writer_light", {}, writer_param=1)),
    ("csv_write_writer", t_save("csv_write_writer", CSV, "write_writer", {}, writer_param=1)),
    ("xlsx_write_with_password", t_save("xlsx_write_with_password", XLSX, "write_with_password", {1: "dest"})),
    ("xlsx_write_with_password_light", t_save("xlsx_write_with_password_light", XLSX, "write_with_password_light", {1: "dest"})),
    ("xlsx_set_password", t_save("xlsx_set_password", XLSX, "set_password", {0: "src", 1: "dest"})),
]

HEADER = ("/-\n  GENERATED by tools/extract_proto.py from the current source of /repo — do not edit.\n"
          "  The save protocols of writer/xlsx.rs, writer/csv.rs (with helper/crypt.rs::try_encrypt inlined) as terms of the\n"
          "  protocol language of Umya/Model/SaveProto.lean (see the tool's doc string).\n-/\n"
          "import Umya.Model.SaveProto\nnamespace Umya.Gen\nopen Umya.SaveProto\n\n")


def main():
    old = open(OUT).read() if os.path.exists(OUT) else ""
    cache = {}
    def sources(path):
        if path not in cache:
            cache[path] = SourceFile(path, open(os.path.join(REPO, path)).read())
        return cache[path]
    parts, extracted, fallbacks = [], [], []
    for name, build in TARGETS:
        try:
            txt = build(sources)
            extracted.append(name)
        except Exception as ex:
            m = re.search(r"-- BEGIN " + re.escape(name) + r"\n(.*?)-- END " + re.escape(name) + r"\n", old, re.S)
            txt = m.group(1) if m else None
            fallbacks.append({"function": name, "reason": (type(ex).__name__ + ": " + str(ex))[:200], "snapshot_kept": bool(m)})
        if txt is not None:
            parts.append(f"-- BEGIN {name}\n{txt}-- END {name}\n")
    text = HEADER + "\n".join(parts) + "\nend Umya.Gen\n"
    if text != old:
        os.makedirs(os.path.dirname(OUT), exist_ok=True)
        open(OUT, "w").write(text)
    print(json.dumps({"functions_extracted": extracted, "fallbacks": fallbacks, "changed": text != old}))


if __name__ == "__main__":
    main()
