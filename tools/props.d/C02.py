import re

def _classify(op, a, b):
    """op = the request line, a = the implementation's claim, b = the independent reader's verdict"""
    if op.startswith("c02 part"):
        if b.startswith("ok render="):
            return ("part-is-not-a-rendering-of-the-writer-model", b[:300])
        return ("part-not-wellformed-xml", b)
    if op.startswith("c02 bridge"):
        return ("cell-bridge-differs", b[:400])
    if op.startswith("c02 sheetbridge"):
        return ("sheet-bridge-differs", b[:600])
    m = re.match(r"errs=(\d+);(.*?);view=(.*)$", b, re.S)
    if not m:
        return ("independent-reader-differs", b[:300])
    if m.group(1) != "0":
        return ("package-violation", m.group(2))
    va = a.split(";view=", 1)[1] if ";view=" in a else ""
    vb = m.group(3)
    # first differing field
    pa = va.replace(" # ", ";").split(";")
    pb = vb.replace(" # ", ";").split(";")
    for x, y in zip(pa, pb):
        if x != y:
            key = x.split("=")[0]
            xs = x.split(","); ys = y.split(",")
            for p, q in zip(xs, ys):
                if p != q:
                    fp, fq = p.split("/"), q.split("/")
                    if len(fp) == len(fq) == 4 and fp[0] == fq[0] and fp[1] == fq[1] and fp[3] == fq[3]:
                        try:
                            tv = bytes.fromhex(fp[2] if fp[2] != "-" else "").decode("utf8")
                            tf = bytes.fromhex(fq[2] if fq[2] != "-" else "").decode("utf8")
                            if "\r" in tv and tv.replace("\r\n", "\n").replace("\r", "\n") == tf:
                                return ("carriage-return-normalised", f"workbook: {p} file: {q}")
                        except Exception:
                            pass
                    return ("view-differs-" + key, f"workbook: {p} file: {q}")
            return ("view-differs-" + key, f"lengths {len(xs)} vs {len(ys)}")
    return ("view-differs", "")

PROP = {
    "thm": ["Umya.Thm.C02", "Umya.Thm.C02Bytes", "Umya.Thm.C02Sheet", "Umya.Thm.C02Book", "Umya.Thm.C02Gen"],
    "harness": "c02",
    "level": "translation_validation",
    "stateful": True,
    "disagreement_is_oracle": True,
    "classify_disagreement": _classify,
    "level_text": "Translation validation by an independent reader executed in Lean, plus theorems for the unbounded pieces; the central clause about CELLS is now a theorem about the writer model, tied to the files on every run. "
                  "Every part of every package the "
                  "library writes (generated workbooks with cells of all kinds, hyperlinks, merges, defined names, comments, validations, conditional formats, "
                  "protection, hidden sheets, special-character names; re-saved corpus files; standard and light compression) is lexed by an XML 1.0 reader and decoded "
                  "by an OPC/SpreadsheetML reader written from the standards (Umya.Spec.Xml / Umya.Spec.Sml): well-formedness, content types, relationship resolution, "
                  "unique ids/names, schema child order, ascending rows/cells, index bounds; the decoded view must equal the in-memory workbook. Theorems (all inputs): "
                  "the writer's escaping is read back exactly by the independent XML reader for both text writers and for attributes (C02_text_channel, "
                  "C02_text_channel_conversion, C02_attr_channel, sharp by *_fails), the cells handed "
                  "to the sheet writer are exactly the existing cells in strictly ascending order for every reachable sheet (C02_sheetdata_ascending, from C10), "
                  "hyperlink relationship ids pair every cell with its own target for any number of links (C02_hyperlink_pairing; C02_unordered_pairing_fails documents the repaired defect). "
                  "CELL CLAUSE (proved for the writer model of Umya/Model/CellXml.lean, the model C01 ties to the code): every <c> that Cell::write_to produces, on every branch "
                  "(<c r s/>, t=s through the shared table, t=str, t=b, t=e, numbers, <v/>, with and without <f>), rendered as the element tree an XML 1.0 reader delivers "
                  "(Umya/Model/CellNode.lean), is decoded by the independent decodeCell to exactly the cell's reference, kind, value text, formula text and style index, with no "
                  "violation, against the shared strings the independent reader takes from the part written for ANY later table state (C02_cell_decodes, C02_table_only_grows, "
                  "C02_si_decodes, C02_sst_decodes); lifted to a sheet and to the whole package for any number of sheets and cells against the FINAL shared-string part "
                  "(C02_sheet_cells_decode, C02_book_cells_decode, C02_book_cell_decodes; the writer is total for columns >= 1: C02_cell_written, C02_book_written); the decoded "
                  "reference is the cell's own column and row under the decoder's A1 reading (C02_cell_position); text content is rendered as the lexer delivers it (C02_chardata_lexed). "
                  "No hypothesis on characters, numbers, sizes or table state. Kinds follow the table text/rich->s, number->n, bool->b, error->e, blank->'' except for a formula "
                  "without cached value (reads as an empty string result; equal under the view's normalisation: C02_cell_kind_normalised) and an unresolved lazy value (reads as an "
                  "empty number): C02_cell_decodes_plain_partial / C02_cell_kind_partial (hypothesis plainKind) with witnesses C02_cell_uncached_formula_fails, C02_cell_lazy_fails. "
                  "Tie of the cell clause to the code on every run (request `c02 bridge`): (a) every <c> parsed by the independent XML reader from the real sheet parts is tree-equal to "
                  "cellNode of the fact a non-unescaping scanner read from the same bytes; (b) the shared strings read from the real part equal those of the rendered <si> facts; "
                  "(c) for generated workbooks the writer model run on the in-memory cells yields exactly these cell facts and <si> texts; (d) decodeCell on the real trees equals fileView of the model cells. "
                  "SHEET CLAUSE (new; tree level, Umya/Model/SheetNode.lean = model of writer/xlsx/worksheet.rs + worksheet_rels.rs): for every well-formed sheet (SheetW.WF: row table strictly "
                  "ascending in 1..1048576, cells strictly ascending by (row, column) with columns in 1..16384, every cell's row in the row table - what C10's Coherent gives, C02_sheet_of_coherent) "
                  "with any number of rows, cells, merged ranges and hyperlinks, the independent decodeSheet applied to a package holding the rendered <worksheet> tree (the <row> wrappers of the "
                  "peek-and-consume row loop, <mergeCells>, <hyperlinks> with the r:id counter, the children in the order written) and the rendered relationships tree (its own counter over the "
                  "same link list) returns exactly the views of the non-blank cells in order, the merged ranges, every hyperlink on its own cell with its own target (through the relationships "
                  "part for external links, location for internal ones) and tooltip, the row table, and an EMPTY list of diagnostics - rows/cells ascending and in range, style and shared-string "
                  "indexes inside their tables, CT_Worksheet child order, every r:id resolving (C02_sheet_decodes, C02_sheet_decodes_sst, C02_merges_decode, C02_hyperlinks_decode, "
                  "C02_hyperlink_walk_decodes, C02_sheet_rels_decode, total writer C02_sheet_written; C02_unordered_rels_fails documents the repaired pairing defect on the decoder's own functions). "
                  "Children of <worksheet> the model does not render and relationships after the hyperlink ones are opaque parameters under explicit Boolean hypotheses (Frame.ok, colsOk, dxfOk, ridsOk). "
                  "WORKBOOK CLAUSE (new, partial): C02_book_decodes_partial - decode on a package holding the rendered workbook.xml (<sheets>, <definedNames>) and workbook.xml.rels trees returns the "
                  "sheet list in order (name, visibility, the body decoded from the part the r:id resolves to) and the defined names, with no diagnostic about sheet names, sheet ids, unresolved r:ids, "
                  "sheet bodies or name scopes, for any number of sheets and names with case-insensitively distinct titles; C02_sheet_names_case_fails is the witness of the defect repaired by fix 95713cc. "
                  "Tie of both to the code on every run (request `c02 sheetbridge`, generated workbooks incl. a dedicated generator): the rendering of the in-memory rows / cells / merged ranges / "
                  "hyperlinks / sheet list / defined names by the MODEL is compared, tree-equal up to attribute order, with what the independent XML reader parsed from the real sheetN.xml "
                  "(sheetData with every row and c, mergeCells, hyperlinks, phoneticPr, child-name sequence), sheetN.xml.rels (hyperlink relationships), workbook.xml (sheets, definedNames, child order), "
                  "workbook.xml.rels (worksheet relationships) and [Content_Types].xml (worksheet overrides); the theorems' hypotheses are evaluated on the real frame and, where they hold (all 560 sheets "
                  "of a quick run), the conclusion of C02_sheet_decodes is checked on the real package.",
    "level_note": "The package-level claim as a whole is validated per written file, not proved for all workbooks: there is no Lean model of the whole writer (parts list, "
                  "content types, package-level relationships, the opaque children of <worksheet>/<workbook>, styles). The sheet and workbook theorems are about element TREES "
                  "(Package parts carry the parsed tree); the path algebra of OPC (resolveTarget, relsNameOf on String) enters as hypotheses / look-ups, evaluated on every real package. The cell theorems are about the fact-level model of the cell writer "
                  "(element, attributes, raw text content) and a rendering of those facts as element trees; the tag syntax quick-xml emits is not modelled at character level, "
                  "so the step bytes -> tree is checked per file by the `c02 bridge` request (tree equality of every parsed <c> with the rendered fact), not proved. "
                  "Trusted: the Lean reader (spec, ~600 lines), the rendering Umya/Model/CellNode.lean (~150 lines, checked against the real parse on every run), the zip crate, "
                  "the harness view function and C01's fact scanner. Parts the reader does not interpret (theme, drawings, charts, VML, styles body) are checked "
                  "for XML well-formedness, content type and relationships only.",
    "expect_theorems": ["C02_datatype_matches_source", "C02_channels_match_source", "C02_text_channel", "C02_text_channel_conversion", "C02_attr_channel", "C02_escaped_is_inert", "C02_sheetdata_ascending",
                        "C02_hyperlink_pairing",
                        "C02_table_only_grows", "C02_si_decodes", "C02_sst_decodes", "C02_cell_decodes", "C02_cell_written",
                        "C02_cell_kind_partial", "C02_cell_decodes_plain_partial", "C02_cell_uncached_formula_fails", "C02_cell_lazy_fails", "C02_cell_kind_normalised",
                        "C02_sheet_cells_decode", "C02_book_cells_decode", "C02_book_cell_decodes", "C02_book_written",
                        "C02_chardata_lexed", "C02_cell_position",
                        "C02_writer_matches_source", "C02_bytes_start_tag", "C02_bytes_end_tag", "C02_bytes_decl", "C02_bytes_parse", "C02_bytes_normal_form",
                        "C02_bytes_parse_tree", "C02_bytes_parse_tree_norm", "C02_cell_bytes_decode", "C02_cell_bytes_decode_default", "C02_si_bytes_decode",
                        "C02_sheet_decodes", "C02_sheet_decodes_sst", "C02_merges_decode", "C02_hyperlinks_decode", "C02_hyperlink_walk_decodes",
                        "C02_sheet_rels_decode", "C02_unordered_rels_fails", "C02_sheet_written", "C02_sheet_of_coherent",
                        "C02_book_decodes_partial", "C02_sheet_names_case_fails"],
    "rule": "case = one workbook (generated from a per-case seed, or a corpus file re-saved) written with the standard or the light writer; every part is one request; "
            "the `decode` request compares violations (must be none) and the decoded view; the final `bridge` request carries the cell / <si> facts scanned from the real parts "
            "and (generated workbooks) the in-memory cells, and must answer ok. non-trivial = every part / decode / bridge request; distinct = distinct request line",
    "trusted_base": TB_COMMON + ["independent reader Umya/Spec/XmlLex.lean + Umya/Spec/Sml.lean (executed, not verified against the standards' text)", "zip crate",
                                  "rendering of written facts as element trees Umya/Model/CellNode.lean (checked against the real parse by `c02 bridge` on every run)",
                                  "the writer model Umya/Model/CellXml.lean is the code's (C01's correspondence stream; re-checked on C02's workbooks by `c02 bridge` (c))",
                                  "harness/src/c01.rs::package_facts (non-unescaping scanner of the real parts)",
                                  "tree-level writer models Umya/Model/SheetNode.lean, Umya/Model/WorkbookNode.lean (checked against the real parse by `c02 sheetbridge` on every run; "
                                  "below the comparison: cellXfs indexes, opaque frame, presence of state=visible)"],
    "assumptions": ["C02_bytes_parse: element and attribute names are XML Names, attribute names distinct per element, attribute values and texts consist of XML 1.0 Chars "
                    "(decidable WF; evaluated by the driver on every claimed part)"],
    "partial_clauses": ["whole-package well-formedness and decode equality are validated per file, not proved for all workbooks; proved for all inputs: the cell clause at the level of the "
                        "writer model's facts (C02_cell_decodes … C02_book_cell_decodes), the escaping channels, sheetData order, rId pairing",
                        "cells: shared / array formulas, inline strings (<is>), cm/vm/ph attributes are outside the modelled fragment (counted as outside-fragment by the bridge; validated per file by decode)",
                        "sheet: proved at tree level for the modelled skeleton (sheetData with rows, mergeCells, phoneticPr, hyperlinks + relationships part); the other children of <worksheet> "
                        "(sheetPr, dimension, sheetViews, sheetFormatPr, cols, sheetProtection, autoFilter, conditionalFormatting, dataValidations, printOptions ... extLst) are opaque under Frame.ok / colsOk / "
                        "dxfOk / ridsOk (evaluated per file); sheets with tableParts, shared/array formulas or cells outside the CellX fragment are outside the theorem (validated per file); row attributes "
                        "thickBot, customHeight, x14ac:dyDescent and the style table behind the s index are not modelled",
                        "workbook: C02_book_decodes_partial leaves the package-level diagnostics (content types for every part, well-formedness of every part, unique relationship ids, relationship targets exist) "
                        "and activeTab per file; OPC path resolution (String operations) is a hypothesis checked per file; content types are only tied (worksheet overrides), not proved",
                        "sheet titles: Worksheet::set_name does not check for duplicates (known finding C02-set-name-duplicate-title); new_sheet compares case-insensitively since the fix",
                        "tag-level serialisation (characters -> element tree) is PROVED for the model Umya/Model/XmlWrite.lean of writer/driver.rs + quick-xml's Writer (C02_bytes_parse, any tree); "
                        "that the real parts are renderings of that model is checked per written part (`c02 part … w` -> render=same, character for character) and, for the structure of the six helper "
                        "functions, by the translator (C02_writer_matches_source); quick-xml's write_event / push_attribute themselves are modelled from their source, not translated; "
                        "VML parts and parts a loaded workbook carries verbatim are not claimed (counted as render.skipped.*)",
                        "drawings, charts, tables, pivot tables, VML bodies, theme, docProps: XML well-formedness / content type / relationships only",
                        "macro payload (vbaProject.bin) only via the corpus .xlsm files"],
    "technique": "independent XML/OPC/SpreadsheetML reader executed in Lean on every written package (translation validation) + Lean theorems on the escaping channels, sheetData order, rId pairing "
                 "and the cell clause (writer model -> rendered element tree -> independent decoder = model cell, for all cells and table states), the latter tied to the real parts by tree equality on every run",
}
