import re

def _classify(op, a, b):
    """op = the request line, a = the implementation's claim, b = the independent reader's verdict"""
    if op.startswith("c02 part"):
        return ("part-not-wellformed-xml", b)
    m = re.match(r"errs=(\d+);(.*?);view=(.*)$", b, re.S)
    if not m:
        return ("independent-reader-differs", b[:300])
    if m.group(1) != "0":
        return ("package-violation", m.group(2))
    va = a.split(";view=", 1)[1] if ";view=" in a else ""
    vb = m.group(3)
    # first differing field
    pa = va.replace(" # ", ";").split(";")
    pb = vb.replace(" # ", ";").split(";")
    for x, y in zip(pa, pb):
        if x != y:
            key = x.split("=")[0]
            xs = x.split(","); ys = y.split(",")
            for p, q in zip(xs, ys):
                if p != q:
                    fp, fq = p.split("/"), q.split("/")
                    if len(fp) == len(fq) == 4 and fp[0] == fq[0] and fp[1] == fq[1] and fp[3] == fq[3]:
                        try:
                            tv = bytes.fromhex(fp[2] if fp[2] != "-" else "").decode("utf8")
                            tf = bytes.fromhex(fq[2] if fq[2] != "-" else "").decode("utf8")
                            if "\r" in tv and tv.replace("\r\n", "\n").replace("\r", "\n") == tf:
                                return ("carriage-return-normalised", f"workbook: {p} file: {q}")
                        except Exception:
                            pass
                    return ("view-differs-" + key, f"workbook: {p} file: {q}")
            return ("view-differs-" + key, f"lengths {len(xs)} vs {len(ys)}")
    return ("view-differs", "")

PROP = {
    "thm": "Umya.Thm.C02",
    "harness": "c02",
    "level": "translation_validation",
    "stateful": True,
    "disagreement_is_oracle": True,
    "classify_disagreement": _classify,
    "level_text": "Translation validation by an independent reader executed in Lean, plus theorems for the unbounded pieces. Every part of every package the "
                  "library writes (generated workbooks with cells of all kinds, hyperlinks, merges, defined names, comments, validations, conditional formats, "
                  "protection, hidden sheets, special-character names; re-saved corpus files; standard and light compression) is lexed by an XML 1.0 reader and decoded "
                  "by an OPC/SpreadsheetML reader written from the standards (Umya.Spec.Xml / Umya.Spec.Sml): well-formedness, content types, relationship resolution, "
                  "unique ids/names, schema child order, ascending rows/cells, index bounds; the decoded view must equal the in-memory workbook. Theorems (all inputs): "
                  "the writer's escaping is read back exactly by the independent XML reader (C02_text_channel, C02_attr_channel, sharp by *_fails), the cells handed "
                  "to the sheet writer are exactly the existing cells in strictly ascending order for every reachable sheet (C02_sheetdata_ascending, from C10), and "
                  "hyperlink relationship ids pair every cell with its own target for any number of links (C02_hyperlink_pairing; C02_unordered_pairing_fails documents the repaired defect).",
    "level_note": "The package-level claim is validated per written file, not proved for all workbooks: no Lean model of the whole writer exists. Trusted: the Lean reader "
                  "(spec, ~600 lines), the zip crate, the harness view function. Parts the reader does not interpret (theme, drawings, charts, VML, styles body) are checked "
                  "for XML well-formedness, content type and relationships only.",
    "expect_theorems": ["C02_text_channel", "C02_attr_channel", "C02_escaped_is_inert", "C02_sheetdata_ascending", "C02_hyperlink_pairing"],
    "rule": "case = one workbook (generated from a per-case seed, or a corpus file re-saved) written with the standard or the light writer; every part is one request; "
            "the final request compares violations (must be none) and the decoded view. non-trivial = every part / decode request; distinct = distinct request line",
    "trusted_base": TB_COMMON + ["independent reader Umya/Spec/XmlLex.lean + Umya/Spec/Sml.lean (executed, not verified against the standards' text)", "zip crate"],
    "assumptions": [],
    "partial_clauses": ["whole-package well-formedness and decode equality are validated per file, not proved for all workbooks",
                        "drawings, charts, tables, pivot tables, VML bodies, theme, docProps: XML well-formedness / content type / relationships only",
                        "macro payload (vbaProject.bin) only via the corpus .xlsm files"],
    "technique": "independent XML/OPC/SpreadsheetML reader executed in Lean on every written package (translation validation) + Lean theorems on the escaping channel, sheetData order and rId pairing",
}
