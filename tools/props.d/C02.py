import re

def _classify(op, a, b):
    """op = the request line, a = the implementation's claim, b = the independent reader's verdict"""
    if op.startswith("c02 part"):
        if b.startswith("ok render="):
            return ("part-is-not-a-rendering-of-the-writer-model", b[:300])
        return ("part-not-wellformed-xml", b)
    if op.startswith("c02 bridge"):
        return ("cell-bridge-differs", b[:400])
    if op.startswith("c02 sheetbridge"):
        return ("sheet-bridge-differs", b[:600])
    if op.startswith("c02 pkgbridge"):
        return ("package-bridge-differs", b[:600])
    m = re.match(r"errs=(\d+);(.*?);view=(.*)$", b, re.S)
    if not m:
        return ("independent-reader-differs", b[:300])
    if m.group(1) != "0":
        return ("package-violation", m.group(2))
    va = a.split(";view=", 1)[1] if ";view=" in a else ""
    vb = m.group(3)
    # first differing field
    pa = va.replace(" # ", ";").split(";")
    pb = vb.replace(" # ", ";").split(";")
    for x, y in zip(pa, pb):
        if x != y:
            key = x.split("=")[0]
            xs = x.split(","); ys = y.split(",")
            for p, q in zip(xs, ys):
                if p != q:
                    fp, fq = p.split("/"), q.split("/")
                    if len(fp) == len(fq) == 4 and fp[0] == fq[0] and fp[1] == fq[1] and fp[3] == fq[3]:
                        try:
                            tv = bytes.fromhex(fp[2] if fp[2] != "-" else "").decode("utf8")
                            tf = bytes.fromhex(fq[2] if fq[2] != "-" else "").decode("utf8")
                            if "\r" in tv and tv.replace("\r\n", "\n").replace("\r", "\n") == tf:
                                return ("carriage-return-normalised", f"workbook: {p} file: {q}")
                        except Exception:
                            pass
                    return ("view-differs-" + key, f"workbook: {p} file: {q}")
            return ("view-differs-" + key, f"lengths {len(xs)} vs {len(ys)}")
    return ("view-differs", "")

PROP = {
    "thm": ["Umya.Thm.C02", "Umya.Thm.C02Bytes", "Umya.Thm.C02Sheet", "Umya.Thm.C02Book", "Umya.Thm.C02Gen", "Umya.Thm.C02SheetBytes", "Umya.Thm.C02Pkg", "Umya.Thm.C02PkgCmt", "Umya.Thm.C02PkgTbl", "Umya.Thm.C02PkgTblPkg"],
    "harness": "c02",
    "level": "proof",
    "stateful": True,
    "disagreement_is_oracle": True,
    "classify_disagreement": _classify,
    "level_text": "Proof for the modelled package: for a workbook of n sheets, plain or with COMMENTS (any n, any mixture; cells of the modelled fragment, rows, merged ranges, hyperlinks, defined names, hidden sheets, comments with their VML / comments parts) the chain writer models -> characters -> element trees -> package -> independent decoder is theorems end to end: C02_bytes_parse / C02_sheet_bytes_decode (the XML 1.0 reader returns the tree that was written), C02_sheet_decodes (no diagnostics = ascending, in range, indexes inside tables, child order, r:id resolves), C02_content_types_cover, C02_package_rels_resolve, C02_rel_ids_unique, C02_sheet_ids_unique, C02_package_no_diagnostics and C02_book_decodes (decode pkg = the sheet list, sheet bodies, defined names and active tab of the workbook, no diagnostics). The models are tied to the code on every run (bytes re-rendered and compared, cell / sheet / package bridges). What the models do not cover (opaque bodies, drawings, charts, tables, printer settings, raw parts: listed in level_note and partial_clauses) stays translation validation by the same independent reader executed in Lean on every part of every written package. "
                  "Every part of every package the "
                  "library writes (generated workbooks with cells of all kinds, hyperlinks, merges, defined names, comments, validations, conditional formats, "
                  "protection, hidden sheets, special-character names; re-saved corpus files; standard and light compression) is lexed by an XML 1.0 reader and decoded "
                  "by an OPC/SpreadsheetML reader written from the standards (Umya.Spec.Xml / Umya.Spec.Sml): well-formedness, content types, relationship resolution, "
                  "unique ids/names, schema child order, ascending rows/cells, index bounds; the decoded view must equal the in-memory workbook. Theorems (all inputs): "
                  "the writer's escaping is read back exactly by the independent XML reader for both text writers and for attributes (C02_text_channel, "
                  "C02_text_channel_conversion, C02_attr_channel, sharp by *_fails), the cells handed "
                  "to the sheet writer are exactly the existing cells in strictly ascending order for every reachable sheet (C02_sheetdata_ascending, from C10), "
                  "hyperlink relationship ids pair every cell with its own target for any number of links (C02_hyperlink_pairing; C02_unordered_pairing_fails documents the repaired defect). "
                  "CELL CLAUSE (proved for the writer model of Umya/Model/CellXml.lean, the model C01 ties to the code): every <c> that Cell::write_to produces, on every branch "
                  "(<c r s/>, t=s through the shared table, t=str, t=b, t=e, numbers, <v/>, with and without <f>), rendered as the element tree an XML 1.0 reader delivers "
                  "(Umya/Model/CellNode.lean), is decoded by the independent decodeCell to exactly the cell's reference, kind, value text, formula text and style index, with no "
                  "violation, against the shared strings the independent reader takes from the part written for ANY later table state (C02_cell_decodes, C02_table_only_grows, "
                  "C02_si_decodes, C02_sst_decodes); lifted to a sheet and to the whole package for any number of sheets and cells against the FINAL shared-string part "
                  "(C02_sheet_cells_decode, C02_book_cells_decode, C02_book_cell_decodes; the writer is total for columns >= 1: C02_cell_written, C02_book_written); the decoded "
                  "reference is the cell's own column and row under the decoder's A1 reading (C02_cell_position); text content is rendered as the lexer delivers it (C02_chardata_lexed). "
                  "No hypothesis on characters, numbers, sizes or table state. Kinds follow the table text/rich->s, number->n, bool->b, error->e, blank->'' except for a formula "
                  "without cached value (reads as an empty string result; equal under the view's normalisation: C02_cell_kind_normalised, which holds for EVERY cell); "
                  "kind and value text are those of the value written (an unresolved lazy value is written as the typed value it stands for since C01's fix 6: C02_cell_lazy_decodes): "
                  "C02_cell_decodes_plain_partial / C02_cell_kind_partial (hypothesis plainKind) with witness C02_cell_uncached_formula_fails. "
                  "Tie of the cell clause to the code on every run (request `c02 bridge`): (a) every <c> parsed by the independent XML reader from the real sheet parts is tree-equal to "
                  "cellNode of the fact a non-unescaping scanner read from the same bytes; (b) the shared strings read from the real part equal those of the rendered <si> facts; "
                  "(c) for generated workbooks the writer model run on the in-memory cells yields exactly these cell facts and <si> texts; (d) decodeCell on the real trees equals fileView of the model cells. "
                  "SHEET CLAUSE (new; tree level, Umya/Model/SheetNode.lean = model of writer/xlsx/worksheet.rs + worksheet_rels.rs): for every well-formed sheet (SheetW.WF: row table strictly "
                  "ascending in 1..1048576, cells strictly ascending by (row, column) with columns in 1..16384, every cell's row in the row table - what C10's Coherent gives, C02_sheet_of_coherent) "
                  "with any number of rows, cells, merged ranges and hyperlinks, the independent decodeSheet applied to a package holding the rendered <worksheet> tree (the <row> wrappers of the "
                  "peek-and-consume row loop, <mergeCells>, <hyperlinks> with the r:id counter, the children in the order written) and the rendered relationships tree (its own counter over the "
                  "same link list) returns exactly the views of the non-blank cells in order, the merged ranges, every hyperlink on its own cell with its own target (through the relationships "
                  "part for external links, location for internal ones) and tooltip, the row table, and an EMPTY list of diagnostics - rows/cells ascending and in range, style and shared-string "
                  "indexes inside their tables, CT_Worksheet child order, every r:id resolving (C02_sheet_decodes, C02_sheet_decodes_sst, C02_merges_decode, C02_hyperlinks_decode, "
                  "C02_hyperlink_walk_decodes, C02_sheet_rels_decode, total writer C02_sheet_written; C02_unordered_rels_fails documents the repaired pairing defect on the decoder's own functions). "
                  "Children of <worksheet> the model does not render and relationships after the hyperlink ones are opaque parameters under explicit Boolean hypotheses (Frame.ok, colsOk, dxfOk, ridsOk). "
                  "FROM CHARACTERS: every <c> / <si> / <worksheet> / sheet <Relationships> tree the models render is in the XML reader's normal form (C02_cell_node_normal_form, C02_si_node_normal_form, "
                  "C02_sheet_normal_form), so the isNF hypotheses of the byte-level corollaries are gone (C02_cell_bytes_decode_default, C02_si_bytes_decode_default), and C02_sheet_bytes_decode composes "
                  "characters -> tree -> decoded sheet: in a package whose sheet part is what the independent XML reader returns on the CHARACTERS renderDoc (ofNode sc root) of the rendered worksheet (likewise the "
                  "relationships part), decodeSheet returns the sheet's cells / merges / hyperlinks / rows and NO diagnostic. The sheet's cell writer IS C01's: C02_rows_are_cells / C02_cells_are_rows "
                  "(writeRows over the row loop = writeCells on the sheet's cells, same final table, same <c> facts). "
                  "PACKAGE CLAUSE (Umya/Model/PackageNode.lean = model of make_buffer for a workbook of n plain sheets: the part list with names, content types (Default rels/xml + Overrides by part-name prefix), "
                  "_rels/.rels, xl/_rels/workbook.xml.rels (worksheets, styles, theme, shared strings when written), sheet relationship parts when a sheet has an external hyperlink, the shared-string part when the "
                  "table is not empty; opaque bodies for docProps / theme / styles): for every number of sheets, C02_content_types_cover (every part has a content type under the decoder's look-up; "
                  "C02_content_types_sheets says which), C02_package_rels_resolve (every internal relationship target of every .rels part resolves, by the decoder's resolveTarget on the concrete names, to a part "
                  "of the package), C02_rel_ids_unique, C02_sheet_ids_unique, C02_active_tab_in_range, and from them C02_package_no_diagnostics: (decode pkg).2 = [] for every well-formed workbook "
                  "(BookP.WF, decidable), and C02_book_decodes: decode pkg = (some book, []) where book has the sheet list in order (name, visibility, and per sheet exactly its cells, merged ranges, hyperlinks, "
                  "rows), the defined names and the active tab; the writer model is total (C02_package_written). No path hypothesis is left: the OPC path rules of the independent reader "
                  "(Spec/Sml.lean: segsOf / resolveTargetL / relsNameOfL / relsSourceL on the characters of a name) are evaluated for symbolic sheet numbers (Lemmas/PackagePath.lean). "
                  "SHEETS WITH COMMENTS (Umya/Model/PackageNodeCmt.lean = the same model extended by what make_buffer adds for a sheet with comments; theorems of Thm/C02PkgCmt.lean, for any number of sheets with and "
                  "without comments in any mixture): the VML part xl/drawings/vmlDrawing{v}.vml and the comments part xl/comments{c}.xml (trees of C06's writeVml / writeComments) numbered per family by "
                  "WriterManager's smallest-free-index loop, modelled on fuel and proved to return the smallest unregistered index for EVERY set of registered numbers (C02_cmt_free_index_smallest) and, run over the "
                  "sheets in order, to give sheet i the pair (m+1, m+1), m = the number of earlier sheets with comments, nothing to a sheet without (C02_cmt_numbers_own_pair); the sheet relationships part = hyperlink "
                  "relationships first, then rId{r} vmlDrawing and rId{r+1} comments, r = the counter after the hyperlink loop (C02_cmt_hyperlinks_unchanged, C02_cmt_sheet_rels_own_parts: the targets resolve from "
                  "the sheet part to THIS sheet's VML / comments parts, which hold this sheet's trees); the <legacyDrawing r:id> child carries the id under which the decoder finds the vmlDrawing relationship - no hyperlink "
                  "relationship has it: the counters of worksheet.rs and worksheet_rels.rs agree (C02_cmt_legacy_drawing_resolves); [Content_Types].xml has the vml Default and one comments Override per comments part "
                  "(C02_cmt_content_types_cover, C02_cmt_content_types_parts); C02_cmt_package_rels_resolve, C02_cmt_rel_ids_unique, and C02_cmt_package_no_diagnostics / C02_cmt_book_decodes: decode pkg = (some book, []) "
                  "with the sheet list, bodies (hyperlinks each on its own cell with its own target), names and active tab, under BookC.WF (as BookP.WF; the r:id of legacyDrawing is proved, not assumed); total writer "
                  "C02_cmt_package_written; without any comment the package is the plain model's (C02_cmt_plain_same). Comments are not part of the decoder's BookV: the theorems say their parts disturb nothing; that "
                  "the comments come back on the same cells is C06. "
                  "SHEETS WITH TABLES (Umya/Model/PackageNodeTbl.lean; Thm/C02PkgTbl.lean) - PARTIAL, relationship level only: the model has the table part names / numbers (one counter over the sheets), the "
                  "table content type and Overrides, the sheet's relationships (hyperlinks, vmlDrawing, one table relationship per table, comments - shifted by the number of tables), the <tableParts> child and the "
                  "package skeleton (skeletonT, tied on every run by `c02 pkgbridge`). Proved, for ANY package whose sheetK.xml.rels is the part the model writes (any links, any number of tables, with and without comments): what "
                  "the decoder's relsOf reads (C02_tbl_sheet_rels_read), the comments id shift (C02_tbl_comments_rel_shifted), ids pairwise different (C02_tbl_rel_ids_unique), the j-th tablePart r:id finds the j-th table "
                  "relationship and only it, whose target resolves from the sheet part to xl/tables/table{n}.xml (C02_tbl_table_parts_resolve); numbers 1..sum without repetition and distinct part names "
                  "(C02_tbl_numbers_distinct, C02_tbl_part_names_distinct); without tables the pieces are those of the comments model (C02_tbl_plain_same_partial). "
                  "WHOLE PACKAGE with tables (writePackageT / assembleT on top of the comments model: a sheet = SheetC + the opaque trees of its table parts, <tableParts> at the head of the children after legacyDrawing; "
                  "Thm/C02PkgTblPkg.lean), for any number of sheets with and without comments / tables: every non-external relationship of every .rels part resolves to a part that IS in the package, the table "
                  "relationships to xl/tables/table{n}.xml included (C02_tbl_package_rels_resolve); every part has a content type under the decoder's look-up (C02_tbl_content_types_cover: isSome, as for comments; WHICH "
                  "type the table parts get - the table Override - is tied by pkgbridge, not proved); without tables writePackageT = writePackageC on the same sheets (C02_tbl_plain_same). NOT proved for tables: "
                  "decode pkg = (some book, []) with the tables per sheet (C02_tbl_book_decodes), relationship-id uniqueness stated on the whole package (proved per sheet relationships part: C02_tbl_rel_ids_unique); the table "
                  "part TREE (table.rs) is not modelled (opaque trees). "
                  "C02_book_decodes_partial (any package holding the rendered workbook parts, path resolution as hypothesis) stays as the more general, weaker statement; C02_sheet_names_case_fails is the witness of the defect repaired by fix 95713cc. "
                  "Tie to the code on every run: request `c02 sheetbridge` (trees of sheetN.xml / rels / workbook.xml / workbook.xml.rels / worksheet Overrides against the models, hypotheses of C02_sheet_decodes evaluated "
                  "on the real frame and its conclusion checked on the real package) and request `c02 pkgbridge` (generated workbooks incl. a dedicated generator with 1..6 sheets, with / without any string, "
                  "hidden sheets, removed and re-added sheets, defined names, sheets with no / only internal / external hyperlinks, comments on no sheet / a random subset / every sheet but the first / every sheet, "
                  "also on a sheet removed afterwards): the SKELETON of the model package - part names incl. the VML / comments parts with their numbers, content type per part, the "
                  "Default and Override elements as sets, the (Id, Type, Target, external) triples of every .rels part as sets, the r:id of every <legacyDrawing> - is compared with the real package's; in a workbook "
                  "whose only part-adding feature is comments (counted workbook.plain / workbook.with-comments) the two part lists must be EQUAL, otherwise the model skeleton (without comments) must be contained in "
                  "the real one (workbook.outside-model). Quick run: 290 workbooks = 76 plain + 214 with comments + 0 outside the model.",
    "level_note": "Proved for all inputs of the MODELLED fragment: a workbook of n sheets each plain or with comments (any n, any mixture, any cells of the CellX fragment, merged ranges, hyperlinks, row table, defined names, "
                  "hidden sheets, any comments whose coordinates print), from the writer models down to `decode pkg = (some book, [])`, with the characters -> tree step proved for the tag-level writer model. Opaque, i.e. carried as arbitrary trees / "
                  "frames under explicit decidable hypotheses evaluated per file: the bodies of docProps/app.xml, docProps/core.xml, xl/theme/theme1.xml, xl/styles.xml (only the cellXfs / dxfs counts are read), "
                  "the children of <worksheet> other than sheetData / mergeCells / phoneticPr / hyperlinks / legacyDrawing (Frame.ok / colsOk / dxfOk / ridsOk / nf; in the comments model legacyDrawing is rendered and its r:id proved "
                  "to resolve, Frame.ok is asked of the written frame, ridsOk only of the remaining opaque children, which may name hyperlink relationships only), the children of <workbook> other than sheets / definedNames "
                  "(WbFrame.ok; bookViews with activeTab is one of them). Outside the package model (validated per file by the executed reader only): custom document properties, macros (vbaProject.bin, macro "
                  "content type), ribbon, pivot caches, raw (lazily loaded, not deserialized) sheets and every part a loaded workbook carries verbatim, and sheets with drawings, charts, images, OLE "
                  "objects (their VML shapes too) or printer settings (each adds parts, Default extensions, Overrides and sheet relationships after the hyperlink ones); tables are inside the skeleton / "
                  "relationship model only (see above). In the comments model the trees of the VML / comments parts are C06's writer models (tied by C06's `cmt` requests); C02 uses only that they are "
                  "trees, their names, content types, relationships and numbers. The model lists the VML / comments parts after the sheet parts; the code interleaves them with the sheet relationship parts (order of zip "
                  "entries: below the comparison). The package theorems are about element TREES in the parts "
                  "(Part.xml); the step characters -> tree is C02_bytes_parse / C02_sheet_bytes_decode for the tag-level model, and `c02 part ... w` (render=same) per real part. The style table behind the s index, "
                  "and the decoder's xfs view of the styles part, are not characterised. "
                  "Trusted: the Lean reader (spec, ~650 lines; its path rules were restated on List Char in this round - same behaviour, re-validated by every check that executes it: C02, C03, C04, C06, C11), "
                  "the models Umya/Model/CellNode.lean, SheetNode.lean, WorkbookNode.lean, PackageNode.lean, PackageNodeCmt.lean (checked against the real parse / the real skeleton on every run), the zip crate, "
                  "the harness view function and C01's fact scanner.",
    "expect_theorems": ["C02_datatype_matches_source", "C02_channels_match_source", "C02_text_channel", "C02_text_channel_conversion", "C02_attr_channel", "C02_escaped_is_inert", "C02_sheetdata_ascending",
                        "C02_hyperlink_pairing",
                        "C02_table_only_grows", "C02_si_decodes", "C02_sst_decodes", "C02_cell_decodes", "C02_cell_written",
                        "C02_cell_kind_partial", "C02_cell_decodes_plain_partial", "C02_cell_uncached_formula_fails", "C02_cell_lazy_decodes", "C02_cell_kind_normalised",
                        "C02_sheet_cells_decode", "C02_book_cells_decode", "C02_book_cell_decodes", "C02_book_written",
                        "C02_chardata_lexed", "C02_cell_position",
                        "C02_writer_matches_source", "C02_bytes_start_tag", "C02_bytes_end_tag", "C02_bytes_decl", "C02_bytes_parse", "C02_bytes_normal_form",
                        "C02_bytes_parse_tree", "C02_bytes_parse_tree_norm", "C02_cell_bytes_decode", "C02_cell_bytes_decode_default", "C02_si_bytes_decode",
                        "C02_sheet_decodes", "C02_sheet_decodes_sst", "C02_merges_decode", "C02_hyperlinks_decode", "C02_hyperlink_walk_decodes",
                        "C02_sheet_rels_decode", "C02_unordered_rels_fails", "C02_sheet_written", "C02_sheet_of_coherent",
                        "C02_book_decodes_partial", "C02_sheet_names_case_fails",
                        "C02_cell_node_normal_form", "C02_si_node_normal_form", "C02_si_bytes_decode_default",
                        "C02_rows_are_cells", "C02_cells_are_rows", "C02_sheet_normal_form", "C02_sheet_bytes_decode",
                        "C02_content_types_cover", "C02_content_types_sheets", "C02_package_rels_resolve", "C02_rel_ids_unique", "C02_sheet_ids_unique",
                        "C02_active_tab_in_range", "C02_package_no_diagnostics", "C02_book_decodes", "C02_package_written",
                        "C02_cmt_free_index_smallest", "C02_cmt_numbers_own_pair", "C02_cmt_content_types_cover", "C02_cmt_content_types_parts", "C02_cmt_package_rels_resolve",
                        "C02_cmt_sheet_rels_own_parts", "C02_cmt_rel_ids_unique", "C02_cmt_legacy_drawing_resolves", "C02_cmt_hyperlinks_unchanged",
                        "C02_cmt_package_no_diagnostics", "C02_cmt_book_decodes", "C02_cmt_package_written", "C02_cmt_plain_same",
                        "C02_tbl_sheet_rels_read", "C02_tbl_comments_rel_shifted", "C02_tbl_rel_ids_unique", "C02_tbl_table_parts_resolve",
                        "C02_tbl_numbers_distinct", "C02_tbl_part_names_distinct", "C02_tbl_plain_same_partial",
                        "C02_tbl_package_rels_resolve", "C02_tbl_content_types_cover", "C02_tbl_plain_same"],
    "rule": "case = one workbook (generated from a per-case seed, or a corpus file re-saved) written with the standard or the light writer; every part is one request; "
            "the `decode` request compares violations (must be none) and the decoded view; the final `bridge` request carries the cell / <si> facts scanned from the real parts "
            "and (generated workbooks) the in-memory cells, and must answer ok; the `sheetbridge` and `pkgbridge` requests (generated workbooks) carry the in-memory sheets / workbook and must answer ok. non-trivial = every part / decode / bridge request; distinct = distinct request line",
    "trusted_base": TB_COMMON + ["independent reader Umya/Spec/XmlLex.lean + Umya/Spec/Sml.lean (executed, not verified against the standards' text)", "zip crate",
                                  "rendering of written facts as element trees Umya/Model/CellNode.lean (checked against the real parse by `c02 bridge` on every run)",
                                  "the writer model Umya/Model/CellXml.lean is the code's (C01's correspondence stream; re-checked on C02's workbooks by `c02 bridge` (c))",
                                  "harness/src/c01.rs::package_facts (non-unescaping scanner of the real parts)",
                                  "tree-level writer models Umya/Model/SheetNode.lean, Umya/Model/WorkbookNode.lean (checked against the real parse by `c02 sheetbridge` on every run; "
                                  "below the comparison: cellXfs indexes, opaque frame, presence of state=visible)",
                                  "package model Umya/Model/PackageNode.lean and its extension by sheets with comments Umya/Model/PackageNodeCmt.lean (the skeleton - incl. VML / comments part numbers, vml Default, comments Overrides, "
                                  "vmlDrawing / comments relationships, legacyDrawing r:id - is compared with the real package by `c02 pkgbridge` on every run; order of parts in the zip and of Overrides is below the comparison; "
                                  "WriterManager's `files` is modelled as the list of numbers registered per family)"],
    "assumptions": ["C02_bytes_parse: element and attribute names are XML Names, attribute names distinct per element, attribute values and texts consist of XML 1.0 Chars "
                    "(decidable WF; evaluated by the driver on every claimed part)"],
    "partial_clauses": ["package: proved (decode pkg = (some book, []), all diagnostics empty) for the MODELLED package skeleton = workbooks of n sheets each plain or with comments (VML part, comments part, their "
                        "relationships, legacyDrawing, vml Default, comments Override); workbooks with custom properties, macros, ribbon, pivot "
                        "caches, raw sheets, or sheets with drawings / charts / images / OLE objects / printer settings / tables are outside the package model and are validated per file "
                        "(independent reader executed on every part; pkgbridge checks that the model skeleton is contained in theirs); TABLES are in the model at skeleton / relationship level only (PackageNodeTbl.lean, tied by pkgbridge: parts, content types, Overrides, relationships, "
                        "tableParts r:ids, numbering across sheets) plus the whole-package model writePackageT with OPAQUE table trees; proved on the whole package: C02_tbl_package_rels_resolve, C02_tbl_content_types_cover (isSome only; "
                        "that a table part gets the table type is tied, not proved), C02_tbl_plain_same; per sheet relationships part: C02_tbl_sheet_rels_read, C02_tbl_rel_ids_unique, C02_tbl_table_parts_resolve; NOT proved: "
                        "C02_tbl_book_decodes (decode pkg = (some book, []) with the tables returned per sheet; the sheet theorem's Frame.ok still excludes tableParts at schema position 37) and whole-package id uniqueness / "
                        "no-diagnostics for workbooks with tables; the table part tree (table.rs: id, name, displayName, ref, "
                        "columns) is not modelled, and uniqueness of table names / displayNames across the book is neither proved nor refuted (the writer takes the names from the Table objects unchecked; ids = part numbers are distinct)",
                        "comments: the package theorems say the comments / VML parts are present, typed, numbered, related and harmless to the decoded workbook; the independent decoder does not read comments "
                        "(BookV has none), so 'the comments are the workbook's' is C06's statement, not C02's; the bodies of both parts enter the byte-level claim only through `c02 part ... w` per file (VML parts are not claimed there)",
                        "opaque bodies: docProps/app.xml, docProps/core.xml, theme, styles are arbitrary trees in the package theorems (name, content type, relationship only; of styles the cellXfs / dxfs counts); "
                        "their XML well-formedness is validated per file, and per part by `c02 part ... w` (render=same)",
                        "cells: shared / array formulas, inline strings (<is>), cm/vm/ph attributes are outside the modelled fragment (counted as outside-fragment by the bridge; validated per file by decode)",
                        "sheet: the children of <worksheet> other than sheetData, mergeCells, phoneticPr, hyperlinks and (comments model) legacyDrawing (sheetPr, dimension, sheetViews, sheetFormatPr, cols, sheetProtection, autoFilter, "
                        "conditionalFormatting, dataValidations, printOptions ... extLst) are opaque under Frame.ok / colsOk / dxfOk / ridsOk / nf (evaluated per file); sheets with tableParts, shared/array formulas or "
                        "cells outside the CellX fragment are outside the theorem (validated per file); row attributes thickBot, customHeight, x14ac:dyDescent and the style table behind the s index are not modelled",
                        "workbook: bookViews (activeTab) is inside the opaque WbFrame: C02_active_tab_in_range needs the stored index to be inside the sheet list - remove_sheet clamps it (fix 649e69a), "
                        "set_active_sheet accepts any index and the writer writes what is stored, so this is a hypothesis of BookP.WF, not a theorem about the API",
                        "character legality: wfNodes (every attribute value and text consists of XML 1.0 Chars, names are Names) is a hypothesis of the byte-level theorems, evaluated per part; the writer does not "
                        "enforce it (control characters in cell text are written raw: listed defect)",
                        "sheet titles: Worksheet::set_name does not check for duplicates (known finding C02-set-name-duplicate-title); new_sheet compares case-insensitively since the fix; namesDistinct is a hypothesis of BookP.WF",
                        "tag-level serialisation (characters -> element tree) is PROVED for the model Umya/Model/XmlWrite.lean of writer/driver.rs + quick-xml's Writer (C02_bytes_parse, any tree); "
                        "that the real parts are renderings of that model is checked per written part (`c02 part … w` -> render=same, character for character) and, for the structure of the six helper "
                        "functions, by the translator (C02_writer_matches_source); quick-xml's write_event / push_attribute themselves are modelled from their source, not translated; "
                        "VML parts and parts a loaded workbook carries verbatim are not claimed (counted as render.skipped.*)",
                        "the package theorems hold trees in the parts; composing them with C02_bytes_parse for EVERY part of the package (docProps, theme, styles bodies are opaque) is done for the sheet part and its "
                        "relationships part (C02_sheet_bytes_decode), not restated for the whole package",
                        "zip container: order of entries, compression, central directory are outside (zip crate trusted); macro payload (vbaProject.bin) only via the corpus .xlsm files"],
    "technique": "independent XML/OPC/SpreadsheetML reader executed in Lean on every written package (translation validation) + Lean theorems on the escaping channels, sheetData order, rId pairing "
                 "and the cell clause (writer model -> rendered element tree -> independent decoder = model cell, for all cells and table states), the latter tied to the real parts by tree equality on every run",
}
