PROP = {
    "thm": ["Umya.Thm.C04", "Umya.Thm.C04Bytes"],
    "harness": "c04",
    "level": "proof",
    "stateful": True,
    "level_text": "Proof for the projection the model covers, exploration for the rest. Theorems: the attribute channel is the identity over any number of "
                  "generations (C04_attr_channel; C04_attr_drift_fails documents the repaired drift); for cells of every kind the first re-save shows the original's "
                  "non-blank cells and the second generation is a fixed point (C04_fixpoint_cells, from C01_roundtrip + idempotence of the normalisation); saving "
                  "twice gives the same content (C04_save_pure, from C12); a single-cell edit leaves every other cell as it was (C04_edit_local). Tie and the non-modelled "
                  "part: corpus files and generated annotated workbooks are taken through three load/save generations with the FULL public-getter view compared "
                  "(gen1 == gen2 == gen3, orig == gen1 on the semantic projection, part lists of two saves equal, single-cell edit locality), and every sheet name / "
                  "hyperlink target is followed stored text -> raw attribute text in the file -> reloaded text against the model's attrWrite / attrRead.",
    "level_note": "Trusted: Lean kernel + 3 standard axioms; C01's and C12's models as tied by their own correspondence checks; the harness views. "
                  "Styles, annotations, drawings, print settings are compared between generations by the harness only (exploration).",
    "expect_theorems": ["C04_bytes_resave_stable", "C04_channels_match_source", "C04_attr_channel", "C04_fixpoint_cells", "C04_save_pure", "C04_edit_local"],
    "rule": "case = a generated annotated workbook (per-case seed) or a corpus file; three load/save generations, a second save of generation 1, one single-cell edit; "
            "attr requests = one per sheet name and external hyperlink target. non-trivial = attr requests and case headers; distinct = distinct request line",
    "trusted_base": TB_COMMON + ["models of C01 / C12 / XmlEsc (each tied by its own check)", "harness full_view over the public getters"],
    "assumptions": ["fewer than 2^64 distinct strings; cells satisfy C01's cellOK (no unresolved lazy values, no rich text under a formula, no rich text without runs)"],
    "partial_clauses": ["generation stability of styles, annotations, column/row dimensions, drawings, charts: harness oracle only (gen1 == gen2 == gen3 on the full view)",
                        "orig ~ gen1 is checked on the C02 view (cells, formulas, merges, hyperlinks, names, sheet list), not on everything"],
    "technique": "Lean 4 corollaries of the round-trip theorems (second generation = fixed point) + generation-chain differential check on corpus and generated files",
}
