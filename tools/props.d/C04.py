PROP = {
    "thm": ["Umya.Thm.C04", "Umya.Thm.C04Bytes", "Umya.Thm.C04Fix", "Umya.Thm.C04Edit"],
    "harness": "c04",
    "level": "proof",
    "stateful": True,
    "level_text": "Proof on the projection the models cover (BookP of Umya/Thm/C04Fix.lean), exploration for the rest. The argument is stated once "
                  "(Lemmas/Resave.lean: a codec (rs, norm, WF) with rs x = some (norm x) on WF, norm idempotent, WF closed under norm => generation 1 = norm x, "
                  "generation 2 = generation 1, every later generation too, and every observation blind to norm is unchanged: C04_fixpoint_generic, C04_generations) "
                  "and instantiated with every concrete codec model of C01 / C05 / C06, citing their round-trip theorems and adding the closure of their hypotheses "
                  "under norm (Lemmas/Resave{Style,Annot,Cells,Cf}.lean): cells of every value kind and the whole cell store incl. the shared-string table "
                  "(C04_fixpoint_cell, C04_fixpoint_cell_store: the second save writes the very same <c>/<si> facts; C01's side conditions are needed for the original only), "
                  "string items, colour, font, fill, borders, alignment, protection, numFmt, row, column, the style tables (C04_fixpoint_style_tables), tab colour, pane, "
                  "selection, sheet view(s), page setup, margins, print options, header/footer, sheet / workbook protection, active tab, defined-name attributes, data "
                  "validations, conditional formatting WITH its dxf table (the table does not grow on the second save), sheet list, merges, comments, hyperlinks, defined names. "
                  "C04_workbook_fixpoint: for a projection with any numbers of sheets / cells / style components / annotations, resave b = some g1 => g1 = normBook b (explicit), "
                  "resave g1 = some g1, the hypotheses hold for g1 again, and the getter-level view of g1 is that of b. C04_edit_local_book: an edit of one cell that keeps it written "
                  "and sets a definite value (it commutes with resolving a lazy value) commutes with save+load, everything else unchanged. "
                  "Umya/Thm/C04Edit.lean, edits that change WHICH cells exist: C04_edit_local_book_create (a written cell put at a coordinate the sheet has no cell at, anywhere in the collection, "
                  "with get_cell_mut's row record: normBook (create b) = create' (normBook b), so resave commutes; other sheets untouched; the sheet reads one cell more, the new coordinate reads the "
                  "resolved new cell, every other coordinate reads what it read (lookup by coordinate); every old row record stays at its place, at most one default record is added, and the same for the column records (ensureRow / ensureCol = what get_cell_mut does); everything else equal), "
                  "C04_edit_create_strings (the table a save writes = the items the cells register, in writing order, interned one after the other (writeBook_sst); with the new cell written between the items pre and post: "
                  "both tables start with the table of pre (those indices do not move; later ones can move up by one), the new table holds exactly the old items plus the new cell's item, both tables without "
                  "duplicates (so it grows by at most that string), and reading the written file back through the NEW table gives normalize of the edited cells: every cell resolves to its own value), "
                  "C04_edit_local_book_delete (remove_cell: the coordinate reads nothing, every other reads as before, all records and styles equal), C04_edit_local_book_blank (an edit leaving the cell blank and "
                  "unstyled = remove_cell after save+load), C04_edit_new_style_local (on C05's set_style model: replacing one cell's style by ANY style, new ones included, every other cell reads through its "
                  "(possibly renumbered) xf index the effective formatting of its own style, with and without the edit). C04_save_pure_book: one save+load does not depend on the save environment (authors hash-set order, first "
                  "relationship id, writer flavour). The older corollaries stay (attribute channel over n generations, C04_bytes_resave_stable at character level). "
                  "Tie and the non-modelled part: corpus files and generated annotated workbooks are taken through three load/save generations with the FULL public-getter view compared "
                  "(gen1 == gen2 == gen3, orig == gen1, part lists of two saves equal, single-cell edit locality); for generated workbooks (with values whose normal form is not the "
                  "identity put on them through the setters) the model-level value of the original incl. has-value states is sent per family to the driver, which applies the "
                  "model's norm, and the result is compared with the implementation's generation 1 — and the same from generation 1 to generation 2 — (c04 norm: hf, margins, views incl. pane "
                  "and selections, tab colour, cells kept, font flags and colour, row, col); independently of the model the harness requires spec(gen1) == spec(gen2) with has-value states "
                  "(generation-2-not-a-fixed-point) and getters(orig) == getters(gen1) on hf / margins / views (first-generation-getters-differ); sheet names / hyperlink targets are followed stored text -> raw attribute -> reloaded text against attrWrite / attrRead.",
    "level_note": "Trusted: Lean kernel + 3 standard axioms; the models of C01 / C05 / C06 / C12 as tied by their own correspondence checks and by the c04 norm requests; the harness "
                  "views (has-value states are read from the Debug rendering of the structs). Theorems are about the models: the step bytes -> element tree is C02/C03's. "
                  "Families without a model are compared between generations by the harness only (exploration).",
    "expect_theorems": ["C04_bytes_resave_stable", "C04_channels_match_source", "C04_attr_channel", "C04_fixpoint_cells", "C04_save_pure", "C04_edit_local",
                        "C04_fixpoint_generic", "C04_generations",
                        "C04_fixpoint_color", "C04_fixpoint_font", "C04_fixpoint_fill", "C04_fixpoint_borders", "C04_fixpoint_alignment", "C04_fixpoint_protection",
                        "C04_fixpoint_numfmt", "C04_fixpoint_row", "C04_fixpoint_column", "C04_fixpoint_style_tables",
                        "C04_fixpoint_tab_color", "C04_fixpoint_pane", "C04_fixpoint_selection", "C04_fixpoint_sheet_view", "C04_fixpoint_sheet_views",
                        "C04_fixpoint_page_setup", "C04_fixpoint_page_margins", "C04_fixpoint_print_options", "C04_fixpoint_header_footer",
                        "C04_fixpoint_sheet_protection", "C04_fixpoint_workbook_protection", "C04_fixpoint_active_tab", "C04_fixpoint_defined_name_attrs",
                        "C04_fixpoint_data_validations", "C04_fixpoint_conditional_formatting",
                        "C04_fixpoint_sheet_list", "C04_fixpoint_merges", "C04_fixpoint_comments", "C04_fixpoint_hyperlinks", "C04_fixpoint_defined_names",
                        "C04_fixpoint_string_item", "C04_fixpoint_cell", "C04_fixpoint_cell_store",
                        "C04_workbook_fixpoint", "C04_workbook_resave_defined", "C04_workbook_generations",
                        "C04_save_pure_book", "C04_save_pure_cells", "C04_edit_local_book", "C04_edit_string_indices",
                        "C04_edit_local_book_create", "C04_edit_local_book_delete", "C04_edit_local_book_blank", "C04_edit_new_style_local", "C04_edit_create_strings"],
    "rule": "case = a generated annotated workbook (per-case seed; values with a non-identity normal form added through the setters: twist.* counters) or a corpus file; "
            "three load/save generations, a second save of generation 1, one single-cell edit; attr requests = one per sheet name and external hyperlink target; "
            "norm requests (generated workbooks; once original -> generation 1, once generation 1 -> generation 2) = per sheet one each for hf / margins / views / tab / cells, up to 8 fonts, up to 12 rows and 12 columns. "
            "non-trivial = attr and norm requests and case headers; distinct = distinct request line",
    "trusted_base": TB_COMMON + ["models of C01 / C05 / C06 / C12 / XmlEsc (each tied by its own check)", "harness full_view over the public getters; has-value states from the Debug rendering"],
    "assumptions": ["fewer than 2^64 distinct strings / dxf entries; cells satisfy C01's cellOK (no rich text without runs)",
                    "style values are ones a Rust struct can hold (Range: numbers in their types, float fields hold float texts cf t = t, cf \"0\" = \"0\"); for the getter-level view of fonts / fills / "
                    "borders: colours in one of the setters' forms (OneForm / Fill.WF / Borders.WF; Borders.WF is also needed for idempotence of the borders normal form)",
                    "annotation values satisfy the WF / RangesOK / BlockWF / AreaOK predicates of the C06 theorems (coordinates up to ZZZ / u32 rows, printable range shapes, u32 counters)",
                    "the tab colour is viewed in its written form (an EMPTY colour object does not survive a save: known finding of C06, kept out of the generated cases here)"],
    "partial_clauses": ["covered by theorem (on the models) AND by the c04 norm tie: cells kept / dropped (blank cells carrying a style object are left out of the tie: whether they survive depends on the xf index the style resolves to), "
                        "header/footer, page margins, sheet views with pane and selections, tab colour, font flags and colour, row and column attributes",
                        "covered by theorem (on the models), tied by C01 / C05 / C06's own checks and here by the generation oracle only: cell values per kind, shared strings, fills, borders, alignment, protection, "
                        "numFmt, row / column style indices, style tables, page setup, print options, sheet / workbook protection, active tab, defined names and their attributes, data validations, conditional "
                        "formatting + dxf table, sheet list, merges, comments (authors), hyperlinks",
                        "harness oracle only (gen1 == gen2 == gen3 on the full getter view, no model): drawings, charts, images, theme, pivot tables / caches, tables, VBA and other raw parts, printer-settings "
                        "blobs, rich-text comment bodies and their shapes, auto-filter columns, column / row style indices resolved through the style tables, document properties",
                        "cell-creating / removing / blanking edits are proved on the cell lists, row and column records of the projection (C04Edit.lean) and tied by c04 edit requests (kept coordinates after reload, row and column "
                        "records after get_cell_mut in memory); NOT in the model: the <dimension ref> attribute (not a field of the projection: no separate statement, it is a function of the cell list), rows that have "
                        "neither cells nor attributes after a delete and default column records after a save (not written: BookP lists the records that persist; harness edit-not-local oracle only); "
                        "C04_edit_create_strings describes the index movement by the interning order (prefix stable, set, no duplicates, resolution), not by a closed formula for each moved index",
                        "C04_edit_new_style_local is a statement on the C05 style-sheet model (indices into the tables, effective formatting; renumbering up and down exhibited by a decided example); in c04 the new-style "
                        "edit is checked by the harness only (edit-not-local on the full view + every other cell's style object unchanged against the next generation), the model side is C05's own tie",
                        "the composition bytes -> tree -> model value is per part (C02_bytes_parse / C04_bytes_resave_stable for trees in normal form; C02/C03 validate the rest per file)"],
    "technique": "Lean 4: one generic fixed-point lemma for codecs with explicit idempotent normal forms, instantiated with every codec model (closure of the hypotheses under norm proved), composed into a "
                 "workbook-level theorem + generation-chain differential check with a per-family norm tie on generated files",
}
