PROP = {
    "thm": "Umya.Thm.C13",
    "harness": "c13",
    "level": "proof",
    "stateful": False,
    "ulimit_kb": 4_000_000,
    "timeout_quick": 900,
    "timeout_thorough": 3000,
    "case_timeout": 180,
    "level_text": "Proof on a step-level protocol model: the path-save functions of writer/xlsx.rs (write, write_light, "
                  "write_with_password(_light), set_password) and writer/csv.rs (write), as fixed, are modelled as sequences of "
                  "system calls (create, write, rename, remove) on a finite-map file system with a BufWriter of capacity 8192; "
                  "all-or-nothing and the observer statement are theorems for ALL outputs, ALL file systems in which the destination "
                  "is a regular file - or does not exist yet / is in any other non-directory state (C13_all_or_nothing_fresh, "
                  "C13_observer_fresh, C13_observer_any: no file or the complete new file in every state, never an empty or partial "
                  "one) - and the temp name is not a symlink, and ALL fault plans (creation fails; every write call may "
                  "fail or accept any number of bytes; rename fails; remove fails).  write_writer on an arbitrary failing sink is "
                  "proved to return ok-with-complete-output or err-with-a-proper-prefix (never panic).  The protocol as it was "
                  "(no explicit flush) is refuted by a decided 3-byte witness.  The model is tied to the code on every run by "
                  "fault injection against the real API (failing sinks at every write-call index; child processes under "
                  "RLIMIT_FSIZE=k and with the temp name symlinked to /dev/full).",
    "level_note": "Trusted/assumed: Lean kernel + 3 standard axioms; faithfulness of the hand model as exercised by the correspondence "
                  "stream; std::io::BufWriter's buffering/flush/drop rule and Write::write_all (modelled from std's source, not "
                  "verified); POSIX semantics of open/write/rename/unlink (rename(2) replaces the destination atomically); the cfb "
                  "compound-file writer is opaque (a sequence of checked write_all calls; its seeks are not modelled); process kills, "
                  "power loss and durability (no fsync in the code) are outside the model.",
    "expect_theorems": ["C13_all_or_nothing", "C13_all_or_nothing_password", "C13_all_or_nothing_set_password",
                        "C13_observer", "C13_observer_only_rename", "C13_observer_password",
                        "C13_all_or_nothing_fresh", "C13_observer_fresh", "C13_observer_password_fresh", "C13_observer_any",
                        "C13_sink", "C13_sink_no_panic", "C13_unflushed_fails", "C13_csv_unwrap_fails"],
    "rule": "(a) sinks: kind in {xlsx, light, csv, password(container writer, via hook)} x workbook {small, big, empty} x per-call "
            "acceptance limit {all, 1, 100, 1000, 8192, 10000 bytes} x failing call index i (every i up to the number of calls of a "
            "fault-free save when that is small, else evenly spaced + boundaries) x {Err, Ok(0)}; "
            "(b) path saves in a child process: kind in {xlsx, light, csv, pw, pwlight, setpw} x workbook {small ~5 KiB < 8192, "
            "big ~50 KiB, empty csv} x fault {none, temp name symlinked to /dev/full, RLIMIT_FSIZE=k for k in steps of 512 (quick) / "
            "every byte for outputs below 8 KiB and steps of 64 above (thorough) plus boundary values, temp name is a directory "
            "(creation fails), destination is a non-empty directory (rename fails)} x old destination size {37, 70000}; "
            "the same faults with a destination that does not exist before the call (the /dev/full trick then shows WHERE the data "
            "is written: to the temp name, never to the destination); "
            "(c) SIGKILL at random instants during repeated saves, over an existing and over a fresh destination (exploration only); "
            "(d) an observer thread reading the destination as fast as it can during repeated saves of a ~50 KiB / ~700 KiB output, "
            "existing and fresh destination: every observation is old / absent / one of the complete outputs (exploration only). "
            "non-trivial = a fault was injected or the no-fault reference case; distinct = distinct request line",
    "trusted_base": TB_COMMON + [
        "std::io::BufWriter (capacity 8192: small writes buffered, a write >= capacity bypasses after flushing, flush returns "
        "the error, drop flushes and discards it, a failed flush keeps the remainder) and Write::write_all (partial writes, "
        "Ok(0) = WriteZero) modelled from std's source; exercised by the harness below/above the capacity",
        "POSIX open(O_CREAT|O_TRUNC)/write/rename/unlink semantics on a flat name space (no directories, permissions, hard links)",
        "cfb 0.10 compound-file writer: opaque sequence of checked write_all calls (seeks / sector rewrites not modelled); its "
        "error propagation is tied by the harness only (every write-call index via the hook, RLIMIT_FSIZE steps)",
        "the harness' own observation code (symlink_metadata + O_NOFOLLOW bounded reads, structural completeness check of "
        "encrypted files instead of byte equality because salts are random)",
    ],
    "assumptions": [
        "the destination is a regular file and the temp name <dest>tmp is not a symlink (absent, a stale regular file or a "
        "directory); the destination path has a UTF-8 extension (otherwise the functions panic before any I/O - not an I/O failure)",
        "rename(2) is atomic for concurrent observers and a failed system call has no effect other than the modelled one",
        "ErrorKind::Interrupted retries are not modelled",
        "the complete output is built in memory before the first write (true for all modelled functions)",
    ],
    "partial_clauses": [
        "process kills at arbitrary instants and concurrent observers on the real file system: only explored (50 SIGKILLs per "
        "quick run, 200 per thorough run, half of them over a destination that did not exist; 6 observer runs with 10^4..10^5 "
        "reads each; destination must be old / absent or new; a temp file may be left behind) - the model has no notion of a killed process; every state of the "
        "proved history is old-or-new, which covers kills between system calls under the rename-atomicity assumption",
        "durability after power loss (the code never calls fsync) is outside the model and the harness",
        "a planted symlink at the temp name is executed by the model in the driver and compared with the implementation, but "
        "excluded from the theorems' hypotheses; with an EMPTY output (csv of an empty sheet) and the temp name symlinked to a "
        "device, the save succeeds without a write call and the symlink itself is renamed over the destination (not generated)",
        "write_with_password / set_password: the theorem is about an abstract sequence of checked writes; that cfb 0.10 returns "
        "every write error (and that the explicit stream/file flushes surface the buffered tail) is checked by fault injection only",
    ],
    "technique": "Lean 4 proof over a file-system/fault-plan model + fault-injection correspondence (failing sinks, RLIMIT_FSIZE, /dev/full)",
}
