PROP = {
    "thm": ["Umya.Thm.C13", "Umya.Thm.C13Gen"],
    "harness": "c13",
    "level": "proof",
    "stateful": False,
    "ulimit_kb": 4_000_000,
    "timeout_quick": 900,
    "timeout_thorough": 3000,
    "case_timeout": 180,
    "level_text": "Proof on a step-level protocol model: the path-save functions of writer/xlsx.rs (write, write_light, "
                  "write_with_password(_light), set_password) and writer/csv.rs (write), as fixed, are modelled as sequences of "
                  "system calls (create, write, rename, remove) on a finite-map file system with a BufWriter of capacity 8192; "
                  "all-or-nothing and the observer statement are theorems for ALL outputs, ALL file systems in which the destination "
                  "is a regular file - or does not exist yet / is in any other non-directory state (C13_all_or_nothing_fresh, "
                  "C13_observer_fresh, C13_observer_any: no file or the complete new file in every state, never an empty or partial "
                  "one) - and the temp name is not a symlink, and ALL fault plans (creation fails; every write call may "
                  "fail or accept any number of bytes; rename fails; remove fails).  write_writer on an arbitrary failing sink is "
                  "proved to return ok-with-complete-output or err-with-a-proper-prefix (never panic).  The protocol as it was "
                  "(no explicit flush) is refuted by a decided 3-byte witness.  The PROTOCOL of each function is no longer only "
                  "hand-copied: tools/extract_proto.py regenerates it from the current source on every run (Model/Gen/Proto.lean: "
                  "for xlsx::write, write_light, csv::write, the three write_writer functions, write_with_password(_light) with "
                  "try_encrypt inlined, set_password - the effectful calls File::create, BufWriter::new, write_all, flush, drop, "
                  "fs::rename, fs::remove_file, cfb::create, write_compound_file, File::open, read_to_end, make_buffer in source "
                  "order, what is done with every Result (`?`, stored, discarded, matched), the error-path blocks and the "
                  "scope-end drops explicit, callees inlined; the temp-name expression), and C13_protocol_matches_source proves "
                  "that running the regenerated program on the file-system model yields exactly the final state, the whole "
                  "history and the ok/error result of savePath / savePw / setPw / writeWriter for ALL fault plans, outputs, "
                  "destinations with an extension and file systems (generic soundness of the normal form exec_norm + one closed "
                  "`decide` per function, so equivalent control flow - `?` vs match vs is_ok() chains, helpers, renamed locals - "
                  "still proves and a reordered, unchecked or missing call breaks the build); C13_tmp_name_matches_source does "
                  "the same for path.with_extension(ext + \"tmp\").  What the system calls, BufWriter and cfb DO is still tied "
                  "to the code by fault injection against the real API on every run (failing sinks at every write-call index; "
                  "child processes under RLIMIT_FSIZE=k and with the temp name symlinked to /dev/full).",
    "level_note": "Trusted/assumed: Lean kernel + 3 standard axioms; faithfulness of the hand model as exercised by the correspondence "
                  "stream; std::io::BufWriter's buffering/flush/drop rule and Write::write_all (modelled from std's source, not "
                  "verified); POSIX semantics of open/write/rename/unlink (rename(2) replaces the destination atomically); the cfb "
                  "compound-file writer is opaque (a sequence of checked write_all calls; its seeks are not modelled); process kills, "
                  "power loss and durability (no fsync in the code) are outside the model.",
    "expect_theorems": ["C13_all_or_nothing", "C13_all_or_nothing_password", "C13_all_or_nothing_set_password",
                        "C13_observer", "C13_observer_only_rename", "C13_observer_password",
                        "C13_all_or_nothing_fresh", "C13_observer_fresh", "C13_observer_password_fresh", "C13_observer_any",
                        "C13_sink", "C13_sink_no_panic", "C13_unflushed_fails", "C13_csv_unwrap_fails",
                        "C13_protocol_matches_source", "C13_tmp_name_matches_source", "C13_make_buffer_failure"],
    "rule": "(a) sinks: kind in {xlsx, light, csv, password(container writer, via hook)} x workbook {small, big, empty} x per-call "
            "acceptance limit {all, 1, 100, 1000, 8192, 10000 bytes} x failing call index i (every i up to the number of calls of a "
            "fault-free save when that is small, else evenly spaced + boundaries) x {Err, Ok(0)}; "
            "(b) path saves in a child process: kind in {xlsx, light, csv, pw, pwlight, setpw} x workbook {small ~5 KiB < 8192, "
            "big ~50 KiB, empty csv} x fault {none, temp name symlinked to /dev/full, RLIMIT_FSIZE=k for k in steps of 512 (quick) / "
            "every byte for outputs below 8 KiB and steps of 64 above (thorough) plus boundary values, temp name is a directory "
            "(creation fails), destination is a non-empty directory (rename fails)} x old destination size {37, 70000}; "
            "the same faults with a destination that does not exist before the call (the /dev/full trick then shows WHERE the data "
            "is written: to the temp name, never to the destination); "
            "(c) SIGKILL at random instants during repeated saves, over an existing and over a fresh destination (exploration only); "
            "(d) an observer thread reading the destination as fast as it can during repeated saves of a ~50 KiB / ~700 KiB output, "
            "existing and fresh destination: every observation is old / absent / one of the complete outputs (exploration only). "
            "non-trivial = a fault was injected or the no-fault reference case; distinct = distinct request line",
    "trusted_base": TB_COMMON + [
        "std::io::BufWriter (capacity 8192: small writes buffered, a write >= capacity bypasses after flushing, flush returns "
        "the error, drop flushes and discards it, a failed flush keeps the remainder) and Write::write_all (partial writes, "
        "Ok(0) = WriteZero) modelled from std's source; exercised by the harness below/above the capacity",
        "POSIX open(O_CREAT|O_TRUNC)/write/rename/unlink semantics on a flat name space (no directories, permissions, hard links)",
        "cfb 0.10 compound-file writer: opaque sequence of checked write_all calls (seeks / sector rewrites not modelled); its "
        "error propagation is tied by the harness only (every write-call index via the hook, RLIMIT_FSIZE steps)",
        "tools/extract_proto.py + tools/rustfrag.py (the protocol translator, ~870 + 750 lines of Python): the syntax-directed "
        "translation of a function body into continuation form, its table of effectful calls (anything mentioning fs / File / "
        "OpenOptions / BufWriter / io / cfb or an I/O method name that is not in the table is refused: fallback, never silently "
        "pure), inlining of callees of the same file and of helper/crypt.rs::try_encrypt, the scope-end drop rule for an owned "
        "BufWriter / File (declaration order reversed; temporaries holding a writer are refused), substitution of pure path "
        "expressions; make_buffer (fallible, no I/O), encrypt_parts (no I/O) and write_compound_file (checked to consist of "
        "`?`-checked / returned library calls only) are opaque by name",
        "the meaning of one protocol step (Model/SaveProto.lean `step`: File::create = sysCreate, write_all through the "
        "BufWriter = bufWriteAll, ... one writer register, the buffer last computed or read) and the model of "
        "Path::extension / with_extension on List Char (splitExt: the part of the last component after its final dot; none "
        "for `.hidden`, `..`, no dot; trailing slashes outside the model), written from std's documentation",
        "the harness' own observation code (symlink_metadata + O_NOFOLLOW bounded reads, structural completeness check of "
        "encrypted files instead of byte equality because salts are random)",
    ],
    "assumptions": [
        "the destination is a regular file and the temp name <dest>tmp is not a symlink (absent, a stale regular file or a "
        "directory); the destination path has a UTF-8 extension (otherwise the functions panic before any I/O - not an I/O failure)",
        "rename(2) is atomic for concurrent observers and a failed system call has no effect other than the modelled one",
        "ErrorKind::Interrupted retries are not modelled",
        "the complete output is built in memory before the first write (true for all modelled functions; regenerated: the "
        "`compute` step precedes the `writeAll` step in every regenerated protocol)",
        "C13_protocol_matches_source: make_buffer succeeds (c.cok; a failing make_buffer is an in-memory error before / "
        "between the system calls, savePath / savePw have no such parameter: C13_make_buffer_failure states what the "
        "regenerated xlsx::write / write_light / write_with_password(_light) do then - error, the empty temp file created and "
        "removed again resp. no system call at all); read faults of set_password's read_to_end are not in "
        "the fault plan; `e` of every Err(e) is abstracted to one error value (ok / error outcomes only)",
    ],
    "partial_clauses": [
        "process kills at arbitrary instants and concurrent observers on the real file system: only explored (50 SIGKILLs per "
        "quick run, 200 per thorough run, half of them over a destination that did not exist; 6 observer runs with 10^4..10^5 "
        "reads each; destination must be old / absent or new; a temp file may be left behind) - the model has no notion of a killed process; every state of the "
        "proved history is old-or-new, which covers kills between system calls under the rename-atomicity assumption",
        "durability after power loss (the code never calls fsync) is outside the model and the harness",
        "a planted symlink at the temp name is executed by the model in the driver and compared with the implementation, but "
        "excluded from the theorems' hypotheses; with an EMPTY output (csv of an empty sheet) and the temp name symlinked to a "
        "device, the save succeeds without a write call and the symlink itself is renamed over the destination (not generated)",
        "write_with_password / set_password: the theorem is about an abstract sequence of checked writes; that cfb 0.10 returns "
        "every write error (and that the explicit stream/file flushes surface the buffered tail) is checked by fault injection only; "
        "the regenerated protocol has cfb::create and write_compound_file as two opaque steps (the translator only checks that "
        "every library call inside write_compound_file is `?`-checked or returned)",
        "protocol regeneration: a function whose body leaves the translator's fragment (closures with effects, loops with "
        "effects, a writer held by a temporary or a struct field, and_then / map chains on a Result, an unknown function) falls "
        "back to the committed snapshot with a reason in the evidence; for such a function the tie is fault injection alone",
    ],
    "technique": "Lean 4 proof over a file-system/fault-plan model + fault-injection correspondence (failing sinks, RLIMIT_FSIZE, /dev/full)",
}
