PROP = {
    "thm": ["Umya.Thm.C19", "Umya.Thm.C19Gen"],
    "harness": "c19",
    "level": "proof",
    "stateful": False,
    "level_text": "Proof for the pattern grammar (#,##)?0(.0+)?%? and the format codes General / @: the repaired rendering "
                  "(format_decimal_text, after fix_1) is modelled on (sign, integer digits, fraction digits) and proved equal, for ALL "
                  "digit lists, all numbers of decimals and both thousands settings, to the rendering (by div/mod) of the arithmetic "
                  "rounding roundHalfAway(N,k,n) = (2*N*10^n + 10^k) / (2*10^k); percent = the same on 100*N; shape corollaries "
                  "(exactly n decimals, every 4th character from the right a comma, sign kept, integer part = decimal text of the "
                  "rounded integer part). The model is tied to the code by ~2*10^4 (value, pattern) pairs per quick run, and the "
                  "implementation is compared on each with an independent u128 oracle. "
                  "The clause 'never panics for any built-in format code': the known panic (date conversion leaving chrono's range, "
                  "fix d30eec7) is modelled with chrono's TimeDelta / NaiveDateTime bounds; C19_date_no_panic proves that under the 11 "
                  "built-in date/time codes whose dispatch the model covers (ids 14-22, 30, 45 of the regenerated table) EVERY value gets "
                  "a text (chrono's rendering inside the range, the General text of the number beyond it); the other built-in codes "
                  "(quoted literals, [$-..] prefixes, [h], sections, scientific, fractions) are exploration only (partial).",
    "level_note": "Trusted: Lean kernel + 3 standard axioms; the hand model's faithfulness as exercised by the correspondence stream; "
                  "Rust f64 FromStr/Display (shortest, positional, round trip; identity on decimal texts of <= 15 significant digits); "
                  "the dispatch of to_formatted_string (regex section splitting, date/percent detection) is modelled only for the "
                  "grammar and tied behaviourally.",
    "expect_theorems": ["C19_fixed", "C19_percent", "C19_pattern", "C19_shape", "C19_split_in_range", "C19_general", "C19_general_cell",
                        "C19_date_no_panic", "C19_date_out_of_range", "C19_date_checked_agrees", "C19_date_codes_covered",
                        "C19_date_tables_match_source", "C19_date_checked_matches_source"],
    "rule": "boundary values (the five witnesses of DESIGN section 4 row 17, halves, carries through nines, values rounding to zero, "
            "negative zero, 15-digit values, 1e-7..1e15) x all 28 patterns (0 / 0.0..0.000000, with and without #,##, with and "
            "without %) + General + @; 560 (quick) / 30000 (thorough) random decimal texts of 1..17 significant digits, magnitudes "
            "1e-7..1e15, 30% negative, biased to runs of 9, a final 5, ..4999 / ..5000..1 tails, inner zeros, x all 28 patterns; "
            "arbitrary doubles (17 digits, any exponent) x 3 random patterns; text and numeric-looking text through text cells and "
            "through the helper; patterns outside the grammar (model: unmodelled; exploration); every format id 0..49 x 200 / 1000 "
            "values (panic-freedom, exploration); every id 0..70 x ~75 serials at and around the edges of chrono's "
            "calendar (95051805 / -96465292 +- days and times of day), of TimeDelta (i64::MAX/1000 s), of i64, up to +-f64::MAX, and 100 "
            "(quick) / 1000 (thorough) random serials 1e0..1e308 of both signs (op date: no panic; a date id beyond the range shows the "
            "General text; model answers for the 11 covered ids), and excel_to_date_time_object_checked against the model and against "
            "the panicking public function on the same serials (op edt). non-trivial = the oracle was applicable (value and pattern inside the property's "
            "quantifier and the u128 reference did not overflow) or the cell returned a value; distinct = distinct request line",
    "trusted_base": TB_COMMON + [
        "Rust f64 Display prints every finite value positionally as -?D+(.D+)? in shortest round-trip form, and FromStr accepts the documented grammar; "
        "parse->to_string is the identity on plain decimal texts of <= 15 significant digits (DBL_DIG) and <= 300 characters; "
        "the harness re-checks the fixed point on every value it sends",
        "fancy_regex behaviour of SECTION/ESCAPE/DATE_TIME/PERCENT/THOUSANDS/SCALE/FRACTION/NUMBER regexes on the 28 grammar patterns: "
        "modelled as 'single section, number or percent path, decimals = zeros after the point', tied behaviourally",
        "the harness oracle (u128 arithmetic on the decimal text) is independent of both the library and the Lean model",
        "chrono 0.4.38..0.4.45: TimeDelta::try_seconds is Some iff |s| <= i64::MAX/1000, try_days/hours/minutes = checked_mul then try_seconds; "
        "NaiveDateTime::checked_add_signed is Some iff the sum lies in -262143-01-01T00:00:00 ..= +262142-12-31T23:59:59; %Y prints 4 digits for "
        "0..9999 and sign + at least 4 digits otherwise, %y = rem_euclid(100) (read off chrono's source; tied by the edt / date streams at the exact edges)",
        "the driver runs the date model with Lean's native Float (IEEE binary64; floor, round half away, saturating toInt64) — nothing is proved about "
        "that instance; the theorems hold for every FloatOps instance",
    ],
    "assumptions": [
        "numbers are finite f64 values presented by their shortest decimal text (what Cell::get_value / f64::to_string produce)",
        "sign rule: '-' is shown exactly when the number's decimal text starts with '-', also when the rounded magnitude is zero "
        "(-0.001 under 0.00 -> -0.00, as Excel; -0 -> -0 / -0.00)",
        "rounding is of the shortest decimal text of the double, not of its exact binary value (1.005 under 0.00 -> 1.01, as Excel)",
    ],
    "partial_clauses": [
        "'formatting never panics for any built-in format code and any finite number': proved (C19_date_no_panic, every value) for the built-in "
        "date/time ids 14-22, 30, 45 as far as the model covers the dispatch (replacement tables regenerated; regex stages = identity on these "
        "codes, tied behaviourally); for ids 0-4, 9, 10, 49 the grammar theorems give a text for every plain decimal text; all other ids "
        "(11-13, 27-29, 31-40, 44, 46-48, 50-70: quoted literals, locale prefixes, [h], sections, colours, scientific, fractions) are explored "
        "by the harness only (ids 0..70 x 200 values + ~175 extreme serials per quick run); ids 5-8, 23-26, 41-43, 63-66 have no entry in the crate's table",
        "format codes outside (#,##)?0(.0+)?%? / General / @ (sections, colours, currency, scientific, fractions, dates) are not modelled; "
        "the model answers 'unmodelled' and such cases only feed the panic exploration",
        "to_formatted_string on numeric-looking strings that are not shortest forms (1.50, 1e5) normalises them; only the cell-level "
        "entry point (text cells, after fix_2) shows such text unchanged",
    ],
    "technique": "Lean 4 proof over a digit-list model + arithmetic rounding spec; differential tie + independent integer oracle",
    "timeout_quick": 600,
    "timeout_thorough": 2400,
}
