PROP = {
    "thm": "Umya.Thm.C19",
    "harness": "c19",
    "level": "proof",
    "stateful": False,
    "level_text": "Proof for the pattern grammar (#,##)?0(.0+)?%? and the format codes General / @: the repaired rendering "
                  "(format_decimal_text, after fix_1) is modelled on (sign, integer digits, fraction digits) and proved equal, for ALL "
                  "digit lists, all numbers of decimals and both thousands settings, to the rendering (by div/mod) of the arithmetic "
                  "rounding roundHalfAway(N,k,n) = (2*N*10^n + 10^k) / (2*10^k); percent = the same on 100*N; shape corollaries "
                  "(exactly n decimals, every 4th character from the right a comma, sign kept, integer part = decimal text of the "
                  "rounded integer part). The model is tied to the code by ~2*10^4 (value, pattern) pairs per quick run, and the "
                  "implementation is compared on each with an independent u128 oracle. "
                  "The clause 'never panics for any built-in format code' is exploration only (partial).",
    "level_note": "Trusted: Lean kernel + 3 standard axioms; the hand model's faithfulness as exercised by the correspondence stream; "
                  "Rust f64 FromStr/Display (shortest, positional, round trip; identity on decimal texts of <= 15 significant digits); "
                  "the dispatch of to_formatted_string (regex section splitting, date/percent detection) is modelled only for the "
                  "grammar and tied behaviourally.",
    "expect_theorems": ["C19_fixed", "C19_percent", "C19_pattern", "C19_shape", "C19_split_in_range", "C19_general", "C19_general_cell"],
    "rule": "boundary values (the five witnesses of DESIGN section 4 row 17, halves, carries through nines, values rounding to zero, "
            "negative zero, 15-digit values, 1e-7..1e15) x all 28 patterns (0 / 0.0..0.000000, with and without #,##, with and "
            "without %) + General + @; 560 (quick) / 30000 (thorough) random decimal texts of 1..17 significant digits, magnitudes "
            "1e-7..1e15, 30% negative, biased to runs of 9, a final 5, ..4999 / ..5000..1 tails, inner zeros, x all 28 patterns; "
            "arbitrary doubles (17 digits, any exponent) x 3 random patterns; text and numeric-looking text through text cells and "
            "through the helper; patterns outside the grammar (model: unmodelled; exploration); every format id 0..49 x 200 / 1000 "
            "values (panic-freedom, exploration). non-trivial = the oracle was applicable (value and pattern inside the property's "
            "quantifier and the u128 reference did not overflow) or the cell returned a value; distinct = distinct request line",
    "trusted_base": TB_COMMON + [
        "Rust f64 Display prints every finite value positionally as -?D+(.D+)? in shortest round-trip form, and FromStr accepts the documented grammar; "
        "parse->to_string is the identity on plain decimal texts of <= 15 significant digits (DBL_DIG) and <= 300 characters; "
        "the harness re-checks the fixed point on every value it sends",
        "fancy_regex behaviour of SECTION/ESCAPE/DATE_TIME/PERCENT/THOUSANDS/SCALE/FRACTION/NUMBER regexes on the 28 grammar patterns: "
        "modelled as 'single section, number or percent path, decimals = zeros after the point', tied behaviourally",
        "the harness oracle (u128 arithmetic on the decimal text) is independent of both the library and the Lean model",
    ],
    "assumptions": [
        "numbers are finite f64 values presented by their shortest decimal text (what Cell::get_value / f64::to_string produce)",
        "sign rule: '-' is shown exactly when the number's decimal text starts with '-', also when the rounded magnitude is zero "
        "(-0.001 under 0.00 -> -0.00, as Excel; -0 -> -0 / -0.00)",
        "rounding is of the shortest decimal text of the double, not of its exact binary value (1.005 under 0.00 -> 1.01, as Excel)",
    ],
    "partial_clauses": [
        "'formatting never panics for any built-in format code and any finite number': explored by the harness only "
        "(ids 0..49 x 200 values per quick run); date/time codes panic for serials beyond chrono's range (known finding "
        "C19-date-format-serial-out-of-chrono-range); ids 5-8, 23-26, 41-43 have no entry in the crate's table",
        "format codes outside (#,##)?0(.0+)?%? / General / @ (sections, colours, currency, scientific, fractions, dates) are not modelled; "
        "the model answers 'unmodelled' and such cases only feed the panic exploration",
        "to_formatted_string on numeric-looking strings that are not shortest forms (1.50, 1e5) normalises them; only the cell-level "
        "entry point (text cells, after fix_2) shows such text unchanged",
    ],
    "technique": "Lean 4 proof over a digit-list model + arithmetic rounding spec; differential tie + independent integer oracle",
    "timeout_quick": 600,
    "timeout_thorough": 2400,
}
