PROP = {
    "thm": ["Umya.Thm.C19", "Umya.Thm.C19Gen", "Umya.Thm.C19Dispatch", "Umya.Thm.C19Regex", "Umya.Thm.C19Cell"],
    "harness": "c19",
    "level": "proof",
    "stateful": False,
    "level_text": "Proof for the pattern grammar (#,##)?0(.0+)?%? and the format codes General / @: the repaired rendering "
                  "(format_decimal_text, after fix_1) is modelled on (sign, integer digits, fraction digits) and proved equal, for ALL "
                  "digit lists, all numbers of decimals and both thousands settings, to the rendering (by div/mod) of the arithmetic "
                  "rounding roundHalfAway(N,k,n) = (2*N*10^n + 10^k) / (2*10^k); percent = the same on 100*N; shape corollaries "
                  "(exactly n decimals, every 4th character from the right a comma, sign kept, integer part = decimal text of the "
                  "rounded integer part). The model is tied to the code by ~2*10^4 (value, pattern) pairs per quick run, and the "
                  "implementation is compared on each with an independent u128 oracle. "
                  "The clause 'never panics for any built-in format code and any finite number': the dispatcher — to_formatted_string, "
                  "split_format (sections, colours), format_as_number (quotes / * / thousands / scaling / fraction test / number regex / "
                  "currency prefix), format_as_percentage, format_as_fraction, format_as_date (locale prefix, quoted literals, replacement "
                  "tables, [h], checked conversion, chrono rendering) — is modelled (Model/NumFmtDispatch.lean) with every operation that can "
                  "panic as an explicit outcome, the regexes as hand-written matchers. C19_builtin_no_panic proves for EVERY entry of the "
                  "regenerated built-in table (58 ids: 0-4, 9-22, 27-40, 44-62, 67-70; C19_builtin_ids), every value text of the shape "
                  "f64::to_string prints, every double / remainder text 0|0.D+ / hours text, that the model returns a text: no panic, "
                  "nothing unmodelled. Per branch: C19_fraction_no_panic (ids 12, 13, 69, 70: usize-valued texts shown as they are, "
                  "everything else — negative whole numbers, -0, >= 2^64 — through format_as_fraction, whose unwrap succeeds), "
                  "C19_scientific_no_panic (ids 11, 48: rendered as fixed decimals, E+ ignored), C19_accounting_no_panic / "
                  "C19_accounting44_no_panic (ids 37-40, 44: formatFixed of the ABSOLUTE value, parentheses lost), C19_text_no_panic (0, 49), "
                  "C19_dispatch_matches_fixed (ids 1-4, 9, 10, 59-62, 67, 68 reach exactly formatFixed / formatPercent with the parameters "
                  "C19_fixed / C19_percent assume), date ids 14-22, 27-36, 45-47, 50-58 via the checked conversion (C19_date_no_panic's model; "
                  "C19_dispatch_date_agrees). Tied on every run by the disp stream: every id 0..70 x ~180 values (whole, negative whole, "
                  "-0, halves, 1e-7, 5e-324, 1e20, 1e300, f64::MAX, 2^64 edge, rounding boundaries, long fractions, calendar edges), the "
                  "FULL text compared (class only where the fraction formatter prints floats). "
                  "Beyond the table: a format code that is one quoted literal (\"N/A\") panicked (parse::<f64>().unwrap()); repaired by "
                  "fix_3, witness C19_quoted_literal_code_shown replayed on every run. "
                  "The cell-level decision (Cell::get_formatted_value) is modelled statement by statement over all seven kinds of "
                  "CellRawValue, with or without a formula (Model/NumFmtCell.lean: Display, get_number, get_data_type, get_data_type_crate, "
                  "get_value, get_value_number, getFormattedValue with an optional format code): C19_cell_text_unchanged — every raw value "
                  "that is not Numeric shows get_value() unchanged under EVERY code and under none (string, rich text, text result under a "
                  "formula: their text; bool: TRUE / FALSE; error: its #-text; empty: the empty string; an unresolved set_value_lazy value: "
                  "the EMPTY string, its stored text is not shown); C19_cell_number_general — a Numeric cell whose text is a shortest decimal "
                  "text shows it under General, @ and no format; C19_cell_dispatch — to_formatted_string is reached exactly by Numeric raw "
                  "values (iff get_data_type_crate = n), formula or not; C19_cell_datatype_matches_source — the model's two data-type "
                  "functions equal the ones compiled from the current source; C19_cell_formatted_value_matches_source — Cell::get_formatted_value "
                  "itself, compiled from the current source by extract_fns.py (inputs: what get_value(), get_value_number(), the style's format code "
                  "return, and to_formatted_string as a function), instantiated with the model's functions IS getFormattedValue. Tied by the cellk stream (every kind x formula x 9 codes incl. "
                  "none; a part through a saved workbook read back with lazy_read).",
    "level_note": "Trusted: Lean kernel + 3 standard axioms; the hand model's faithfulness as exercised by the correspondence stream; "
                  "Rust f64 FromStr/Display (shortest, positional, round trip; identity on decimal texts of <= 15 significant digits); "
                  "the hand-written matchers that stand for the fancy_regex patterns of the dispatcher, chrono's strftime on the specifiers "
                  "the replacement tables produce, the three float operations behind Env (the double, abs % 1, * 24) are modelled, not verified: "
                  "tied behaviourally by the disp stream.",
    "expect_theorems": ["C19_fixed", "C19_percent", "C19_pattern", "C19_shape", "C19_split_in_range", "C19_general", "C19_general_cell",
                        "C19_date_no_panic", "C19_date_out_of_range", "C19_date_checked_agrees", "C19_date_codes_covered",
                        "C19_date_tables_match_source", "C19_date_checked_matches_source", "C19_regex_matches_source",
                        "C19_builtin_ids", "C19_builtin_plans_ok", "C19_builtin_no_panic", "C19_fraction_no_panic",
                        "C19_scientific_no_panic", "C19_accounting_no_panic", "C19_accounting44_no_panic", "C19_text_no_panic",
                        "C19_dispatch_matches_fixed", "C19_dispatch_date_ids", "C19_dispatch_date_agrees",
                        "C19_quoted_literal_code_shown", "C19_custom_code_panics",
                        "C19_cell_text_unchanged", "C19_cell_number_general", "C19_cell_dispatch", "C19_cell_datatype_matches_source", "C19_cell_formatted_value_matches_source"],
    "rule": "boundary values (the five witnesses of DESIGN section 4 row 17, halves, carries through nines, values rounding to zero, "
            "negative zero, 15-digit values, 1e-7..1e15) x all 28 patterns (0 / 0.0..0.000000, with and without #,##, with and "
            "without %) + General + @; 560 (quick) / 30000 (thorough) random decimal texts of 1..17 significant digits, magnitudes "
            "1e-7..1e15, 30% negative, biased to runs of 9, a final 5, ..4999 / ..5000..1 tails, inner zeros, x all 28 patterns; "
            "arbitrary doubles (17 digits, any exponent) x 3 random patterns; text and numeric-looking text through text cells and "
            "through the helper; patterns outside the grammar (model: unmodelled; exploration); every format id 0..49 x 200 / 1000 "
            "values (panic-freedom, exploration); every id 0..70 x ~75 serials at and around the edges of chrono's "
            "calendar (95051805 / -96465292 +- days and times of day), of TimeDelta (i64::MAX/1000 s), of i64, up to +-f64::MAX, and 100 "
            "(quick) / 1000 (thorough) random serials 1e0..1e308 of both signs (op date: no panic; a date id beyond the range shows the "
            "General text; model answers for the 11 covered ids), and excel_to_date_time_object_checked against the model and against "
            "the panicking public function on the same serials (op edt); every id 0..70 x ~180 values of the dispatcher stream "
            "(DISP_VALUES: whole / negative whole / both zeros / halves / tiny / huge / the usize edge / rounding boundaries / long "
            "fractions / calendar edges, + 40 (quick) / 400 (thorough) random) with the double's bit pattern and the texts of abs % 1, "
            "* 24, abs * 24 (op disp: no panic; full text against the dispatcher model), 25 custom codes x 8 values (op dispc, exploration, "
            "incl. the quoted-literal witness); op cellk: every kind of CellRawValue (str / rich (two runs) / lazy / num / bool / err (all 8) / empty) "
            "x with and without a formula x 9 codes (none, General, @, five numeric patterns, a date code) x 13 texts / 11 numbers, 150 (quick) / 2000 "
            "(thorough) random values as number and as text kinds, and 5 codes x the kinds str / strf / rich / num / numf / bool / boolf / err / errf "
            "taken from a workbook saved and read back with lazy_read (text, public data type and get_value_number().is_some() compared). non-trivial = the oracle was applicable (value and pattern inside the property's "
            "quantifier and the u128 reference did not overflow) or the cell returned a value; distinct = distinct request line",
    "trusted_base": TB_COMMON + [
        "Rust f64 Display prints every finite value positionally as -?D+(.D+)? in shortest round-trip form, and FromStr accepts the documented grammar; "
        "parse->to_string is the identity on plain decimal texts of <= 15 significant digits (DBL_DIG) and <= 300 characters; "
        "the harness re-checks the fixed point on every value it sends",
        "fancy_regex behaviour of every pattern of the dispatcher (ESCAPE, SECTION, colour, condition, `_.`, DATE_TIME, `%$`, thousands, "
        "scale, trailing comma, fraction, square bracket, number, `\\$[^0-9]*`, the three patterns of format_as_date): each replaced by a "
        "hand-written matcher in Model/NumFmtDispatch.lean (not proved equal to the regex); tied by the disp stream on all built-in ids",
        "f64: `abs`, `% 1`, `* 24`, comparisons with 0 and Display — the model reads the sign off the text and takes the texts of abs % 1 and "
        "* 24 as inputs (the harness computes them with the same operations and re-checks them)",
        "the harness oracle (u128 arithmetic on the decimal text) is independent of both the library and the Lean model",
        "chrono 0.4.38..0.4.45: TimeDelta::try_seconds is Some iff |s| <= i64::MAX/1000, try_days/hours/minutes = checked_mul then try_seconds; "
        "NaiveDateTime::checked_add_signed is Some iff the sum lies in -262143-01-01T00:00:00 ..= +262142-12-31T23:59:59; %Y prints 4 digits for "
        "0..9999 and sign + at least 4 digits otherwise, %y = rem_euclid(100) (read off chrono's source; tied by the edt / date streams at the exact edges)",
        "the driver runs the date model with Lean's native Float (IEEE binary64; floor, round half away, saturating toInt64) — nothing is proved about "
        "that instance; the theorems hold for every FloatOps instance",
    ],
    "assumptions": [
        "numbers are finite f64 values presented by their shortest decimal text (what Cell::get_value / f64::to_string produce)",
        "sign rule: '-' is shown exactly when the number's decimal text starts with '-', also when the rounded magnitude is zero "
        "(-0.001 under 0.00 -> -0.00, as Excel; -0 -> -0 / -0.00)",
        "rounding is of the shortest decimal text of the double, not of its exact binary value (1.005 under 0.00 -> 1.01, as Excel)",
    ],
    "partial_clauses": [
        "'formatting never panics for any built-in format code and any finite number': proved (C19_builtin_no_panic) for all 58 ids of the "
        "crate's table on the dispatcher MODEL; what stays below the theorem and is tied behaviourally only: the matchers standing for the "
        "fancy_regex patterns (ESCAPE / SECTION / colour / `_.` / DATE_TIME / `%$` / thousands / scale / fraction / `[..]` / number / `$` prefix / "
        "locale prefix / lower-casing), chrono's strftime, f64 arithmetic and Display behind Env (abs % 1 prints as 0 | 0.D+; * 24 prints "
        "without %), and panics inside library code (regex engine, chrono) on inputs the model considers fine; ids 5-8, 23-26, 41-43, 63-66 "
        "have no entry in the crate's table",
        "the TEXT under fraction codes (ids 12, 13, 69, 70 on non-usize values) is not modelled (gcd and printing of floats): outcome class and "
        "branch only; the text under every other built-in id is modelled and compared in full",
        "format codes outside the built-in table: sections with conditions ([>100]), scaling commas, date codes with unclosed quotes or "
        "non-ASCII text outside quotes are answered 'unmodelled'; other custom codes are explored by 25 codes x 8 values per run (dispc), not proved; two of them PANIC on the current tree "
        "(a colour in a sixth section: colors[idx] out of bounds; four scaling commas: 1000i32.pow(4) overflows) — predicted by the model "
        "(C19_custom_code_panics), confirmed by the stream on every run, not repaired, outside the property's quantifier",
        "what the text SAYS under ids 11, 48 (no exponent), 37-40, 44 (sign / parentheses of negative numbers lost, '$ -??0' for zero), "
        "32, 33 (minutes rendered as month) is proved / tied as it is, not judged: the property's rounding clause speaks of the plain "
        "fixed-decimal and percentage patterns only",
        "to_formatted_string on numeric-looking strings that are not shortest forms (1.50, 1e5) normalises them; only the cell-level "
        "entry point (text cells, after fix_2) shows such text unchanged",
        "cell kinds: Cell::get_formatted_value is tied to the source by translation (C19_cell_formatted_value_matches_source), as are get_data_type / "
        "get_data_type_crate (C19_cell_datatype_matches_source); get_value_number / CellRawValue::get_number (a method on an enum with payloads: "
        "extract_fns.py reports 'struct CellRawValue not found') and the two Display impls (write! bodies) are hand-modelled and tied by the cellk "
        "stream only. Numeric cells "
        "holding NaN / infinities and numbers of more than 15 significant digits under a pattern are outside the model (unmodelled). A value "
        "stored with set_value_lazy and not resolved shows the empty string (proved and tied as it is, not judged); the reader never produces "
        "Lazy values, so a lazily read workbook yields the ordinary kinds (tied for str / rich / num / bool / err, with and without formula; "
        "rich text under a formula and empty cells are not sent through the saved workbook)",
    ],
    "technique": "Lean 4 proof over a digit-list model + arithmetic rounding spec + dispatcher model (decide over the regenerated built-in table, lemmas per formatter); differential tie + independent integer oracle",
    "timeout_quick": 600,
    "timeout_thorough": 2400,
}
