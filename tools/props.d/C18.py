PROP = {
    "thm": ["Umya.Thm.C18", "Umya.Thm.C18Gen"],
    "harness": "c18",
    "level": "proof",
    "stateful": False,
    "level_text": "Proof for the integer part: convert_date_crate (checked i32 arithmetic, literal to_string()[0..2]/[2..4] slicing, "
                  "1900 leap window) is modelled in Lean; its day count is proved equal to an independent proleptic-Gregorian day count "
                  "(Hinnant closed forms, themselves proved mutually inverse, valid and strictly monotone for all integers / all valid dates) "
                  "minus the day number of 1899-12-30 (one less before 1900-03-01), panic-free on 1900-01-01..9999-12-31, and strictly "
                  "increasing in (date, second). excel_to_date_time_object is modelled generically over a float interface; the round trip "
                  "to the second is proved for the EXACT-arithmetic instance (fixed point, unit 1/86400 day). The model is tied to the code "
                  "by a differential check on every run (bit-exact f64 comparison, native IEEE doubles on the Lean side).",
    "level_note": "The IEEE-754 rounding steps of the f64 code (secs/86400, day+fraction, the *24/*60 chain, round) are NOT proved: they are "
                  "executed with Lean's native Float in the driver, compared bit-for-bit with Rust, and the to-the-second round trip / "
                  "monotonicity of the f64 results is established only by the harness oracle (every 97th day x 5 times + 86 400 seconds "
                  "per quick run; every day x 5 times + 12 x 86 400 seconds per thorough run). chrono's calendar is represented by the "
                  "reference calendar (trusted). Display: model-vs-implementation and oracle only, no theorem.",
    "expect_theorems": ["C18_date_fns_match_source", "C18_tables_match_source", "C18_days", "C18_days_1900", "C18_monotone", "C18_civil_roundtrip", "C18_civil_roundtrip_inv",
                        "C18_civil_valid", "C18_civil_monotone", "C18_convert", "C18_time_exact", "C18_time_exact_no_loss",
                        "C18_roundtrip_exact"],
    "rule": "quick: every 97th day 1900-01-01..9999-12-31 x {00:00:00, 00:00:01, 11:59:59, 12:00:00, 23:59:59}; every second of one "
            "representative day (chosen by seed); 178 boundary years x 9 month/day corners x 5 times (year ends, Feb 28/29, Mar 1, all century years, "
            "1900-02-28/03-01); malformed arguments (year < 1000, > 9999, negative, i32 extremes; month/day/time out of range; i32 overflow "
            "boundaries); 40 000 arbitrary serials -> date-time (fractions off the second grid, +-1 ulp around integers, < 1, 59.x, 60.x, "
            "negative, NaN, inf); formatted display of a numeric cell for 22 date formats over every 776th day + all seconds/9 of one day + "
            "19 formats outside the modelled fragment. thorough: every day x 5 times and every second of 12 days as batches of 10^4 / 8640 "
            "(rolling hash of bit patterns and read-back fields on both sides; the oracle is evaluated per item), plus the quick streams "
            "with 10x the random volume. non-trivial = valid in-domain date/time (ser), in-domain serial away from a rounding tie (dt), "
            "format with a harness-side expected text (fmt); distinct = distinct request line",
    "trusted_base": TB_COMMON + [
        "IEEE-754 binary64: Lean's native Float (+ - * / floor round, Float.ofInt, toInt64) is assumed to coincide with Rust's f64 "
        "(checked bit-for-bit on every request of every run, not proved)",
        "chrono 0.4 NaiveDateTime + Duration arithmetic, field accessors and strftime (%Y %y %m %-m %d %-d %H %-H %I %-I %M %S %b %B %a %A %P): "
        "outside the model, represented by Umya.Spec.Calendar / Umya.Date.strftime and sampled by the correspondence stream",
        "fancy_regex stages of to_formatted_string/format_as_date are the identity on the modelled format alphabet "
        "(letters, - / : . , blank): assumed, sampled by the correspondence stream; other formats answer `unmodelled`",
        "Rust f64 Display/FromStr round trip (the cell value travels through to_string/parse twice inside get_formatted_value)",
        "floats travel as IEEE bit patterns (decimal u64) instead of shortest decimal text: Lean's Float.toString is not shortest-round-trip; "
        "bit equality is strictly finer",
    ],
    "assumptions": [
        "float step: the f64 evaluation of D + T/86400 and of the floor/fraction/round chain in excel_to_date_time_object behaves like exact "
        "arithmetic to the second for D <= 2958465 (error budget ~6e-5 s); supported by the exhaustive thorough-tier oracle, not proved",
        "dates 1900-01-01 .. 9999-12-31, times 00:00:00 .. 23:59:59 (the serial 60 = fictitious 1900-02-29 is outside the domain)",
        "1900 date system only (convert_date = convert_date_windows_1900); the 1904 branch is modelled and compared but has no theorem",
    ],
    "partial_clauses": [
        "C18_time_float (round trip of the f64 code under a standard-model assumption on rounding errors): not attempted; "
        "C18_time_exact / C18_roundtrip_exact are about exact fixed-point arithmetic, the f64 step is harness-oracle only",
        "strict monotonicity of the f64 serial: proved for the exact (day, second) pair (C18_monotone); for the rounded f64 value only "
        "checked by the oracle (next second has a strictly larger serial)",
        "display of date-formatted cells: no theorem; model of the replacement tables + strftime subset compared with the implementation, "
        "and the harness checks yyyy-mm-dd hh:mm:ss, yyyy-mm-dd, dd/mm/yyyy, yyyy/mm/dd, d/m/yy, h:mm:ss against its own rendering",
    ],
    "technique": "Lean 4 proof over Int (omega with isolated divisions) + bit-exact differential check with native doubles",
    "timeout_thorough": 3000,
    "driver_timeout": 3000,
}
