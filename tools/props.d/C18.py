PROP = {
    "thm": ["Umya.Thm.C18", "Umya.Thm.C18Gen", "Umya.Thm.C18Float", "Umya.Thm.C18Display", "Umya.Thm.C18Syntax"],
    "harness": "c18",
    "level": "proof",
    "stateful": False,
    "level_text": "Proof for the integer part: convert_date_crate (checked i32 arithmetic, literal to_string()[0..2]/[2..4] slicing, "
                  "1900 leap window) is modelled in Lean; its day count is proved equal to an independent proleptic-Gregorian day count "
                  "(Hinnant closed forms, themselves proved mutually inverse, valid and strictly monotone for all integers / all valid dates) "
                  "minus the day number of 1899-12-30 (one less before 1900-03-01), panic-free on 1900-01-01..9999-12-31, and strictly "
                  "increasing in (date, second). excel_to_date_time_object is modelled generically over a float interface; the round trip "
                  "to the second is proved for the exact-arithmetic instance (C18_time_exact / C18_roundtrip_exact) AND for every instance "
                  "that satisfies the standard model of binary64 arithmetic (StdModel: + - * / exact times 1+delta, |delta| <= 2^-53, "
                  "mul/div plus |eta| <= 2^-1074 in the subnormal range, no overflow below 2^1023, floor/round/ofInt/lt/as-i64 exact): "
                  "C18_serial_float_error (|fl(D + fl(T/86400)) - (D + T/86400)| <= 2958469*2^-53), C18_monotone_float, "
                  "C18_time_float / C18_time_float_near / C18_time_float_1900, C18_convert_epoch_float, C18_roundtrip_float. "
                  "Display: for a decidable class of format codes (SimpleDateCode: token lists yyyy yy mmmm mmm mm m dddd ddd dd d hh h mm(minutes) ss, "
                  "the 12-hour tokens h / hh with AM/PM, and separators, that the modelled replacement tables read the way the tokens mean; 27 codes incl. "
                  "built-in ids 14 15 16 17 18 19 20 21 22 30 45 shown members by kernel evaluation) the text is proved to be, token by token, what Excel's "
                  "rule says of civilFromDays(day) / of the second: digits, English month and weekday names (weekday from the day number, 1970-01-01 = Thursday), "
                  "(C18_date_display, _float, _convert; codes without AM/PM), by induction over the token list. With AM/PM: 12-hour clock (0,12 -> 12; 13..23 -> 1..11) "
                  "and AM before noon proved, but the marker comes out am / pm, not AM / PM (C18_date_display_ampm_partial, _ampm_float_partial, "
                  "_ampm_convert_partial; refutation of the capital marker C18_ampm_case_fails, replayed by the harness). "
                  "SYNTACTIC CRITERION: SimpleSyntax (decidable, evaluates no table: cut the list at - , blank; each piece a word of a generated vocabulary "
                  "= field alone | h:mm | h:mm:ss | mm:ss | 2..3 of year/month/day each once joined by / or by .; 12-hour tokens iff AM/PM present) implies "
                  "SimpleDateCode for lists of ANY length (C18_simple_syntax_sound): induction over the separators through all 21+2 str::replace passes "
                  "(C18_replace_split: a pass cannot see across a character its pattern does not contain), the ~180 words per clock mode validated once by "
                  "kernel evaluation. C18_date_display_syntax / _syntax_ampm_partial state the display for that infinite class. The model is tied to the code by a differential "
                  "check on every run (bit-exact f64 comparison, native IEEE doubles on the Lean side).",
    "level_note": "The float theorems are RELATIVE to StdModel (and, at 1900-01-01T00:00:00 only, ExactRepr = an add/div whose exact result is a "
                  "float returns it): hypotheses about IEEE-754 binary64, not proved of any concrete type. Lean's native Float (what the driver "
                  "executes) is opaque to the kernel, so 'Float / Rust f64 satisfy StdModel' is an assumption; the driver's Float results are "
                  "compared bit-for-bit with Rust on every request, and the harness oracle checks the round trip / monotonicity of the f64 "
                  "results (every 97th day x 5 times + 86 400 seconds per quick run; every day x 5 times + 12 x 86 400 seconds per thorough run). "
                  "Non-vacuity: exact rationals (stdModel_rat) and rationals with every + - * / off by the factor 1+2^-53 (stdModel_qup) are StdModels. "
                  "chrono's calendar is represented by the reference calendar and chrono's strftime by Umya.Date.strftime (trusted, sampled). "
                  "Which token lists are SimpleDateCodes is decided per list by running the model of the tables, or by the sufficient syntactic criterion SimpleSyntax "
                  "(C18_simple_syntax_sound); no complete characterisation is proved.",
    "expect_theorems": ["C18_date_fns_match_source", "C18_tables_match_source", "C18_days", "C18_days_1900", "C18_monotone", "C18_civil_roundtrip", "C18_civil_roundtrip_inv",
                        "C18_civil_valid", "C18_civil_monotone", "C18_convert", "C18_time_exact", "C18_time_exact_no_loss",
                        "C18_roundtrip_exact",
                        "C18_serial_float_error", "C18_monotone_float", "C18_time_float_near", "C18_time_float", "C18_time_float_1900",
                        "C18_convert_epoch_float", "C18_roundtrip_float",
                        "C18_date_display", "C18_date_display_unchecked", "C18_date_display_float", "C18_date_display_convert", "C18_date_display_notrim", "C18_date_display_iso",
                        "C18_simple_codes",
                        "C18_date_display_ampm_partial", "C18_date_display_ampm_float_partial", "C18_date_display_ampm_convert_partial",
                        "C18_date_display_ampm_notrim", "C18_simple_codes_names", "C18_ampm_case_fails",
                        "C18_simple_syntax_sound", "C18_replace_split", "C18_date_display_syntax", "C18_date_display_syntax_ampm_partial"],
    "rule": "quick: every 97th day 1900-01-01..9999-12-31 x {00:00:00, 00:00:01, 11:59:59, 12:00:00, 23:59:59}; every second of one "
            "representative day (chosen by seed); 178 boundary years x 9 month/day corners x 5 times (year ends, Feb 28/29, Mar 1, all century years, "
            "1900-02-28/03-01); malformed arguments (year < 1000, > 9999, negative, i32 extremes; month/day/time out of range; i32 overflow "
            "boundaries); 40 000 arbitrary serials -> date-time (fractions off the second grid, +-1 ulp around integers, < 1, 59.x, 60.x, "
            "negative, NaN, inf); formatted display of a numeric cell for 22 date formats over every 776th day + all seconds/9 of one day + "
            "19 formats outside the modelled fragment; 600 (thorough 4000) random members of the syntactic class SimpleSyntax (1..6 vocabulary words joined by "
            "- , blank, a third of them with AM/PM and 12-hour tokens; generated and re-tokenised on the Rust side) x 3 random (day, second) each, compared with the "
            "harness's own token-by-token text (counters syntax.code, syntax.lenNN, ampm.marker-lowercase / ampm.marker-capitals, ampm.witness-lowercase = the "
            "witness of C18_ampm_case_fails); membership of each random code, of one mutated neighbour of it (a character replaced / removed / doubled) and of 65 fixed "
            "codes in SimpleSyntax asked of both sides (c18 syn: harness tokeniser vs the Lean predicate; counters syn.member / syn.non-member); each of the 27 SimpleDateCodes of C18_simple_codes / C18_simple_codes_names (harness SIMPLE_CODES) over every 4656th day "
            "(offset by code and seed; thorough: every 776th) x rotating times, 4 boundary days x 3 times and every 997th (thorough: 13th) second of "
            "a representative day, compared with the harness's own token-by-token text (counters fmt.<code>, simple.<code>). thorough: every day x 5 times and every second of 12 days as batches of 10^4 / 8640 "
            "(rolling hash of bit patterns and read-back fields on both sides; the oracle is evaluated per item), plus the quick streams "
            "with 10x the random volume. non-trivial = valid in-domain date/time (ser), in-domain serial away from a rounding tie (dt), "
            "format with a harness-side expected text (fmt); distinct = distinct request line",
    "trusted_base": TB_COMMON + [
        "IEEE-754 binary64: Lean's native Float (+ - * / floor round, Float.ofInt, toInt64) is assumed to coincide with Rust's f64 "
        "(checked bit-for-bit on every request of every run, not proved)",
        "chrono 0.4 NaiveDateTime + Duration arithmetic, field accessors and strftime (%Y %y %m %-m %d %-d %H %-H %I %-I %M %S %b %B %a %A %P): "
        "outside the model, represented by Umya.Spec.Calendar / Umya.Date.strftime and sampled by the correspondence stream",
        "fancy_regex stages of to_formatted_string/format_as_date are the identity on the modelled format alphabet "
        "(letters, - / : . , blank): assumed, sampled by the correspondence stream; other formats answer `unmodelled`",
        "Rust f64 Display/FromStr round trip (the cell value travels through to_string/parse twice inside get_formatted_value)",
        "floats travel as IEEE bit patterns (decimal u64) instead of shortest decimal text: Lean's Float.toString is not shortest-round-trip; "
        "bit equality is strictly finer",
    ],
    "assumptions": [
        "IEEE-754 (float step): Rust's f64 operations + - * / floor round, i32 -> f64, f64 -> i64 and < (and Lean's native Float used by the driver) "
        "satisfy Umya.Lemmas.FloatStd.StdModel — each of + - * / returns the exact result times (1+delta), |delta| <= 2^-53 (mul/div: plus an absolute "
        "error <= 2^-1074 when the result is subnormal; exact results above 2^1023 are not covered), floor / round-half-away / conversion of integers "
        "up to 2^53 / comparison / truncation to i64 are exact on finite values — and, for 1900-01-01T00:00:00 only, ExactRepr (an add / div whose exact "
        "result is a float returns it). These are HYPOTHESES of C18_*_float theorems; Float is opaque to the Lean kernel, so the link between StdModel "
        "and the executed arithmetic is not proved (it is what IEEE-754 round-to-nearest guarantees, barring overflow)",
        "dates 1900-01-01 .. 9999-12-31, times 00:00:00 .. 23:59:59 (the serial 60 = fictitious 1900-02-29 is outside the domain)",
        "1900 date system only (convert_date = convert_date_windows_1900); the 1904 branch is modelled and compared but has no theorem",
        "display: chrono's strftime = Umya.Date.strftime on the specifiers %Y %y %m %-m %d %-d %H %-H %I %-I %M %S %b %B %a %A %P, and the regex stages of "
        "to_formatted_string / format_as_date are the identity on the SimpleDateCodes (both sampled by the fmt streams, not proved)",
        "display: the harness's vocabulary / tokeniser of the syntactic class (harness/src/c18.rs vocab, syntax_tokens) mirrors Umya.Lemmas.DateSyntax.vocab / "
        "simpleSyntax by hand; the two are compared on every run by the `c18 syn` requests (the Lean driver tokenises the code by vocabulary look-up and "
        "evaluates simpleSyntax itself: every generated code, one mutated neighbour of each, all fixed codes), so a generated code outside the Lean class is a disagreement",
    ],
    "partial_clauses": [
        "C18_time_float / C18_monotone_float / C18_roundtrip_float: proved for every float instance satisfying StdModel (an assumption about "
        "IEEE-754, see assumptions), not for Lean's Float or Rust's f64 themselves; the three floor results are not claimed exact, only the "
        "recomposed second count is. At 1900-01-01T00:00:00 (serial exactly 1 = threshold of `excel_timestamp < 1`) the error bounds alone do not "
        "decide the base date: that instant needs ExactRepr",
        "display: theorem only for SimpleDateCodes (27 codes shown members, incl. built-in ids 14 15 16 17 18 19 20 21 22 30 45, plus every list that "
        "satisfies SimpleSyntax); codes with the AM/PM marker: only the _partial theorems — the marker is shown am / pm where Excel shows AM / PM "
        "(C18_ampm_case_fails; the crate's own tests pin the lower-case text, so no fix was made: proposed known finding C18-ampm-lowercase); "
        "mmmmm (first letter of the month; the code maps it to %b = three letters), A/P, [h], .0, quoted and bracketed codes have no theorem "
        "(model-vs-implementation comparison only); SimpleSyntax is sufficient, not necessary: words mixing : with / or ., fields glued without "
        "separator, a repeated kind inside one /-word are outside it (decidable one by one with SimpleDateCode); the vocabulary words are validated "
        "by kernel evaluation of the tables (finite, once), only the joining by - , blank is by induction; the text is stated "
        "with the trimming of blanks at both ends that to_formatted_string performs (C18_date_display_notrim: it is the identity for codes that "
        "neither start nor end with a blank)",
    ],
    "technique": "Lean 4 proof over Int (omega with isolated divisions) + forward error analysis over Q under the standard model of binary64 (linarith) + induction over format tokens + bit-exact differential check with native doubles",
    "timeout_thorough": 3000,
    "driver_timeout": 3000,
}
