PROP = {
    "thm": ["Umya.Thm.C01", "Umya.Thm.C01Bytes", "Umya.Thm.C01Gen"],
    "harness": "c01",
    "level": "proof",
    "stateful": True,
    "level_text": "Proof on a hand-written model of the cell value codec AS FIXED (fix_1..fix_6): for every cell of every kind (blank, text, rich text with >=1 run, "
                  "number token, boolean, error, a value stored with set_value_lazy and never resolved), with or without a formula (also over a rich text: fix 5), styled or not, "
                  "anywhere in the grid, and for EVERY text over Unicode scalar values "
                  "(XML specials, CR/LF/TAB, C0 controls, U+FFFE, non-BMP; value text, run text and formula text alike): what Cell::write_to emits is turned back into the "
                  "same cell by Cell::set_attributes, an unresolved lazy value as the typed value guess_typed_data makes of its text (fix 6; Cell.resolved, C01_resolved) "
                  "(C01_cell_roundtrip); at package level, for any number of sheets and for both writers, the reloaded workbook is the "
                  "stored one without its blank unstyled cells, lazy values resolved, in order (C01_roundtrip, C01_normalize, C01_light_same); from the cell store to the reloaded cells via "
                  "C10's row-loop theorem (C01_sheet_roundtrip); quick-xml escaping laws (C01_unescape_escape, C01_unescape_partial_escape, C01_text_nodes). "
                  "The model is tied to the code on every run by a differential check of (a) the setters, (b) the facts read back from the saved package with a non-unescaping "
                  "scanner (r, t, s, raw <f>/<v>, the <si> list) against the model writer, (c) the real reader against the model reader on those same facts and on hand-made "
                  "packages (entities, character references, padding, inline strings, bad indices), and by the implementation-level oracle reloaded == stored.",
    "level_note": "Trusted: Lean kernel + 3 standard axioms; the hand model as exercised; XML as lexed facts (quick-xml's tag syntax / event splitting is modelled at fact level, "
                  "its escape/unescape/trim_text on characters); numbers are opaque tokens with print-then-parse = id as a hypothesis (Rust f64 Display/FromStr, sampled); "
                  "content hash of shared-string items assumed injective; run properties of rich text are an opaque token assumed to survive (C05).",
    "expect_theorems": ["C01_datatype_matches_source", "C01_bytes_text_identity", "C01_bytes_text_identity_conversion", "C01_bytes_attr_identity", "C01_channels_match_source", "C01_unescape_escape", "C01_unescape_partial_escape", "C01_text_nodes", "C01_cell_roundtrip", "C01_index_resolves",
                        "C01_roundtrip", "C01_light_same", "C01_normalize", "C01_sheet_roundtrip",
                        "C01_resolved", "C01_trimmed_read_fails", "C01_lazy_repaired", "C01_rich_under_formula_repaired", "C01_rich_no_runs_fails"],
    "rule": "workbooks (quick 300 / thorough 5000) of 1-4 sheets and 0-400 cells built through the public API (set_value, set_value_string, set_value_number, set_value_bool, "
            "set_rich_text, set_error, set_formula + cached result of every kind via setters or set_formula_result_default, set_blank, set_value_lazy, a bold style), positions biased to "
            "A1 / XFD1048576 / column-letter and row-digit boundaries, texts from the alphabet of DESIGN 2.5 plus leading/trailing/only blanks; each saved with BOTH writers into memory and "
            "reloaded with read_reader(.., true); then hand-made packages (quick 3000 / thorough 40000) for the reader alone; then batches of 500 doubles (quick 10^4 / thorough 10^6) "
            "through a one-column sheet compared bit for bit. The first workbook replays the witnesses of the six repaired defects (fix 5: rich text under a formula; fix 6: lazy 'abc', '123', "
            "'TRUE', '1e5', '' with and without a formula / a style) and of the known finding (rich text without runs, with and without a formula). A stored lazy value is compared with "
            "what the public resolver get_value_lazy makes of it (formula kept). "
            "non-trivial = the request returned (not a panic / bad-op); distinct = distinct request line",
    "trusted_base": TB_COMMON + [
        "quick-xml 0.37.5 escape / partial_escape / unescape / trim_text modelled from its source on characters; tag syntax and event splitting as lexed facts (the harness scanner and the synthesiser of hand-made parts are trusted code)",
        "Rust f64 Display/FromStr round trip and shape (hypothesis NumFmt.Sound; sampled on every run, 10^6 doubles in the thorough tier)",
        "str::to_uppercase modelled for ASCII plus U+017F and U+0131 (the only non-ASCII characters whose upper case is an ASCII letter)",
        "zip crate (reading the written package back, writing the hand-made ones)",
        "AHasher∘md5 content hash of shared-string items assumed injective (items are compared by content in the model)",
    ],
    "assumptions": ["NumFmt.Sound: parse (fmt n) = some n; fmt n is non-empty over -0123456789.eE+infNa",
                    "cells lie in 1..16384 x 1..1048576; the number of distinct shared strings is below 2^64",
                    "the value is not a rich text with zero runs (the known finding C01-rich-text-no-runs)",
                    "rich-text run properties are an opaque token that the <rPr> codec preserves (C05)"],
    "partial_clauses": ["'reload to the identical floating-point value' rests on the trusted f64 Display/FromStr round trip (numbers are opaque tokens in the proof); explored by the harness bit for bit",
                        "the zip container and part naming are outside this model (C02); both writers are covered because the cell codec does not see the compression method (C01_light_same is rfl on the model; tied by running both)",
                        "styles are a boolean 'style not empty' here (C05)"],
    "technique": "Lean 4 theorems on a model of the cell value codec (escape laws, per-cell and package round trip, C10 row loop) + differential check of written facts, reader and setters",
    "timeout_quick": 900,
    "timeout_thorough": 3600,
}
