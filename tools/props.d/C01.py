PROP = {
    "thm": ["Umya.Thm.C01", "Umya.Thm.C01Bytes", "Umya.Thm.C01Gen", "Umya.Thm.C01Chars"],
    "harness": "c01",
    "level": "proof",
    "stateful": True,
    "level_text": "Proof on a hand-written model of the cell value codec AS FIXED (fix_1..fix_6), END TO END through the CHARACTERS of the written parts: for every workbook of any number of "
                  "well-formed sheets (C10's coherence + grid limits) with cells of every kind (blank, text, rich text with >=1 run, number token, boolean, error, a value stored with set_value_lazy and never resolved), with or without a formula (also over a rich text: fix 5), "
                  "styled or not, one string table threaded through the sheets, and for both writers: the reader (independent XML 1.0 parse of the characters of every worksheet part and of the "
                  "shared-strings part, fact view of the element trees, C01's model of Cell::set_attributes / SharedStringItem::set_attributes) returns, per sheet and in order, exactly the stored "
                  "cells that are not blank-and-unstyled, an unresolved lazy value as the typed value guess_typed_data makes of its text (fix 6; Cell.resolved, C01_resolved), each with the same position, value kind, value text, number and formula text (C01_book_chars_roundtrip, C01_sheet_chars_roundtrip; composed from "
                  "the writer model, C02_bytes_parse and C01's fact-level round trip through C01_cell_fact_view / C01_cell_tree_roundtrip). The characters are those of ANY tree of writer calls that means the "
                  "rendered tree and consists of XML Names and XML 1.0 Chars (WF); for texts with other characters (U+0001 ...: the writer passes them through, an XML 1.0 reader rejects the part: "
                  "C01_non_xml_char_partial) and for the empty text cached under a formula (<v></v> = <v/> as trees: C01_empty_cached_text_same_tree) the fact-level theorems remain: for EVERY text over Unicode "
                  "scalar values what Cell::write_to emits is turned back into the same cell (lazy values resolved) by Cell::set_attributes (C01_cell_roundtrip), at package level C01_roundtrip, C01_normalize, C01_light_same, "
                  "C01_sheet_roundtrip (via C10's row loop); quick-xml escaping laws (C01_unescape_escape, C01_unescape_partial_escape, C01_text_nodes). "
                  "The model is tied to the code on every run by a differential check of (a) the setters, (b) the facts read back from the saved package with a non-unescaping scanner against the model writer, "
                  "(c) the real reader against the model reader on those facts and on hand-made packages, (d) NEW, per saved package: the characters of the model's <sheetData> (real row table, model cells, "
                  "writeCells) and of every <si> of the model's final table are character-identical to the real parts (whose recovered writer calls re-render to the part and satisfy WF), and the composed function "
                  "of the theorems (readBookChars) run on the REAL characters returns the cells the library reloaded; workbooks holding a non-XML character go through (d) without the cells that hold one, and "
                  "their original parts are checked to be rejected by the XML 1.0 reader; and by the implementation-level oracle reloaded == stored.",
    "level_note": "Trusted: Lean kernel + 3 standard axioms; the hand model as exercised. The tag syntax of quick-xml's WRITER is modelled at character level (Model/XmlWrite, C02_writer_matches_source) and "
                  "closed by C02_bytes_parse; on the READER side the characters go through the independent XML 1.0 reader and the fact view of its trees, not through a model of quick-xml's event reader "
                  "(its escape/unescape/trim_text are modelled on characters; its tokenisation is tied by legs (c) and (d)); numbers are opaque tokens with print-then-parse = id as a hypothesis "
                  "(NumFmt.Sound: Rust f64 Display/FromStr, checked on every number a generated cell holds and on 10^4 / 10^6 doubles per run); content hash of shared-string items assumed injective; run properties of rich "
                  "text are an opaque token of which the character-level statements keep only the presence (cells compared up to eraseFonts; C05 has the <rPr> codec); the worksheet frame (children other than "
                  "sheetData / mergeCells / hyperlinks) is opaque, in schema order (Frame.ok, evaluated per file by the C02 sheet bridge).",
    "expect_theorems": ["C01_datatype_matches_source", "C01_bytes_text_identity", "C01_bytes_text_identity_conversion", "C01_bytes_attr_identity", "C01_channels_match_source", "C01_unescape_escape", "C01_unescape_partial_escape", "C01_text_nodes", "C01_cell_roundtrip", "C01_index_resolves",
                        "C01_roundtrip", "C01_light_same", "C01_normalize", "C01_sheet_roundtrip",
                        "C01_cell_fact_view", "C01_si_fact_view", "C01_cell_tree_roundtrip", "C01_obs_erase",
                        "C01_sheet_chars_roundtrip", "C01_sheet_chars_roundtrip_default", "C01_book_chars_roundtrip",
                        "C01_non_xml_char_partial", "C01_empty_cached_text_same_tree",
                        "C01_resolved", "C01_trimmed_read_fails", "C01_lazy_repaired", "C01_rich_under_formula_repaired", "C01_rich_no_runs_fails"],
    "rule": "workbooks (quick 300 / thorough 5000) of 1-4 sheets and 0-400 cells built through the public API (set_value, set_value_string, set_value_number, set_value_bool, "
            "set_rich_text, set_error, set_formula + cached result of every kind via setters or set_formula_result_default, set_blank, set_value_lazy, a bold style), positions biased to "
            "A1 / XFD1048576 / column-letter and row-digit boundaries, texts from the alphabet of DESIGN 2.5 plus leading/trailing/only blanks; each saved with BOTH writers into memory and "
            "reloaded with read_reader(.., true); then hand-made packages (quick 3000 / thorough 40000) for the reader alone; then batches of 500 doubles (quick 10^4 / thorough 10^6) "
            "through a one-column sheet compared bit for bit; per saved package the character-level leg (c01 chars / charsorig). The first workbook replays the witnesses of the six repaired defects (fix 5: rich text under a formula; fix 6: lazy 'abc', '123', "
            "'TRUE', '1e5', '' with and without a formula / a style) and of the known finding (rich text without runs, with and without a formula). A stored lazy value is compared with "
            "what the public resolver get_value_lazy makes of it (formula kept). "
            "non-trivial = the request returned (not a panic / bad-op); distinct = distinct request line",
    "trusted_base": TB_COMMON + [
        "quick-xml 0.37.5 escape / partial_escape / unescape / trim_text modelled from its source on characters; its Writer's tag syntax modelled on characters (Model/XmlWrite); its Reader's event splitting as lexed facts in the fact-level theorems (the harness scanner and the synthesiser of hand-made parts are trusted code) and replaced by the independent XML 1.0 reader of Spec/XmlLex in the character-level theorems",
        "Rust f64 Display/FromStr round trip and shape (hypothesis NumFmt.Sound; sampled on every run, 10^6 doubles in the thorough tier)",
        "str::to_uppercase modelled for ASCII plus U+017F and U+0131 (the only non-ASCII characters whose upper case is an ASCII letter)",
        "zip crate (reading the written package back, writing the hand-made ones)",
        "AHasher∘md5 content hash of shared-string items assumed injective (items are compared by content in the model)",
    ],
    "assumptions": ["NumFmt.Sound: parse (fmt n) = some n; fmt n is non-empty over -0123456789.eE+infNa",
                    "cells lie in 1..16384 x 1..1048576; the number of distinct shared strings is below 2^64",
                    "the value is not a rich text with zero runs (the known finding C01-rich-text-no-runs)",
                    "rich-text run properties are an opaque token that the <rPr> codec preserves (C05)",
                    "character-level theorems only: every character of every text, formula and attribute value is an XML 1.0 Char (WF of the writer-call tree; refuted beyond it by C01_non_xml_char_partial); the value is not the empty text cached under a formula (charsOK; C01_empty_cached_text_same_tree); Frame.ok for the opaque worksheet children"],
    "partial_clauses": ["'reload to the identical floating-point value' rests on the trusted f64 Display/FromStr round trip (numbers are opaque tokens in the proof; one hypothesis, NumFmt.Sound); checked by the harness bit for bit on every number a generated cell holds (numfmt.checked) and on the nums batches",
                        "'every workbook that can be built through the public API': texts with characters outside XML 1.0 Char (U+0000-U+0008, U+000B, U+000C, U+000E-U+001F, U+FFFE, U+FFFF) are covered at fact level only (C01_cell_roundtrip, C01_roundtrip: quick-xml's reader does not check character legality and the round trip holds); at character level the written part is not well-formed XML 1.0 and the independent reader rejects it (C01_non_xml_char_partial; counted per run: chars.books.nonxml, chars.nonxml.parts)",
                        "a formula whose cached value is the EMPTY text is covered at fact level only: <v></v> and <v/> are the same element tree (C01_empty_cached_text_same_tree)",
                        "the reader side of the character-level theorems is C01's reader on the fact view of XML 1.0 trees, not a model of quick-xml's tokeniser; trim_text on raw bytes vs on values differs only for blanks written as character references, which the writers never emit into a trimmed element (hand-made parts: leg (c))",
                        "the zip container and part naming are outside this model (C02); both writers are covered because the cell codec does not see the compression method (C01_light_same is rfl on the model; tied by running both)",
                        "styles are a boolean 'style not empty' here (C05); rich-text run properties only as present / absent at character level"],
    "technique": "Lean 4 theorems on a model of the cell value codec (escape laws, per-cell and package round trip, C10 row loop), composed through the characters of the written parts (writer model + C02_bytes_parse + fact view) + differential check of written facts, written characters, reader and setters",
    "timeout_quick": 900,
    "timeout_thorough": 3600,
}
