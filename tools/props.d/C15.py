PROP = {
    "thm": ["Umya.Thm.C15", "Umya.Thm.C15Gen", "Umya.Thm.C15Xml", "Umya.Thm.C15Flags"],
    "harness": "c15",
    "level": "proof",
    "stateful": False,
    "level_text": "Proof relative to abstract primitives: convert_password_to_hash, the three encrypt_*_protection setters and the "
                  "attribute writer/reader of SheetProtection / WorkbookProtection are modelled in Lean (salt as a parameter); the "
                  "stored hash equals the ECMA-376 iteration written independently from the standard for ALL passwords, salts and "
                  "spin counts (induction on the spin count); verification with the same password succeeds, with a password whose "
                  "digest differs fails; no legacy attribute / raw value survives; write->read returns the same state, on the attribute lists with the "
                  "library's reader (C15_roundtrip) AND through the characters of the part (C15_roundtrip_xml_sheet / _workbook: record -> writer "
                  "calls of writer/driver.rs with attribute escaping -> characters -> the independent XML 1.0 reader of Spec/XmlLex -> first child "
                  "of that name -> set_attributes = the C06 codecs; algorithm name, salt, spin count, hash come back, no legacy attribute is among "
                  "the attributes read; the element may stand anywhere among the root's children). The model is "
                  "tied to the code on every run through the real public setters, a real save and reload, and a cfg(umya_verif) hook "
                  "for the private hash function; the harness oracle recomputes every hash with the sha2 crate from the standard. "
                  "The composition of C15_roundtrip_xml_* is re-run on the saved parts: every `stored` line carries the characters of the real "
                  "xl/worksheets/sheet1.xml (kind sheet) or xl/workbook.xml (kinds workbook, revisions) written after the real setter; the driver applies "
                  "Spec.Xml.parse (the XML 1.0 reader of the theorems) to them, takes root.kid? \"sheetProtection\" / \"workbookProtection\", runs "
                  "AnnotProt.SheetProtection.read / WorkbookProtection.read (set_attributes) and the compared reply states (read) the hash fields read = "
                  "the real getters after the setter = the model's setter on the same salt (for the workbook element the whole record read = the model's "
                  "record), (tree) the element found = .elem name (render x.fields) [] for the model's record x, (chars) renderNode (.empty name (render "
                  "x.fields)) - the theorem's writer call with attribute escaping - occurs in the real characters of the part, (flags) the options present "
                  "(counters xmlpart.sheet-part-sent / xmlpart.workbook-part-sent). "
                  "Option switches (Thm/C15Flags.lean): the sixteen SheetProtection::set_<flag> and the three WorkbookProtection::set_lock_* are compiled "
                  "from the current source on every run (&mut self as state passing over ALL 21 / 13 fields of the struct, each a value-holder record "
                  "generated from StringValue / UInt32Value / BooleanValue) and proved equal to the hand model's setFlag (Model/PwHashFlags.lean over the "
                  "records of Model/AnnotProt.lean) for every prior state and value (C15_flag_setters_match_source: some v in the flag's own field, every "
                  "other field as before); C15_flag_setters_keep_verifier: algorithmName / hashValue / saltValue / spinCount / password (workbook: the five "
                  "of each kind) and every other flag are untouched by a flag setter.",
    "level_note": "SHA-512 and base64 are NOT proved: theorems quantify over an abstract Prims value with explicit hypotheses "
                  "(unb64 (b64 x) = some x; base64 text needs no XML escaping; digest-distinctness for 'another password fails'). "
                  "The executable Lean SHA-512/base64 used by the driver are validated by FIPS 180-4 / RFC 4648 vectors and by agreeing "
                  "with the Rust sha2 crate on every line.",
    "expect_theorems": ["C15_constants_match_source", "C15_hash_fn_matches_source", "C15_setters_match_source", "C15_flag_setters_match_source", "C15_flag_setters_keep_verifier", "C15_hash", "C15_verifies", "C15_other_fails", "C15_no_clear", "C15_roundtrip",
                        "C15_roundtrip_xml_sheet", "C15_roundtrip_xml_workbook", "C15_no_legacy_attr_xml"],
    "rule": "hook stream: every password x spin in {0,1,2,3,10,257} x salt shape (empty / 16 random / 16 x 0xff / 1..40 random) plus a few "
            "at spin 100000; setter stream: every password (empty, ASCII, 1 char, XML-special, BMP scripts, non-BMP, 255 x ASCII, 255 mixed "
            "incl. non-BMP; thorough: 60 incl. random over a special alphabet) x 3 kinds x pre-state (fresh / legacy raw hash / old hashed "
            "values + legacy) cycling; each setter case = set, observe getters, second call (fresh salt), save to memory, scan XML "
            "attributes and all parts, reload, observe again. distinct = distinct request line; non-trivial = the implementation returned "
            "a value (no panic / error)",
    "trusted_base": TB_COMMON + [
        "SHA-512 / base64 as abstract primitives with stated laws; Lean executable versions validated by test vectors + differential agreement with sha2/base64 crates",
        "quick-xml attribute escaping modelled (five characters); the zip container and the rest of the writer/reader are exercised, not modelled",
        "the sixteen/three boolean option attributes of the protection elements are outside the password model (PwHash); their SETTERS are compiled from "
        "the source and tied to Model/PwHashFlags.lean (C15_flag_setters_match_source: BooleanValue::set_value read as `self.value = Some(value)` from its "
        "source file, anything else = fallback); their writer / reader is the C06 codec (AnnotProt), tied by behaviour",
        "cfg(umya_verif) hook verif_convert_password_to_hash is an add-only wrapper of the private function",
        "translator tie (C15_hash_fn_matches_source, C15_setters_match_source): convert_password_to_hash, hash and the three encrypt_*_protection setters are "
        "compiled from the current source and proved equal to the model for all arguments; read as externs: the Sha512 hasher (bytes fed so far, finalize = "
        "sha512), base64, gen_random_16; the protection object is a field store (rt_Obj) whose setters are resolved by reading the struct's source file "
        "(StringValue / UInt32Value set_value / remove_value modelled as field updates)",
    ],
    "assumptions": ["P.unb64 (P.b64 x) = some x", "base64 text contains none of < > & ' \"",
                    "C15_other_fails: the iterated digests of the two passwords differ (SHA-512 collision-freedom is a hypothesis)",
                    "C15_roundtrip: kinds not being set hold XML-safe text (the reader does not un-escape attributes) and spin counts < 2^32",
                    "C15_roundtrip_xml_*: base64 text consists of XML characters (B64Xml P; a theorem for the executable base64: C14_base64_plain); the rest of "
                    "the part is well formed for the writer (Names, distinct attribute names, XML characters: Around.ok) and has no earlier sibling element of "
                    "the same local name; for <workbookProtection> the kind not being set holds XML characters and a spin count < 2^32 (xmlFields; any "
                    "characters incl. & < \" are allowed there: the writer escapes, the XML reader unescapes)"],
    "partial_clauses": [
        "salt freshness (getrandom) is not a functional property: explored by the harness (two calls differ), not proved",
        "textual absence of the clear password from every part of the saved zip: harness scan only (passwords of >= 8 bytes); the theorem "
        "C15_no_clear states absence of the legacy field/attribute and non-interference (state depends on the password only through the digest)",
        "C15_roundtrip_xml_*: the composition is re-run on the characters of the ONE part that holds the element (sheet1.xml / workbook.xml of a new_file() "
        "workbook with two / one boolean options switched on); the boolean options compared are the ones read from that part (outside the C15 model; their "
        "presence is stated by the harness: sheet=1,objects=1 / lockStructure=1); the rest of the part (Around) is only parsed, its writer calls are tied by C02",
        "replay of a lone `stored` line assembles the object from the hook's hash with the public field setters (the public password setter cannot be given a salt)",
    ],
    "technique": "Lean 4 proof over a hand model (abstract SHA-512/base64) + differential check through public setters, save/reload and a hook",
    "timeout_quick": 600,
}
