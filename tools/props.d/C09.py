PROP = {
    "thm": ["Umya.Thm.C09", "Umya.Thm.C09Lex", "Umya.Thm.C09LexWF"],
    "harness": "c09",
    "level": "proof",
    "stateful": False,
    "ulimit_kb": 3_000_000,
    "timeout_quick": 600,
    "case_timeout": 30,
    "level_text": "Proof about a hand-written executable model of helper/formula.rs AS FIXED by the fix_1..fix_9 series and f50ad32 (array constants) "
                  "(tokenizer passes, render, the three adjust functions), tied to the code by a differential check on every run "
                  "(token lists and rendered text compared for every request). Reference-level theorems are at full strength; "
                  "whole-formula theorems are partial (see partial_clauses).",
    "level_note": "Trusted: Lean kernel + 3 standard axioms; the hand model's faithfulness as exercised by the correspondence stream; "
                  "fancy_regex on the coordinate regex (modelled in C17); Rust f64 FromStr acceptance grammar (modelled, sampled); "
                  "ASCII-only upper-casing.",
    "expect_theorems": ["C09_kernels_match_source", "C09_tables_match_source", "C09_terminates", "C09_terminates_fails", "C09_lex_invariant", "C09_lex1_render", "C09_no_panic", "C09_clean_partial", "C09_no_panic_ast", "C09_identity_partial", "C09_translate_ref", "C09_translate_nonref", "C09_translate_partial", "C09_lex_print", "C09_identity_print", "C09_translate_text", "C09_lex_print_wf", "C09_identity_print_wf", "C09_translate_text_wf"],
    "rule": "formulas generated from the AST grammar of the property (depth <= 6, <= 110 chars; operators incl. two-character comparators, "
            "unary +/-, %, nested calls with empty arguments, parenthesised unions, intersections, string literals with embedded quotes, "
            "numbers incl. scientific, booleans, all 7 error literals, names incl. ones that start like a coordinate, relative/absolute/mixed "
            "cells and ranges, whole rows/columns, boundary coordinates XFD1048576, unquoted/quoted sheet qualifiers with blanks, apostrophes, "
            "'!', '\"', external-workbook prefixes, structured references, array constants), optional blanks at every position where they are "
            "not intersections, leading/trailing blanks; ops: tokenize+render (hook), Cell::set_coordinate to itself and by (dc,dr) incl. grid "
            "boundary targets, adjustment_formula_coordinate with arbitrary offsets, Worksheet::insert_new_row far below; plus a malformed stream "
            "(curated + random over the lexer's special characters) compared model-vs-implementation only. distinct = distinct request line; "
            "non-trivial = the implementation returned tokens/text (not a panic / empty token list)",
    "trusted_base": TB_COMMON + [
        "fancy_regex on the coordinate regex: hand-written matcher (C17), tied behaviourally",
        "Rust str::parse::<f64> acceptance grammar (core::num::dec2flt): modelled by parseF64Ok, tied behaviourally",
        "ASCII to_uppercase / to_lowercase only",
        "the oracle's AST printer / translate (harness/src/fx.rs) — independent of the crate",
    ],
    "assumptions": ["ranges are written normalised (first corner <= second corner), as Excel writes them",
                    "sheet names in quotes do not begin with an apostrophe-only ambiguity: quoted names are printed with doubled apostrophes"],
    "partial_clauses": ["C09_identity: proved = rendered text is the input with only blanks deleted (BlankErasure), for every input accepted by the independent scanner Spec.Clean, side condition: no function name starts with @; NOT proved for arbitrary Clean input = re-tokenising the rendered text gives the same token list (harness oracle 'retokenize-differs'); for printed expressions of the LexOk fragment it IS proved: the token list of print e is tokensOf e (C09_lex_print), it renders back to print e and re-tokenises to the same list (C09_identity_print); the same with LexOk' (references well-formed, nothing assumed about how pass 3 classifies their text): C09_lex_print_wf, C09_identity_print_wf", "C09_clean: proved for every AST without opaque atoms (structured references), array constants of numbers / negative numbers / strings / booleans / errors included; structured / unquoted external references are tied to Spec.Clean by the 'clean' requests of the correspondence stream only", "C09_translate: proved at reference level for every well-formed reference and every (dc,dr) (C09_translate_ref), for token lists (C09_translate_partial), and for whole texts: setCoordinate (print e) dc dr = print (translate e dc dr) for every e with LexOk e and RefsOk e (C09_translate_text, via C09_lex_print: parse('=' ++ print e) = tokensOf e). LexOk (explicit, on the leaves): no intersection, array constant or structured reference anywhere in e; numbers are texts of ordinary characters accepted by parse::<f64> (no exponent sign: 1E+5 is cut in three by the tokenizer); names / function names / unquoted sheet qualifiers are non-empty texts of ordinary characters; names are not f64 / TRUE / FALSE; reference texts are not f64 / TRUE / FALSE - a hypothesis inside LexOk, DISCHARGED in the _wf forms: C09_lex_print_wf / C09_identity_print_wf / C09_translate_text_wf take LexOk' (= LexOk with r.WF on every reference instead of that conjunct), LexOk' e -> LexOk e is proved (isRangeText_of_WF: the text of every well-formed cell / range / whole-column / whole-row reference, any $ flags, no / plain / quoted qualifier, is rejected by the modelled f64 grammar and is not TRUE / FALSE; by a decomposition of parseF64Ok: an accepted text is a signed nan / inf / infinity or starts with a digit, '.', or sign and consists of digits . e E + -); function names do not start with @. RefsOk: references well-formed, names inert (no '!', no colon-separated piece that parses as a corner). NOT proved = the same for expressions with intersections (pass 2), array constants, structured references, and for texts with optional blanks - correspondence check + harness oracle only; the share of generated expressions with LexOk is counted per run (tag.lexok / tag.lexok-not) and their exact printed text goes through both tokenizers (tag.lexprint)", "array constants are inside Spec.Clean and the AST grammar since fix f50ad32 (C09_no_panic, C09_identity_partial, C09_clean_partial cover them; the token mark is observed through the verif_array_part hook); '@' prefixes are outside the property grammar (pass 3 strips '@' from function names: =@SUM(A1) loses it - seen, not in the generated grammar)"],
    "technique": "Lean 4 proof on an executable model + differential correspondence on every run",
}
