PROP = {
    "thm": "Umya.Thm.C16",
    "frame_shared_state": True,
    "harness": "c16",
    "level": "proof",
    "stateful": False,
    "timeout": 1500,
    "timeout_thorough": 3000,
    "level_text": "Proof at the granularity of shared-string-table operations: savers are programs of atomic steps (registrations, final dump) over tables private "
                  "to each save (the code after the per-save-table fix); for ANY number of savers, ANY string lists and ANY schedule in which a saver finishes, "
                  "its output equals its solo output (C16_any_schedule, by showing that other savers' steps do not touch it), decodes to its own strings "
                  "(C16_decodes), and every partial schedule extends to a complete one (C16_progress). Tie: real threads serialised at cfg(umya_verif) yield "
                  "points by a cooperative scheduler; ALL interleavings of 2 savers with <=2 strings (sampled for 3 strings / 3 savers in quick, all in thorough); "
                  "each output compared with the model and with a solo save; watchdog for deadlock.",
    "level_note": "Trusted: Lean kernel + 3 standard axioms; hand model; the yield hooks mark every shared-string step (checked: the observed tag sequence per saver "
                  "must be enter, register*k, dump, exit). Real lock poisoning, OS scheduling inside a segment and data races below the yield granularity are outside the model.",
    "expect_theorems": ["C16_any_schedule", "C16_any_schedule_loaded", "C16_loaded_prefix", "C16_decodes", "C16_progress"],
    "rule": "enumerated schedules (strings over saver numbers) for fixed configurations: same object via shared reference / clones; equal, disjoint, overlapping, "
            "reordered and empty string sets; 2 and 3 savers. non-trivial = every schedule (two or three real saves run under it); distinct = distinct request line",
    "trusted_base": TB_COMMON + ["verification hooks umya_spreadsheet::verif_hooks::yield_point at Cell::write_to registration, shared_strings::write dump, make_buffer entry/exit",
                                 "std::thread, Mutex/Condvar of the harness scheduler"],
    "assumptions": ["atomicity of one registration / the dump (each is a single table operation in the code)"],
    "partial_clauses": ["free-running (unscheduled) stress and lock poisoning are not modelled"],
    "technique": "Lean 4 non-interference theorem over arbitrary schedules + exhaustive schedule enumeration on real threads via yield hooks",
}
