PROP = {
    "thm": "Umya.Thm.C11",
    "harness": "c11",
    "level": "proof",
    "stateful": True,
    "case_timeout": 180,
    "timeout_quick": 900,
    "timeout_thorough": 3400,
    "level_text": "Proof on a model of lazy loading and of the per-sheet branch of the writer (package skeleton level). A sheet is raw (bytes + "
                  "relationship closure) or deserialized; the decoder, the edits, what a sheet registers in the workbook-level tables and what its "
                  "serialiser asks the writer manager for are parameters, so the theorems hold for every decoder. Proved for ALL histories of "
                  "read_sheet / get_sheet_mut / get_sheet_by_name_mut / read_sheet_collection / edits / new_sheet / remove_sheet(_by_name) / "
                  "set_sheet_name / workbook-level insert-remove: the eager workbook is the lazy one with everything deserialized, same replies, every "
                  "deserialized sheet equal (C11_view*), order independence of accesses, the tables a raw sheet indexes into are never changed in "
                  "memory and are prefixes of the written ones (C11_tables_only_grow, C11_tables_indices_stable), part names unique "
                  "(C11_save_names_unique), every position has exactly its sheet part with the raw bytes or the serialised in-memory content and "
                  "workbook.xml lists the sheets in order (C11_save_sheet_parts), every relationship of every relationships part resolves (C11_save_resolves). The repaired defect is refuted on a decided witness "
                  "(C11_old_rels_fails, C11_old_rels_lost) and the fixed writer is decided on the same witness (C11_new_rels_witness). The tie: corpus and "
                  "generated files opened lazily and eagerly, every request applied to both; raw/deserialized flags, names, edited cells and the complete "
                  "per-sheet package skeleton of every save (part names, every relationships part with resolved targets) are compared line by line "
                  "with the model; an independent skeleton validator, byte comparison of copied sheets and their closure, and reload-and-compare "
                  "against the eager workbook's save are the implementation-level oracle.",
    "level_note": "Trusted: Lean kernel + 3 standard axioms; hand model as exercised by the correspondence stream; part names are parsed into a "
                  "structured form by the driver (canonical digits; two texts equal iff the structured names are); the serialiser's request profile of a "
                  "deserialized sheet is measured on the eager workbook's own save and fed to the model (it predicts the names under a different "
                  "allocation context); sheet decoding itself is C03's subject, serialisation round trip C01-C06's: differences that the eager "
                  "workbook's save shows as well are counted as inherited and not charged to C11.",
    "expect_theorems": ["C11_view", "C11_view_replies", "C11_view_state", "C11_access_loads", "C11_order_independent",
                        "C11_tables_only_grow", "C11_tables_indices_stable",
                        "C11_save_names_unique", "C11_save_sheet_parts", "C11_save_resolves", "C11_save_partial",
                        "C11_old_rels_fails", "C11_old_rels_lost", "C11_new_rels_witness"],
    "rule": "files: 8 corpus files (quick) / the whole corpus (thorough) + library-generated multi-sheet files (comments, tables, merges, external "
            "hyperlinks, charts whose series live on another sheet), each also with its sheet parts renamed so that part number != position; "
            "per file 40 (quick) / 24-40 (thorough, all 55 corpus files + 20 generated) histories: ALL ordered subsets of sheets to materialise for files with <= 4 sheets, random orders "
            "for more; accesses through read / getmut / byname / edit; interleaved style edits, new_sheet, remove_sheet(_by_name), rename, workbook-level "
            "insert/remove rows, read_sheet_collection; saves in the middle and at the end; dumps of every sheet; boundary indices. "
            "non-trivial = the request changed or observed state (ok replies, dumps of deserialized sheets, saves); distinct = distinct request line "
            "(reset and save lines carry the file / profile description). The witness of the repaired defect is replayed first on every run.",
    "trusted_base": TB_COMMON + [
        "zip + quick-xml (harness-side skeleton reader of the written package, independent of the crate's reader)",
        "Debug formatting of the crate's public structures as the per-section sheet dump (sorted where a HashMap is involved)",
        "driver-side parser/printer of part names (structured PName <-> text)",
    ],
    "assumptions": [
        "no part in a raw sheet's closure, and no fixed-name part requested by a serialiser, is named like a sheet part (RawsOk / profile hypothesis of C11_save_sheet_parts)",
        "sheet parts of the file read live in xl/worksheets/ (relative targets keep their meaning next to the new name)",
        "decode is a function of the raw sheet and the tables at load time; the model's theorems are stated for every such function",
    ],
    "partial_clauses": [
        "C11_save_partial: proved for all histories are unique names, exact sheet parts per position, workbook order and 'every relationship resolves' (C11_save_resolves); "
        "NOT proved for all histories: that the relationships part next to a copied sheet carries THAT sheet's relationships and every closure part keeps its original "
        "content under the name used (needs the one-package consistency hypothesis), and relsHaveSource; these are decided on the witnesses and checked on every save of the "
        "implementation by the harness (byte comparison of each copied sheet and its closure, walking both relationship graphs) and by the line-by-line skeleton comparison",
        "'untouched sheets decode to the same content as in the original' is proved as: same bytes under sheet{position} (C11_save_sheet_parts) + tables are "
        "prefixes (C11_tables_only_grow); that decoding depends on nothing else is the decoder's property (parameter) and is checked by reload-and-compare",
        "validity beyond the skeleton (XML content of generated parts, content types of workbook-level parts) is C02's; the harness validator checks content-type coverage, "
        "duplicate names, rIds and workbook.xml <-> workbook.xml.rels <-> sheet parts on every save, differentially against the eager save",
    ],
    "technique": "Lean 4 proofs (simulation lazy/eager over all histories, find-or-append prefix lemmas, append-only writer manager) + stateful differential check lazy vs eager with an independent package-skeleton reader",
}
