PROP = {
    "thm": ["Umya.Thm.C11", "Umya.Thm.C11Save", "Umya.Thm.C11Local"],
    "harness": "c11",
    "level": "proof",
    "stateful": True,
    "case_timeout": 180,
    "timeout_quick": 900,
    "timeout_thorough": 3400,
    "level_text": "Proof on a model of lazy loading, of the reader's side of a raw sheet (Pkg / openRaw / lazyOpen: bytes of the sheet part and the closure of its "
                  "relationship parts, children first, with the bytes of every target) and of the per-sheet branch of the writer (package skeleton level). The decoder, "
                  "the edits, what a sheet registers in the workbook-level tables and what its serialiser asks the writer manager for are parameters, so the theorems hold "
                  "for every decoder. Proved for ALL histories of read_sheet / get_sheet_mut / get_sheet_by_name_mut / read_sheet_collection / edits / new_sheet / "
                  "remove_sheet(_by_name) / set_sheet_name / workbook-level insert-remove: view equivalence lazy/eager (C11_view*), order independence, tables only grow "
                  "(C11_tables_only_grow, C11_tables_indices_stable); the package-consistency invariant (decidable: every still-raw sheet holds exactly what the reader records "
                  "for a sheet part of the opened package, closure names hygienic, tables those of the package) is established by lazyOpen and preserved by every operation "
                  "(C11_lazyOpen_consistent, C11_consistent_step, C11_consistent_reachable); from it the FULL C11_save: unique names, exact sheet part per position, workbook order, "
                  "every relationship resolves, every relationships part sits next to a part, and for every still-raw sheet at position p: sheet{p}.xml holds the bytes the package "
                  "has under the part it was read from, _rels/sheet{p}.xml.rels is exactly that part's relationships part (absent iff the package has none / an empty one), every "
                  "other relationships part and every non-external target of its closure is in the saved package under its original name with the package's content (first "
                  "writer wins is harmless between raw sheets: content under a closure name is a function of the package and the name). The closure the reader records is complete "
                  "(C11_closure_complete). add_file_at_* picks the smallest index that names no part present, never a name of a raw closure, and the relationships part next to the "
                  "new part is free (C11_alloc_no_clash, C11_loaded_rels_fresh); a fixed-name request (media) for a name that is there is dropped (C11_fixed_name_taken). An edit after "
                  "any history is in the saved sheet part (C11_edits_present). For every decoder satisfying the explicit locality predicate DecoderLocal a still-raw sheet decodes in "
                  "the saved package to what its part decodes to in the opened package (C11_untouched_decodes). For the CONCRETE independent decoder Spec.Sml.decodeSheet (C03's, unchanged) locality is proved "
                  "(C11_decoder_local: the decoded view .1 - cells, merges, hyperlinks, columns, rows, tables, noR - depends only on the tree of the sheet part, the tree of the relationships part "
                  "next to it, the trees of the parts its tablePart relationships name, and the shared strings up to the indices the sheet uses; not on the part's name, any other part, or the sizes "
                  "of cellXfs / dxfs; the diagnostics list quotes the name and is not claimed) and composed with C11_save: C11_save_concrete / C11_save_concrete_sheet - for concrete packages P, P' that "
                  "realise the opened and the saved abstract package, a still-raw sheet at position j decodes under sheet{j+1}.xml of P' with the saved string table to what its part decodes to in P "
                  "(no DecoderLocal hypothesis; the name hypotheses are theorems for xl/worksheets/sheet{n}.xml: C11_sheet_paths). The fuel of the reader model is proved sufficient: for every package "
                  "whose relationship graph is acyclic (explicit rank function on a set of relationships parts closed under following relationships) readClosure with parts+1 fuel equals readClosure "
                  "with any larger fuel and is `some` when every target exists (C11_read_closure_fuel, C11_open_raw_fuel; pigeonhole on the names present, no bound on the rank); without ANY hypothesis on the graph: whatever "
                  "any fuel reads, parts+1 fuel reads (C11_read_closure_any_fuel, C11_open_raw_any_fuel: `none` from the model never means 'fuel constant too small'); on a cyclic graph it "
                  "is `none` for every fuel (C11_read_closure_cyclic) - the code overflows its stack there, in lazy AND eager mode (recorded by the harness in a child process: cyclic.* counters). "
                  "The repaired defect is refuted on a decided witness (C11_old_rels_fails, "
                  "C11_old_rels_lost) and the fixed writer decided on it (C11_new_rels_witness). The tie: corpus and generated files (now also with one picture shared by several sheets: "
                  "overlapping closures) opened lazily and eagerly, every request applied to both; the reader model lazyOpen is run on the harness' description of the zip and compared "
                  "with the harness' own closure computation (open=1); after EVERY state-changing request the raw state of the implementation (hook verif_raw_state: part names, "
                  "hashes of the bytes kept) is compared with the model's state (same=1) and `consistent` is evaluated on it by the model and, independently, by the harness "
                  "(oracle invariant-broken); raw/deserialized flags, names, edited cells and the complete per-sheet package skeleton of every save are compared line by line with "
                  "the model; skeleton validator, byte comparison of copied sheets and their closure, reload-and-compare against the eager save are the implementation-level oracle.",
    "level_note": "Trusted: Lean kernel + 3 standard axioms; hand model as exercised by the correspondence stream; part names are parsed into a "
                  "structured form by the driver (canonical digits; two texts equal iff the structured names are); the serialiser's request profile of a "
                  "deserialized sheet is measured on the eager workbook's own save and fed to the model (it predicts the names under a different "
                  "allocation context); sheet decoding itself is C03's subject, serialisation round trip C01-C06's: differences that the eager "
                  "workbook's save shows as well are counted as inherited and not charged to C11.",
    "expect_theorems": ["C11_view", "C11_view_replies", "C11_view_state", "C11_access_loads", "C11_order_independent",
                        "C11_tables_only_grow", "C11_tables_indices_stable",
                        "C11_save_names_unique", "C11_save_sheet_parts", "C11_save_resolves",
                        "C11_lazyOpen_consistent", "C11_consistent_step", "C11_consistent_reachable", "C11_consistent_iff", "C11_closure_complete",
                        "C11_save", "C11_alloc_no_clash", "C11_fixed_name_taken", "C11_loaded_rels_fresh", "C11_edits_present", "C11_untouched_decodes",
                        "C11_old_rels_fails", "C11_old_rels_lost", "C11_new_rels_witness",
                        "C11_read_closure_fuel", "C11_open_raw_fuel", "C11_read_closure_any_fuel", "C11_open_raw_any_fuel", "C11_read_closure_cyclic",
                        "C11_decoder_local", "C11_save_concrete", "C11_save_concrete_sheet", "C11_sheet_paths"],
    "rule": "closure depth: 2 (quick) / 6 (thorough) extra generated files `gen:d<seed>` with a chart and a picture forced on every sheet (sheet rels -> drawing rels -> chart / image), counters "
            "closure.depth.{0,1,2,3+} and closure.parts.<n> per sheet of every opened file; once per run the two cyclic packages (drawing rels -> sheet, drawing rels -> itself) are opened lazily and "
            "eagerly in a child process (cyclic.<variant>.<mode>.<outcome>, counted only), and the requests `c11 cyc sheet|self|none` send the description of those packages (and of the same package without the extra "
            "relationship) to the model: its reader's open=0/1 is compared with whether the real lazy reader came back with a workbook (stack overflow = open=0; informational: the model with "
            "ten times the fuel). files: 8 corpus files (quick) / the whole corpus (thorough) + library-generated multi-sheet files (comments, tables, merges, external "
            "hyperlinks, charts whose series live on another sheet), each also with its sheet parts renamed so that part number != position; "
            "per file 40 (quick) / 24-40 (thorough, all 55 corpus files + 20 generated) histories: ALL ordered subsets of sheets to materialise for files with <= 4 sheets, random orders "
            "for more; accesses through read / getmut / byname / edit; interleaved style edits, new_sheet, remove_sheet(_by_name), rename, workbook-level "
            "insert/remove rows, read_sheet_collection; saves in the middle and at the end; dumps of every sheet; boundary indices; an `inv` request (state of the "
            "implementation through the hook -> model: same state? package-consistent?) after every request that may change the state; generated files carry with probability 1/2 one "
            "picture on several sheets (closures overlapping on xl/media/shared.png). "
            "non-trivial = the request changed or observed state (ok replies, dumps of deserialized sheets, saves); distinct = distinct request line "
            "(reset and save lines carry the file / profile description). The witness of the repaired defect is replayed first on every run.",
    "trusted_base": TB_COMMON + [
        "zip + quick-xml (harness-side skeleton reader of the written package, independent of the crate's reader)",
        "Debug formatting of the crate's public structures as the per-section sheet dump (sorted where a HashMap is involved)",
        "driver-side parser/printer of part names (structured PName <-> text)",
        "hook Spreadsheet::verif_raw_state (cfg(umya_verif), add-only): reports the raw sheets' part names and FNV-64 hashes of the bytes kept; bytes are identified by hash",
    ],
    "assumptions": [
        "pkgOk (decidable hypothesis on the INPUT package, evaluated per file by the model and by the harness: counter reset.pkgok): in the closure of every sheet part no "
        "relationship points to a part named like xl/worksheets/sheet{n}.xml, like a relationships part, like a workbook-level part or back at the sheet part, and every "
        "relationships part of the closure belongs to the sheet part or to a target (true of every closure the reader can record; kept as a checked hypothesis, not proved from readClosure)",
        "SheetWritable on the saved state (hypothesis of C11_save_resolves / C11_save): no zero-length related part in a raw closure (RawFile::write_to does not copy empty data, the "
        "relationship would dangle: harness flag `empty`), no target a serialiser names but does not write (C02's)",
        "profile hypothesis: a serialiser asks for no FIXED name that looks like a sheet part or a relationships part (media names)",
        "workbook-level parts (content types, workbook.xml, styles, shared strings, theme, docProps) are outside the model's writer: that no closure part carries such a name is part of pkgOk, "
        "but that those writers are then unaffected is not a theorem",
        "the opened package is a function from names to parts (getPart = the entry ZipArchive::by_name returns); duplicate zip entries are outside",
        "sheet parts of the file read live in xl/worksheets/ (relative targets keep their meaning next to the new name)",
        "bytes are identities (cid); in the tie FNV-64 of the bytes",
        "DecoderLocal (explicit predicate) remains the hypothesis of the abstract C11_untouched_decodes; for Spec.Sml.decodeSheet it is replaced by the proved C11_decoder_local and the "
        "explicit hypotheses of C11_save_concrete: Realises (the XML tree of a part is a function of its abstract content - bytes are identities; for a copied relationships part: ids, types and "
        "target texts, which the model does not carry, are a function of the content), htbl (the model's resolved targets of the sheet's relationships part are what the spec's path rules give for "
        "the relationships its tableParts use), SstCovers (shared-string indices of the sheet are inside the opened table: valid input)",
    ],
    "partial_clauses": [
        "C11_save is proved at full strength on the model for all histories (C11_save_partial is gone). What remains open around it: (a) [closed for the decoded VIEW: C11_decoder_local + "
        "C11_save_concrete prove 'untouched sheets decode to the same content' for Spec.Sml.decodeSheet, modulo the realisation hypotheses listed under assumptions; not covered: the decoder's "
        "diagnostics list, and parts the spec decoder does not look at (drawings, charts, comments: their bytes and names are C11_save's)]; (b) a "
        "deserialized sheet that asks for a FIXED part name (media) already owned by a raw closure gets the part that is there (C11_fixed_name_taken states it; same collision exists "
        "between two deserialized sheets in the eager workbook: inherited); (c) 'an accessed but unedited sheet has the same content' is serialise(decode(raw)) = C01-C06's round trip",
        "validity beyond the skeleton (XML content of generated parts, content types of workbook-level parts) is C02's; the harness validator checks content-type coverage, "
        "duplicate names, rIds and workbook.xml <-> workbook.xml.rels <-> sheet parts on every save, differentially against the eager save",
        "fuel of the reader model: closed (C11_read_closure_fuel / C11_read_closure_cyclic). Not proved: that pkgOk implies acyclicity (it does not: a cycle through non-sheet parts, "
        "drawing -> drawing, is hygienic; such a package makes lazyOpen = none in the model and overflows the stack in the code, lazy and eager alike - proposed known finding C11-cyclic-rels-overflow, "
        "packages /var/tmp/w46/cyclic_sheet.xlsx, cyclic_self.xlsx)",
    ],
    "technique": "Lean 4 proofs (simulation lazy/eager over all histories, package-consistency invariant by induction on the history, find-or-append prefix lemmas, append-only writer manager with content-aware extension relation) + stateful differential check lazy vs eager with an independent package-skeleton reader",
}
