PROP = {
    "thm": "Umya.Thm.C08",
    "harness": "c08",
    "level": "proof",
    "stateful": False,
    "ulimit_kb": 3_000_000,
    "timeout_quick": 600,
    "case_timeout": 30,
    "level_text": "Proof about the executable model of helper/formula.rs AS FIXED (tokenizer, render, "
                  "adjustment_insert/remove_formula_coordinate with the sheet-matching condition), tied to the code by a differential check "
                  "of whole edit histories on every run. The reference-level theorems (one reference token against the AST shifter, all "
                  "columns/rows/locks/qualifiers) are at full strength; whole-formula theorems are partial (see partial_clauses). "
                  "Defined names are covered by the harness oracle only (not modelled).",
    "level_note": "Trusted: Lean kernel + 3 standard axioms; the hand model's faithfulness as exercised by the correspondence stream; "
                  "the C17 coordinate codecs (proved there); the harness' independent AST shifter (fx.rs).",
    "expect_theorems": ["C08_kernels_match_source", "C08_terminates", "C08_nonrefs_untouched", "C08_insert_partial", "C08_insert_fails", "C08_insert_tokens_partial", "C08_remove", "C08_remove_partial"],
    "rule": "formulas from the AST grammar of the property (as C09; sheet qualifiers: none, Sheet1, 'Sheet1', 'My Sheet', 'It''s', a non-existent "
            "sheet, external-workbook prefixes) placed on any of the three sheets {Sheet1, My Sheet, It's}; histories of 4 edits "
            "(insert/remove x row/column, position 1..14 or next to the grid limit, 1..4 lines, on any sheet), applied at workbook level "
            "(Spreadsheet::insert_new_row ..) or sheet level (Worksheet::insert_new_row on the edited sheet, .._from_other_sheet on the others); "
            "observed: Cell::get_formula after every edit vs model vs the AST shifter; defined names (800 quick) stored on any sheet referring "
            "to any sheet, DefinedName::get_address after every edit vs the AST shifter (qualifier quoting canonicalised). "
            "distinct = distinct request line; non-trivial = at least one edit was applied",
    "trusted_base": TB_COMMON + [
        "the oracle's AST printer / shifter (harness/src/fx.rs) — independent of the crate",
        "C17 codecs (index_from_coordinate, split_address, column letters): proved in Umya.Thm.C17 and reused",
    ],
    "assumptions": ["ranges are written normalised (first corner <= second corner), as Excel writes them",
                    "sheet names are compared exactly (case-sensitive), as the implementation does"],
    "partial_clauses": ["C08_insert: proved at reference level under FitsInsert (nothing pushed beyond XFD/1048576); the unrestricted statement is refuted (C08_insert_fails, witness XFD1 + insert column at A -> XFE1; known finding C08-insert-grid-overflow)", "C08_remove: proved at reference level at full strength (all shapes, locks, qualifiers, bands; #REF! and clamping); whole-formula form only for token lists (C08_remove_partial): NOT proved = parse('=' ++ print e) is the token list of e - correspondence check + harness oracle only", "defined names: harness oracle only (the model answers 'unmodelled'); three known findings describe what fails; chart series addresses: not reached", "sheet-level fan-out (which cells' formulas are visited, CellFormula text_view) is exercised by the harness through the public API, not modelled beyond editFormula"],
    "technique": "Lean 4 proof on an executable model + differential correspondence on every run",
}
