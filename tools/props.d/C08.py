PROP = {
    "thm": ["Umya.Thm.C08", "Umya.Thm.C08Lex", "Umya.Thm.C08LexWF"],
    "harness": "c08",
    "level": "proof",
    "stateful": False,
    "ulimit_kb": 3_000_000,
    "timeout_quick": 600,
    "case_timeout": 30,
    "level_text": "Proof about the executable model of helper/formula.rs AS FIXED (tokenizer, render, "
                  "adjustment_insert/remove_formula_coordinate with the sheet-matching condition and the grid limit of insert_part), tied to the code by a differential check "
                  "of whole edit histories on every run. The reference-level theorems (one reference token against the AST shifter, all "
                  "columns/rows/locks/qualifiers) are at full strength; whole-formula theorems: proved on printed expressions of the LexOk / RefsOk fragment (C08_insert_text, C08_remove_text, via C09_lex_print), partial beyond it (see partial_clauses). "
                  "Defined names: the fan-out of the repaired code (Model/NameShift.lean: Range / Address / DefinedName adjust, Worksheet and Spreadsheet "
                  "level) is modelled, tied per run by the dn requests, and proved against the reference shifter for whole workbooks "
                  "(C08_defined_names_follow, C08_defined_names_follow_remove).",
    "level_note": "Trusted: Lean kernel + 3 standard axioms; the hand model's faithfulness as exercised by the correspondence stream; "
                  "the C17 coordinate codecs (proved there); the harness' independent AST shifter (fx.rs).",
    "expect_theorems": ["C08_kernels_match_source", "C08_terminates", "C08_nonrefs_untouched", "C08_insert", "C08_insert_tokens_partial", "C08_remove", "C08_remove_partial", "C08_defined_names_follow", "C08_defined_names_follow_remove", "C08_insert_text", "C08_remove_text", "C08_insert_text_wf", "C08_remove_text_wf"],
    "rule": "formulas from the AST grammar of the property (as C09; sheet qualifiers: none, Sheet1, 'Sheet1', 'My Sheet', 'It''s', a non-existent "
            "sheet, external-workbook prefixes) placed on any of the three sheets {Sheet1, My Sheet, It's}; histories of 4 edits "
            "(insert/remove x row/column, position 1..14 or next to the grid limit, 1..4 lines, on any sheet; references up to XFD / 1048576, so that inserts push cells off the grid (#REF!) and cut ranges off at the edge: tag grid-limit), applied at workbook level "
            "(Spreadsheet::insert_new_row ..) or sheet level (Worksheet::insert_new_row on the edited sheet, .._from_other_sheet on the others); "
            "observed: Cell::get_formula after every edit vs model vs the AST shifter; defined names (800 quick) stored on any sheet referring "
            "to any sheet, DefinedName::get_address after every edit vs the AST shifter (qualifier quoting canonicalised). "
            "distinct = distinct request line; non-trivial = at least one edit was applied",
    "trusted_base": TB_COMMON + [
        "the oracle's AST printer / shifter (harness/src/fx.rs) — independent of the crate",
        "C17 codecs (index_from_coordinate, split_address, column letters): proved in Umya.Thm.C17 and reused",
    ],
    "assumptions": ["ranges are written normalised (first corner <= second corner), as Excel writes them",
                    "sheet names are compared exactly (case-sensitive), as the implementation does"],
    "partial_clauses": ["C08_insert: proved at reference level at full strength (all shapes, locks, qualifiers, positions, counts n != 0 with no bound; a cell / range start pushed beyond XFD/1048576 becomes #REF!, a range end is cut off at the edge; fix fae7c2b, before it the statement was refuted by XFD1 + insert column at A -> XFE1); whole-formula form for token lists (C08_insert_tokens_partial, no grid hypothesis) and for whole texts: editFormula insert (print e) = print (shiftInsert e) for every e with LexOk e and RefsOk e (C08_insert_text; hypotheses as in C09's partial_clauses: no intersection / array constant / structured reference, leaf texts of ordinary characters, names inert; C08_insert_text_wf = the same with LexOk' e: references well-formed, the former hypothesis 'a reference text is not f64 / TRUE / FALSE' is proved from well-formedness (isRangeText_of_WF), no longer assumed; the share of generated formulas with LexOk is counted per run: tag.lexok / tag.lexok-not); NOT proved = the same for expressions with intersections, array constants, structured references or optional blanks - correspondence check + harness oracle only", "C08_remove: proved at reference level at full strength (all shapes, locks, qualifiers, bands; #REF! and clamping); whole-formula form for token lists (C08_remove_partial) and for whole texts: editFormula remove (print e) = print (shiftRemove e) for every e with LexOk e and RefsOk e (C08_remove_text; 1 <= at, n != 0, at+n within u32; C08_remove_text_wf = the same with LexOk' e, see C08_insert); NOT proved = the same for expressions with intersections, array constants, structured references or optional blanks - correspondence check + harness oracle only", "defined names: proved for every workbook (workbook-level names and names stored on any sheet, any number of areas) - insert: every address of the edited sheet is the shifted one, every other is unchanged (hypothesis: no u32 overflow; defined names shift through structs::Range, which has NO grid limit: a name pushed beyond XFD/1048576 keeps growing - C07-grid-overflow territory, not generated for names); remove: surviving addresses are shifted / clamped as Spec.remAxis, a name all of whose areas were deleted becomes #REF! (hypotheses: 1 <= at, at+n <= u32 max, ranges have a start part wherever they have an end part); NOT as the property wants: of a name with several areas, one deleted area is dropped from the list instead of becoming #REF! (stated in the theorem, not generated by the harness); the printed text of an address (quoting of the sheet name) is C17/C06 territory; chart series addresses: not reached", "sheet-level fan-out (which cells' formulas are visited, CellFormula text_view) is exercised by the harness through the public API, not modelled beyond editFormula"],
    "technique": "Lean 4 proof on an executable model + differential correspondence on every run",
}
