PROP = {
    "thm": "Umya.Thm.C10",
    "harness": "c10",
    "level": "proof",
    "stateful": True,
    "level_text": "Proof: the cell store (hash map keyed (row,col) + per-cell coordinate + two BTreeSet indexes + row table + column list) and "
                  "all 17 operations of the quantifier are modelled concretely; the coherence invariant is proved for the empty sheet, preserved by "
                  "every operation (C10_step) and hence holds after any finite history (C10_reachable, induction on the op list); in a coherent state "
                  "every observer is proved equal to a brute-force scan (C10_lookup, C10_observers) and the writer's row loop is proved to emit every "
                  "cell (C10_saved). The model is tied to the code by running random histories on both and diffing full state dumps after every op.",
    "level_note": "Trusted: Lean kernel + 3 standard axioms; the hand model as exercised by the correspondence stream; HashMap modelled as an association "
                  "list and BTreeSet as a strictly sorted list (std collections not verified); cell content/style are opaque tokens; u32 addition overflow not modelled.",
    "expect_theorems": ["C10_kernels_match_source", "C10_init", "C10_step", "C10_reachable", "C10_lookup", "C10_observers", "C10_saved"],
    "rule": "random histories (1..60 ops) over get_cell_mut/set_value/set_cell/remove_cell/set_style/set_style_by_range/insert+remove rows+columns/"
            "move_range/copy_range/cleanup/copy_row_styling/copy_col_styling on a small grid (coordinates 1..7, sometimes 9 and 16), with by-row/by-column/"
            "by-range/get observers interleaved and a save+scan of sheetData every third history; after every mutating op the full dump (map keys, "
            "each cell's own coordinate, both indexes, highest, dimension, row table, column list) is compared with the model and a brute-force "
            "coherence oracle runs on the implementation. non-trivial = a mutating op that returned (not panicked) or a non-empty observer result; "
            "distinct = distinct request line",
    "trusted_base": TB_COMMON + ["std HashMap / BTreeSet semantics (modelled as association list / strictly sorted list)",
                                 "verification hook Worksheet::verif_cells (read-only accessor, cfg(umya_verif))"],
    "assumptions": ["operations are those listed; direct mutation of the public hash maps (get_collection_to_hashmap_mut, get_row_dimensions_to_hashmap_mut) is outside the property",
                    "coordinates stay below 2^32 (no u32 addition overflow)"],
    "partial_clauses": ["set_style_by_range on whole-row / whole-column text always panics in get_start_and_end_point ('Non-standard range'); modelled as panic, not part of the invariant"],
    "technique": "Lean 4: invariant by induction over unbounded op histories + observer refinement; differential state-dump correspondence",
}
