PROP = {
    "thm": "Umya.Thm.C06",
    "harness": "c06",
    "level": "proof",
    "stateful": True,
    "level_text": "Proof for the modelled annotation kinds, exploration for the opaque ones. Lean models (Umya/Model/Annot.lean) of the string-level codecs that carry "
                  "the sheet list, defined names (get_address_ptn2 with apostrophe doubling, join with ',', DefinedName::set_address: split_str state machine, is_address "
                  "regex as a hand-written matcher, add_address un-doubling, split_address, Range::set_range), merged / auto-filter ranges, hyperlinks (sheet-part walk, "
                  "relationships-part walk, reader join, tooltip) and comments (authors table in any order, authorId = position, comments reader) as written by the code "
                  "after the C06 fixes. Theorems for all inputs: the sheet list reloads identically (C06_sheet_list); ranges of all four shapes reload (C06_merge_roundtrip); "
                  "every comment reloads on its own cell with its own author for any table order, any number of comments, the empty author included (C06_comment_authors; "
                  "the repaired defect is refuted for the unfixed reader by C06_comment_authors_unfixed_*_fails); the reloaded hyperlinks ARE the hyperlinks - no move, swap, "
                  "loss or duplicate - for any number and mixture (C06_hyperlink_reload, C06_hyperlink_pairing); a defined name made of any number of cell areas on legal sheet "
                  "names (quoted or not, with apostrophes, blanks, !, \", commas, parentheses) reads back as the same areas (C06_defined_name_roundtrip, with the un-doubling "
                  "lemma C06_undouble_double), any other text is kept verbatim (C06_defined_name_text_kept). The model is tied to the code on every run: the raw, still escaped "
                  "artefacts of every written package (<sheet name>, <definedName> texts, <mergeCell ref>, <autoFilter ref>, <hyperlink> elements + relationships, authors "
                  "table + authorIds) and what the reloaded workbook holds are compared with the model's output. Independently, the harness evaluates the property's oracle on "
                  "the implementation: full annotation dump before == after reload for 5 saves per workbook in one process, the 5 reloads agree, and a second generation "
                  "(reload, save, reload) equals the first.",
    "level_note": "Trusted: Lean kernel + 3 standard axioms; the hand model's faithfulness as exercised by the correspondence stream; quick-xml 0.37.5 escape / unescape / "
                  "trim_text / event splitting (modelled); fancy_regex on the is_address regex (hand matcher, tied behaviourally through the dnr lines); the harness dump "
                  "functions (annot_entries) and the zip crate. The *_unfixed_*_fails refutations concern a model of the code BEFORE the fixes, which no longer runs; it was "
                  "checked against the unfixed tree by the harness witnesses only while the fixes were being developed.",
    "expect_theorems": ["C06_channels_match_source", "C06_sheet_list", "C06_merge_roundtrip", "C06_comment_authors", "C06_comment_authors_unfixed_fails", "C06_hyperlink_reload",
                        "C06_hyperlink_pairing", "C06_undouble_double", "C06_defined_name_roundtrip", "C06_defined_name_text_kept", "C06_defined_name_channel",
                        # view / page / protection codecs (Umya/Thm/C06View.lean, imported by Umya/Thm/C06.lean)
                        "C06_view_attr_channel", "C06_header_footer_text_channel", "C06_sheet_protection_codec", "C06_sheet_protection_flags_distinct",
                        "C06_sheet_protection_flag_attr", "C06_workbook_protection_codec", "C06_tab_color_codec", "C06_tab_color_reachable", "C06_active_tab",
                        "C06_defined_name_attrs", "C06_enum_tables", "C06_pane_codec", "C06_selection_codec", "C06_sheet_view_codec", "C06_sheet_view_norm",
                        "C06_sheet_views_codec", "C06_sheet_view_strict_fails", "C06_active_cell_fails", "C06_page_setup_codec", "C06_page_margins_codec",
                        "C06_print_options_codec", "C06_header_footer_codec", "C06_header_footer_nonempty", "C06_view_tables_match_source"],
    "rule": "case = one workbook: 8 fixed witnesses (the repaired defects + the residual ones), N workbooks generated from a per-case seed by wb::gen_book with rich "
            "annotations (1-6 sheets, 0..40 hyperlinks with tooltips / location links to quoted sheets, 0..30 comments over a pool of authors incl. the empty one, 0..36 merges, "
            "0..14 data validations, 0..12 conditional formats x 1-3 rules, auto filter, tab colour argb/theme/indexed, panes + selections, page setup / margins / print options, "
            "header / footer with & codes, sheet and workbook protection flags and hashes, 0..12 defined names per sheet incl. multi-area, quoted, whole-row/column, formula and "
            "constant texts, hidden / veryHidden, active tab, sometimes the last sheet removed again), and every 5th corpus file (all in the thorough tier); quick N=80, thorough "
            "N=1000; each workbook saved 5 times + second generation. Requests after the header are the tie lines of the first package (sheetlist, dnw/dnr per defined name, "
            "range per merge / auto filter, links per sheet, comments per sheet). non-trivial = every tie line; distinct = distinct request line",
    "trusted_base": TB_COMMON + [
        "quick-xml 0.37.5: escape, partial_escape, unescape, trim_text, no text event for an empty text node (modelled in Umya/Model/XmlEsc.lean and Annot.lean)",
        "fancy_regex on the is_address regex: hand-written matcher Umya.Annot.isAddress, tied by the dnr lines",
        "harness/src/wb.rs annot_entries (what counts as the observable state of each annotation kind); zip crate",
        "BTreeMap<String, _> iteration order = code-point lexicographic order of the coordinate text (Umya.Annot.walkOrder)",
    ],
    "assumptions": [
        "sheet names are legal: non-empty, not starting with an apostrophe, without : \\ ? [ ] / * (C06_defined_name_roundtrip)",
        "areas of an address-valued defined name are cells or cell:cell ranges, columns <= ZZZ, rows < 2^32; other shapes take the verbatim-text path",
        "the written text of a defined name has no leading / trailing blank (C06_defined_name_channel: the reader trims text events); true of every printed area list, not proved",
        "every comment's author occurs in the authors table (it is built from the comments)",
    ],
    "partial_clauses": [
        "data validations (type, operator, flags, prompts, formulas, sqref): harness oracle only, no Lean model",
        "conditional-format ranges and rules (type, operator, text, priority, rank, flags, time period, formula, dxf style): harness oracle only",
        "freeze panes / selections / sheet-view attributes: harness oracle only",
        "page setup, page margins, print options: harness oracle only",
        "header / footer text: harness oracle only (known finding: outer blanks trimmed on read)",
        "sheet / workbook protection flags and hashes, tab colour, active tab, localSheetId / hidden of defined names: harness oracle only",
        "comment text, VML shape anchors and the positional join of shapes to comments: harness oracle only",
        "re-homing of defined names (localSheetId, or the sheet named in the first area) is observed through the dump (identity = name + scope), not modelled",
        "Worksheet::set_active_cell is not saved at all (known finding)",
        "workbooks whose localSheetId values no longer match the sheet order (after removing an earlier sheet) are outside the generator",
    ],
    "technique": "Lean models + theorems of the annotation codecs (defined-name text, ranges, hyperlink rId walk, comment authors table, sheet list), raw-artefact correspondence on every written package, 5-saves / second-generation round-trip oracle over a full annotation dump",
    "timeout_quick": 600,
    "timeout_thorough": 3000,
}
