PROP = {
    "thm": ["Umya.Thm.C06", "Umya.Thm.C06Codec", "Umya.Thm.C06Comment", "Umya.Thm.C06Names", "Umya.Thm.C06NamesHist"],
    "harness": "c06",
    "level": "proof",
    "stateful": True,
    "level_text": "Proof for the modelled annotation kinds, exploration for the opaque ones. Lean models (Umya/Model/Annot.lean) of the string-level codecs that carry "
                  "the sheet list, defined names (get_address_ptn2 with apostrophe doubling, join with ',', DefinedName::set_address: split_str state machine, is_address "
                  "regex as a hand-written matcher, add_address un-doubling, split_address, Range::set_range), merged / auto-filter ranges, hyperlinks (sheet-part walk, "
                  "relationships-part walk, reader join, tooltip) and comments (authors table in any order, authorId = position, comments reader) as written by the code "
                  "after the C06 fixes. Theorems for all inputs: the sheet list reloads identically (C06_sheet_list); ranges of all four shapes reload (C06_merge_roundtrip); "
                  "every comment reloads on its own cell with its own author for any table order, any number of comments, the empty author included (C06_comment_authors; "
                  "the repaired defect is refuted for the unfixed reader by C06_comment_authors_unfixed_*_fails); the reloaded hyperlinks ARE the hyperlinks - no move, swap, "
                  "loss or duplicate - for any number and mixture (C06_hyperlink_reload, C06_hyperlink_pairing); a defined name made of any number of cell areas on legal sheet "
                  "names (quoted or not, with apostrophes, blanks, !, \", commas, parentheses) reads back as the same areas (C06_defined_name_roundtrip, with the un-doubling "
                  "lemma C06_undouble_double), any other text is kept verbatim (C06_defined_name_text_kept). The model is tied to the code on every run: the raw, still escaped "
                  "artefacts of every written package (<sheet name>, <definedName> texts, <mergeCell ref>, <autoFilter ref>, <hyperlink> elements + relationships, authors "
                  "table + authorIds) and what the reloaded workbook holds are compared with the model's output. Independently, the harness evaluates the property's oracle on "
                  "the implementation: full annotation dump before == after reload for 5 saves per workbook in one process, the 5 reloads agree, and a second generation "
                  "(reload, save, reload) equals the first. Data validations and conditional formatting (second session): element-tree models of both codecs "
                  "(Umya/Model/AnnotDv.lean, AnnotCf.lean) with full round-trip theorems for all well-formed values (C06_data_validation_codec, C06_data_validations_roundtrip, "
                  "C06_cf_rule_codec, C06_conditional_formatting_roundtrip incl. dxfId resolution through a find-or-append table from any initial table), enum tables proved for every "
                  "constructor and regenerated from the source on every run (C06_enum_tables, C06_enum_tables_match_source), seven repaired defects each refuted for the unfixed model "
                  "(*_unfixed_fails; the last three — a colour without attributes in a scale, a block without ranges, a block without rules — were known findings until fixes 8f9bb71 / 1306250 / bc04409: the "
                  "round trip now covers blocks without ranges and colours without attributes and is stated up to writtenBlocks, the blocks that have a rule, C06_cf_written_blocks). Tie on every run: "
                  "the real <dataValidations>, <conditionalFormatting> and <dxfs> elements, parsed by the independent XML reader in the driver, are tree-equal to `write` of the value the "
                  "harness set through the public API, the model reader on the real elements equals the reloaded getters, and a second generation ties the writer from a non-empty dxf table. "
                  "Comments (third session, Umya/Model/AnnotComment.lean, Thm/C06Comment.lean): element-tree models of both comment parts - `<comments>` (authors, commentList, `<text>` as runs with opaque run "
                  "properties, xml:space) and the VML part (frame, one v:shape per comment with style, x:MoveWithCells / x:SizeWithCells / x:Anchor / x:Row / x:Column / x:Visible) -, of both readers and of the "
                  "loop that joins the shapes to the comments by the cell x:Row / x:Column name (fix b524a98a; the writer names the comment's cell in every shape, fix 26940198). Proved for all inputs: the text codec (C06_comment_text_codec, over the character channel C06_comment_text_channel), both writers emit in list order (C06_comment_vml_order), "
                  "save + reload returns the same comments in the same order with cell, author, text, style, anchor, flags and visibility for any number of well-formed comments on any cells in any insertion order, shapes with or without x:Row / x:Column "
                  "(C06_comment_roundtrip up to C06_comment_norm; C06_comment_no_swap: same count, same cells, the comment found on cell k is the one that was there), for comments on distinct cells and note shapes that name exactly those cells IN ANY ORDER (a permutation; other shapes anywhere between them) the reader's loop is the join by cell and every comment gets "
                  "the note shape that names its cell (C06_comment_join_by_cell); the loop never loses, duplicates or re-orders a comment and is the zip of the comments with the shapes that have an x:Column when no shape "
                  "names a comment's cell (C06_comment_join_is_zip, the fallback) and when the note shapes name the cells of commentList in order, distinct or not (C06_comment_join_valid); a comment built without "
                  "new_comment and a comment moved after new_comment come back with their own shapes (C06_comment_no_column_target; the refutation C06_comment_no_column_target_fails is retired). Tie on every run (`c06 cmt`): the real comments{n}.xml and vmlDrawing{n}.vml of 150 generated "
                  "workbooks, lexed by the independent XML reader, are tree-equal to writeComments / writeVml of the values set through the public API and joinShapes (readComments ..) (readVml ..) on the "
                  "real trees equals the reloaded getters; `c06 cmtr`: the same reader-side comparison on every corpus file that has comments, where the harness also checks that each joined shape names its "
                  "comment's cell (three Excel-written files list the shapes in another order: mis-paired before fix b524a98a, counter cmtf.mispaired now 0), and on 60 generated workbooks whose saved VML parts had their "
                  "v:shape elements reversed / rotated / shuffled (`c06 reset cmtp`). The <autoFilter> element (the struct holds the range only) has its codec theorem C06_auto_filter_codec. "
                  "Where defined names live (Umya/Model/AnnotNames.lean, Thm/C06Names.lean): a book = workbook-level list + per-sheet lists of (name, localSheetId, address text, sheet of the first area); the writer's <definedNames> order, "
                  "the reader's re-homing loop (localSheetId, else the first sheet called like the first area's sheet, else workbook level; panic on an id that indexes no sheet) and Spreadsheet::remove_sheet after fix 39e32f7 "
                  "(ids of later sheets move down, names scoped to the removed position go) are modelled. Proved for all books: the reader is the order-preserving filter of the written list by destination, nothing lost / duplicated / changed "
                  "(C06_defined_names_read_is_rehome), and panics exactly at the first out-of-range id (C06_defined_names_read_out_of_range); a book in which every name is stored where it is scoped (Stable) reloads as THE SAME book - same lists, same order, "
                  "same (name, localSheetId, address) (C06_defined_names_rehome_roundtrip); Stable survives remove_sheet(i) for every i, which keeps every other sheet's names in order (C06_defined_names_remove_sheet_stable / _keeps), so the round trip holds after one "
                  "or any number of removals (C06_defined_names_after_remove_sheet / _after_removals); remove_sheet before the fix is refuted (wrong sheet: _unfixed_fails; reload panic: _unfixed_panics). What is NOT preserved is stated as theorems: an unscoped name stored "
                  "away from the sheet of its first area, a workbook-level name whose first area names a sheet and a name stored on one sheet with another sheet's id move on reload (C06_defined_names_unstable_moves); a sheet put in front through "
                  "get_sheet_collection_mut() is not followed by the ids (C06_defined_names_insert_front_fails). Appending a sheet (new_sheet / add_sheet) keeps Stable exactly when no workbook-level name's first area names the new title and the new sheet's names "
                  "are scoped to it (C06_defined_names_append_sheet_stable; the hypothesis is needed: _append_sheet_needs_hyp), so the round trip holds after any history of appends and removals (C06_defined_names_after_history). The sheet of the first area is "
                  "derived from the address TEXT by the set_address model (firstAreaSheet, Umya/Model/AnnotNamesText.lean): for a printed list of AreaOK areas it is the first area's sheet (C06_defined_names_first_area), for a text is_address rejects there is none "
                  "(C06_defined_names_first_area_text), and the round trip is restated for the reader that works from the (name, localSheetId, text) elements alone (C06_defined_names_rehome_roundtrip_text). Tie on every run (`c06 nm`): the real <definedName> elements in order and the reloaded homes of 6 witnesses + 300 generated books after histories of remove_sheet / appended / inserted sheets equal the model's.",
    "level_note": "Trusted: Lean kernel + 3 standard axioms; the hand model's faithfulness as exercised by the correspondence stream; quick-xml 0.37.5 escape / unescape / "
                  "trim_text / event splitting (modelled); fancy_regex on the is_address regex (hand matcher, tied behaviourally through the dnr lines); the harness dump "
                  "functions (annot_entries) and the zip crate. The *_unfixed_*_fails refutations concern a model of the code BEFORE the fixes, which no longer runs; it was "
                  "checked against the unfixed tree by the harness witnesses only while the fixes were being developed.",
    "expect_theorems": ["C06_channels_match_source", "C06_sheet_list", "C06_merge_roundtrip", "C06_comment_authors", "C06_comment_authors_unfixed_fails", "C06_hyperlink_reload",
                        "C06_hyperlink_pairing", "C06_undouble_double", "C06_defined_name_roundtrip", "C06_defined_name_text_kept", "C06_defined_name_channel",
                        # view / page / protection codecs (Umya/Thm/C06View.lean, imported by Umya/Thm/C06.lean)
                        "C06_view_attr_channel", "C06_header_footer_text_channel", "C06_sheet_protection_codec", "C06_sheet_protection_flags_distinct",
                        "C06_sheet_protection_flag_attr", "C06_workbook_protection_codec", "C06_tab_color_codec", "C06_tab_color_reachable", "C06_active_tab",
                        "C06_defined_name_attrs", "C06_enum_tables", "C06_pane_codec", "C06_selection_codec", "C06_sheet_view_codec", "C06_sheet_view_norm",
                        "C06_sheet_views_codec", "C06_sheet_view_strict_fails", "C06_active_cell_fails", "C06_page_setup_codec", "C06_page_margins_codec",
                        "C06_print_options_codec", "C06_header_footer_codec", "C06_header_footer_nonempty", "C06_view_tables_match_source",
                        # data-validation / conditional-formatting codecs (Umya/Thm/C06Codec.lean)
                        "C06_codec_channel", "C06_dvcf_enum_tables", "C06_enum_tables_match_source", "C06_data_validation_codec", "C06_data_validations_roundtrip",
                        "C06_data_validations_positions", "C06_cf_dxf_table", "C06_cf_rule_codec", "C06_conditional_formatting_roundtrip", "C06_cf_formula_text",
                        "C06_dv_type_unfixed_fails", "C06_dv_formula_unfixed_fails", "C06_cf_dxf_hash_unfixed_fails", "C06_cf_iconset_unfixed_fails",
                        "C06_cf_blank_color_unfixed_fails", "C06_cf_empty_sqref_unfixed_fails", "C06_cf_no_rules_unfixed_fails", "C06_cf_written_blocks",
                        # comments: text, VML shapes, join by the cell a note shape names; auto-filter element (Umya/Thm/C06Comment.lean)
                        "C06_comment_text_channel", "C06_comment_text_codec", "C06_comment_vml_order", "C06_comment_roundtrip", "C06_comment_norm",
                        "C06_comment_no_swap", "C06_comment_no_column_target", "C06_comment_join_by_cell", "C06_comment_join_is_zip", "C06_comment_join_valid",
                        "C06_auto_filter_codec",
                        # where defined names live: writer list, reader re-homing, remove_sheet (Umya/Thm/C06Names.lean)
                        "C06_defined_names_read_is_rehome", "C06_defined_names_read_out_of_range", "C06_defined_names_rehome_roundtrip",
                        "C06_defined_names_unstable_moves", "C06_defined_names_remove_sheet_stable", "C06_defined_names_remove_sheet_keeps",
                        "C06_defined_names_after_remove_sheet", "C06_defined_names_after_removals",
                        "C06_defined_names_after_remove_sheet_unfixed_fails", "C06_defined_names_after_remove_sheet_unfixed_panics",
                        "C06_defined_names_insert_front_fails",
                        # appended sheets, histories, first area from the address text (Umya/Thm/C06NamesHist.lean)
                        "C06_defined_names_append_sheet_stable", "C06_defined_names_append_sheet_needs_hyp", "C06_defined_names_after_history",
                        "C06_defined_names_first_area", "C06_defined_names_first_area_text", "C06_defined_names_rehome_roundtrip_text"],
    "rule": "case = one workbook: 8 fixed witnesses (the repaired defects + the residual ones), N workbooks generated from a per-case seed by wb::gen_book with rich "
            "annotations (1-6 sheets, 0..40 hyperlinks with tooltips / location links to quoted sheets, 0..30 comments over a pool of authors incl. the empty one, 0..36 merges, "
            "0..14 data validations, 0..12 conditional formats x 1-3 rules, auto filter, tab colour argb/theme/indexed, panes + selections, page setup / margins / print options, "
            "header / footer with & codes, sheet and workbook protection flags and hashes, 0..12 defined names per sheet incl. multi-area, quoted, whole-row/column, formula and "
            "constant texts, hidden / veryHidden, active tab, sometimes the last sheet removed again), and every 5th corpus file (all in the thorough tier); quick N=80, thorough "
            "N=1000; each workbook saved 5 times + second generation. Requests after the header are the tie lines of the first package (sheetlist, dnw/dnr per defined name, "
            "range per merge / auto filter, links per sheet, comments per sheet). Codec cases: 8 witnesses (`c06 reset codecw <id>`: the seven repaired defects, all "
            "eight validation types) and N2 generated workbooks (`c06 reset codec <seed>`, quick N2=150, thorough 1500): 0-8 validations with every field set or unset independently, every "
            "constructor of both enums in turn, texts from the special-character alphabet with blanks at the ends, 0-5 ranges of all four shapes; 1-2 sheets x 0-4 blocks x 0-4 rules (a tenth of the blocks without rules, a tenth without ranges, a quarter of the scale colours without attributes) over a pool "
            "of 6 styles (incl. the hash-colliding pair), all 18/12/10/6 enum constructors, i32/u32 boundary values, scales with 0-3 cfvos / colours, formulas as text / bare area / sheet area "
            "on 9 sheet names; each saved, reloaded, saved again. Tie lines: `c06 dvs` per sheet with validations, `c06 cf` per package and per second generation. non-trivial = every tie "
            "line; distinct = distinct request line. Comment cases: 4 witnesses (`c06 reset cmtw <id>`: no-column-target = C06_comment_no_column_target, order = the "
            "non-vacuity example of C06_comment_roundtrip, blank-holders = valueless row / column holders, stale-target = a comment moved after new_comment next to a comment on its old cell), N3 generated workbooks (`c06 reset cmt <seed>`, quick N3=150, thorough 1500): 1-2 sheets x 0-12 comments on distinct scattered cells "
            "(columns to XFD, rows to 1048576) in random or reverse-sorted insertion order, authors from a pool of 8 incl. the empty one, text plain (specials, blanks / line breaks / U+3000 / NBSP at the ends, empty) "
            "or rich (0-4 runs, fonts on two thirds), anchors default or explicit incl. 0 and u32::MAX, visibility hidden by style / visible with an empty x:Visible / x:Visible True or False, valued "
            "MoveWithCells / SizeWithCells; one `c06 cmt` tie line per sheet with comments; N4 generated workbooks (`c06 reset cmtp <seed>`, quick N4=60, thorough 600) saved, the v:shape elements of every VML part reversed / rotated / shuffled, re-zipped and reloaded: oracle = every comment still "
            "has its own shape, one `c06 cmtr` line per sheet on the permuted part; every corpus file with a comments part (`c06 reset cmtf <file>`), one `c06 cmtr` line per sheet with comments. "
            "Names cases: 6 witnesses (`c06 reset nmw <id>`: remove-first-of-three / remove-first-of-two = the two refutations of the unfixed remove_sheet, remove-middle = the non-vacuity book, insert-front, unstable-moves, wb-id-out-of-range = reload panic predicted by the model) "
            "and N5 generated books (`c06 reset nm <seed>`, quick N5=300, thorough 3000): 2-6 sheets with exotic titles, 0-4 names per sheet (scoped to own sheet with areas on own / other / no sheet, constants, formulas, print areas, unscoped homed by first area; "
            "in a fifth of the cases also names stored away from their scope), 0-3 workbook-level names, then 0-3 operations remove_sheet(i) / new sheet appended or inserted at i, sometimes an out-of-range removal; one `c06 nm` tie line per case; oracle = lists before "
            "saving == lists after reload when the book is Stable at save time (evaluated on the real objects), else no (name, address) lost",
    "trusted_base": TB_COMMON + [
        "C06 codecs: Umya/Spec/XmlLex.lean (the independent XML reader that parses the real elements in the driver); harness/src/c06codec.rs (specs written down while calling the "
        "setters, enum spellings copied from ECMA-376, getter views, the raw-element scanner `elements`); Umya/Driver/C06Codec.lean (spec parser, attribute-order-insensitive tree "
        "comparison, dxf signature); Rust f64 to_string / parse round trip for colour tints",
        "quick-xml 0.37.5: escape, partial_escape, unescape, trim_text, no text event for an empty text node (modelled in Umya/Model/XmlEsc.lean and Annot.lean)",
        "C06 comments: harness/src/c06cmt.rs (getter view of a comment = the spec handed to the model and the observation after reload; locating the comments / VML part through the sheet's relationships); "
        "Umya/Driver/C06Comment.lean (spec parser, projection of the real VML tree onto the modelled attributes / children, plugging the real <rPr> elements into the model value); trim_text(true) modelled on "
        "decoded text (equal to the code unless a file spells white space at the ends of x:Anchor / x:Row / x:Column / x:Visible content as character references)",
        "fancy_regex on the is_address regex: hand-written matcher Umya.Annot.isAddress, tied by the dnr lines",
        "harness/src/wb.rs annot_entries (what counts as the observable state of each annotation kind); zip crate",
        "BTreeMap<String, _> iteration order = code-point lexicographic order of the coordinate text (Umya.Annot.walkOrder)",
    ],
    "assumptions": [
        "C06 codecs: ranges in sqref are one of the four printable shapes with columns <= ZZZ (18278) and rows < 2^32 (Dv.WF / BlockWF = the C17 hypotheses); priority / stdDev within i32, "
        "rank within u32 (the Rust field types); a block has at least one range and one rule; scale colours hold at most one of theme / indexed / rgb (what the setters leave) and "
        "something to write; the dxf table stays below 2^64 entries; a rule formula is a non-empty text is_address rejects, the empty formula, or a cell / cell:cell area, bare or on "
        "a legal sheet name (FmlWF)",
        "sheet names are legal: non-empty, not starting with an apostrophe, without : \\ ? [ ] / * (C06_defined_name_roundtrip)",
        "areas of an address-valued defined name are cells or cell:cell ranges, columns <= ZZZ, rows < 2^32; other shapes take the verbatim-text path",
        "the written text of a defined name has no leading / trailing blank (C06_defined_name_channel: the reader trims text events); true of every printed area list, not proved",
        "every comment's author occurs in the authors table (it is built from the comments)",
        "comments (WF of C06_comment_roundtrip): cell column in 1..18278 and row < 2^32; anchor fields and x:Row / x:Column values < 2^32 (the Rust field types); the authors table has fewer than 2^64 entries; "
        "run properties, when present, are an element called rPr; every comment's shape has an x:Column target (what Comment::new_comment and the reader set); ObjectType is Note; the sheet has no OLE objects",
        "view / page / protection codecs: Coordinate column in 1..18278 and row < 2^32; sqref ranges of the four C17 shapes; u32 fields < 2^32; floats are opaque tokens with print-then-parse = id (Rust f64 Display / FromStr)",
    ],
    "partial_clauses": [
        "data validations: the 2003-style <dataValidations> list is modelled and proved (Umya/Model/AnnotDv.lean, C06_data_validation_codec, C06_data_validations_roundtrip: "
        "all twelve fields set or unset, any text, any number of ranges of the four printable shapes, any number of validations), at the level of element trees over the proved "
        "escape channel (C06_codec_channel), tied on every run by the `c06 dvs` lines. NOT modelled: the x14 variant in <extLst> (office2010::excel::DataValidations, "
        "Worksheet::set_data_validations_2010) — harness oracle of the general cases only; `count` is not read by the library and not part of the theorem; a Range that is not one "
        "of the four shapes (e.g. only a start column) is outside Dv.WF",
        "conditional formatting: blocks x rules are modelled and proved (Umya/Model/AnnotCf.lean, C06_cf_rule_codec, C06_conditional_formatting_roundtrip: 13 attributes, colorScale / "
        "dataBar / iconSet with cfvo and colour lists, <formula> as free text or cell area, dxfId through a find-or-append table from any initial table), tied by the `c06 cf` lines. "
        "Limits: the rule's style is an OPAQUE value standing for the (font, fill, borders, alignment) projection a dxf carries - the dxf element codec itself (C05 territory) is tied "
        "only through a five-field signature (font name, size, bold, font rgb, fill fgColor rgb); number format / protection of a Style set on a rule are not carried by a dxf and are "
        "lost (not observed here); a colour's tint is carried as its decimal text (f64 print / parse trusted); indexed colours inside scales and the attributes of <iconSet> / <dataBar> "
        "elements themselves (iconSet=, showValue, minLength ...) are not held by the structs and not modelled; a formula text that is_address accepts but that is not in canonical "
        "spelling (A01, 'S'!A1) is re-printed canonically (outside FmlWF, shown by an example); a ConditionalFormatting without rules is not written and does not come back (norm "
        "writtenBlocks of C06_conditional_formatting_roundtrip: such a block holds no conditional format, and an element without cfRule would not be valid)",
        "the tree-level readers of both codecs look at direct children and ignore the Empty / Start event distinction except where stated (blocks without children): foreign "
        "spellings such as <formula/> or a <cfvo> with children under <dataBar> are read by the model but not by the code; only elements this library writes are in the theorems",
        "view / page / protection codecs (sheet views, panes, selections, page setup, margins, print options, header / footer, sheet and workbook protection, tab colour, active tab, defined-name attributes) are modelled and proved per element at the level of the tree an XML reader delivers (Umya/Thm/C06View.lean); the part walk that finds the element (Empty vs Start events, nesting) is tied by the vpp stream only",
        "printer-settings blob: the relationship lookup is a hypothesis of C06_page_setup_codec, observed through get_object_data",
        "has-value differences after reload (explicit tabSelected=false, defaults materialised in pane / workbookViewId / margins, empty header text, empty tab-colour object) are normalised by explicit norms proved getter-invisible (C06_sheet_view_norm, C06_pane_norm, ...)",
        
        
        
        "comments: text (plain = one run, rich = runs), style, anchor, x:Row / x:Column, x:Visible, x:MoveWithCells, x:SizeWithCells and the join of shapes to comments by cell are modelled and proved at the level of element trees "
        "(Umya/Model/AnnotComment.lean, C06_comment_roundtrip / C06_comment_no_swap), tied by the `c06 cmt` / `c06 cmtr` lines. Limits: run properties are OPAQUE (the <rPr> element is carried verbatim; that "
        "Font::set_attributes / write_to_rpr reproduce the font is the C05 font codec - here only observed by the harness oracle through a five-field font signature); the remaining attributes and children of "
        "v:shape (type, fillcolor, o:insetmode, v:fill, v:shadow, v:path, v:textbox), x:AutoFill / x:CF / x:AutoPict and OLE-object shapes are projected away before trees are compared and are covered by "
        "the general dump oracle only; the tree-level readers look at direct children and cannot tell <r/> or <x:Column/> (skipped by the code) from <r></r> / <x:Column></x:Column> (the library writes neither); "
        "C06_comment_join_by_cell assumes distinct comment cells and note shapes that name exactly the comments' cells; a loaded part with two note shapes naming one cell, or a note shape naming a cell without "
        "a comment next to shapes that do name cells, is joined as the code does (last shape wins / position) without a theorem saying that is what the producer meant",
        "auto filter: the struct holds the range only (C06_auto_filter_codec, C06_merge_roundtrip, `c06 range` lines); filter columns / criteria / sort state of a loaded file are not held by the library and are dropped on re-save (not a round-trip matter for values set through the API; C04 / C03 territory for loaded files)",
        "re-homing of defined names is modelled and proved (Umya/Thm/C06Names.lean, C06NamesHist.lean); the sheet of the first area is derived from the address text (firstAreaSheet = the set_address model; C06_defined_names_rehome_roundtrip_text) at the level of the "
        "unescaped text - the XML text channel (escape, trim) is C06_defined_name_channel, not composed here; a text on which set_address panics makes DNT.parse fail (no such text is printed by the library: C06_defined_name_roundtrip / _text_kept). The exact round trip is for Stable books; for other books only the filter characterisation (names move to the list the reader chooses, none lost) is proved. "
        "The reader panics on a localSheetId that indexes no sheet (reachable through the API by giving a workbook-level name such an id, or by a foreign file): modelled as panic and proved, not repaired",
        "sheets inserted in front of scoped names (only possible through get_sheet_collection_mut(); new_sheet / add_sheet append) leave stale localSheetIds: refuted by C06_defined_names_insert_front_fails, tied, harness oracle relaxed to "
        "`no name lost` for such histories; appended sheets are proved (C06_defined_names_append_sheet_stable, C06_defined_names_after_history) under AppendOK, which is a hypothesis on each appended sheet, not something the API enforces",
        "remove_sheet_by_name goes through remove_sheet (same fix); Worksheet::set_name re-pointing names and the hidden attribute are outside the names model (hidden: C06_defined_name_attrs)",
        "Worksheet::set_active_cell is not saved at all (known finding)",
    ],
    "technique": "Lean models + theorems of the annotation codecs (defined-name text, ranges, hyperlink rId walk, comment authors table, sheet list), raw-artefact correspondence on every written package, 5-saves / second-generation round-trip oracle over a full annotation dump",
    "timeout_quick": 600,
    "timeout_thorough": 3000,
}
