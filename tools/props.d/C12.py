PROP = {
    "thm": "Umya.Thm.C12",
    "frame_shared_state": True,
    "harness": "c12",
    "level": "proof",
    "stateful": True,
    "level_text": "Proof: the string side of a save (per-save table, find-or-append registration, cell indices) is modelled; for every workbook value the "
                  "written table is duplicate-free and holds exactly the reachable text (C12_exact), every text cell resolves to its own string "
                  "(C12_resolves), raw (never deserialized) sheets keep the loaded table as an untouched prefix (C12_raw), a save changes no workbook "
                  "object and depends only on the value saved (C12_pure, C12_depends_only_on_value). The tie runs histories of edits, clones, saves in any "
                  "order, reloads (eager and lazy) on the real API, compares sharedStrings.xml and every cell index with the model's prediction and scans the "
                  "whole package for strings that are not reachable.",
    "level_note": "Trusted: Lean kernel + 3 standard axioms; hand model as exercised; content-hash (AHasher∘md5) injectivity on the strings used; text is plain "
                  "tokens here (escaping and rich text belong to C01). With raw sheets present, stale strings of the loaded file may remain (C12_raw says exactly which).",
    "expect_theorems": ["C12_exact", "C12_resolves", "C12_raw", "C12_pure", "C12_depends_only_on_value", "C12_persistent_table_fails"],
    "rule": "random histories (3..30 ops) over up to 4 workbook objects: set/overwrite/delete text cells, remove rows, add/remove sheets, clone, save, reload, "
            "lazy reload, touch (materialise) a raw sheet; every save is performed twice and its package scanned. non-trivial = a save/reload line or an edit that returned; "
            "distinct = distinct request line (save lines carry the workbook description)",
    "trusted_base": TB_COMMON + ["zip crate (reading the written package back)", "content hash of SharedStringItem assumed injective on the generated strings"],
    "assumptions": ["strings are distinguished by their text (hash collisions excluded)"],
    "partial_clauses": ["purity (C12_pure) holds by construction in the functional model; that the implementation has no hidden shared state is what the "
                        "correspondence (clone/save orders, double saves) and C16's schedules check"],
    "technique": "Lean 4 theorems on find-or-append interning + differential check of sharedStrings.xml / cell indices over save-clone-reload histories",
}
