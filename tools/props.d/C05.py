PROP = {
    "thm": ["Umya.Thm.C05", "Umya.Thm.C05Codec", "Umya.Thm.C05Gen"],
    "harness": "c05",
    "level": "proof",
    "stateful": True,
    "level_text": "Proof for the interning part: Stylesheet::set_style (default style -> xf 0, whole-style look-up, find-or-append of font/fill/border by == "
                  "[after fix_1], number-format id allocation from max(175, ids)+1, apply* flags, inline alignment/protection) and get_style_by_cell_format on the "
                  "reloaded tables are modelled concretely; an invariant of the style sheet is proved for the style sheet of new_file() and preserved by set_style; "
                  "from it: every style of ANY sequence of set_style calls reads back through its index with its own effective formatting (C05_get_set, C05_get_set_all), "
                  "different effective styles never share an xf index (C05_no_merge, induction over the list, no size bound), setting a style again changes nothing "
                  "(C05_no_growth, C05_no_growth_resave), and expand(merge(sort columns)) = sort columns (C05_cols). The model is tied to the code by diffing, for every "
                  "generated workbook, the xf index of every cell/row/column run, the component ids and apply flags of every <xf>, the custom numFmts and all table sizes "
                  "read from the written styles.xml / sheet1.xml against the model's prediction. "
                  "The per-attribute XML codecs are modelled concretely (Model/StyleCodec.lean: write_to / set_attributes of colour, font and its eleven children, pattern / gradient fill, "
                  "border edges and <border>, alignment, protection, numFmt, <row>, <col> on element trees) and proved: for every value in range read(write x) = some (norm x) with an explicit norm, "
                  "norm idempotent, and eff(norm x) = eff x for every value the public setters produce (C05_color/font/fill/border/alignment/protection/numfmt/row/column_codec; every enum table "
                  "inverted by its FromStr: C05_enum_codec); no codec changes an attribute any more (the former counter-example, fill none + fgColor reloading as solid, was repaired by 90daeac: the model reader follows, C05_fill_codec holds without exception and C05_pattern_fill_codec_exact gives read(write p) = p for pattern fills whose colours carry an attribute). The concrete codecs are a value of the "
                  "parameter type of the interning theorems (C05_codecs_instantiate), giving the composite C05_effective_formatting_survives with no codec hypothesis. "
                  "The codec model is tied on every run by the `codec` requests: the real <font>/<fill>/<border>/<alignment>/<protection>/<numFmt>/<row>/<col> element of a saved workbook, lexed by the "
                  "independent XML reader, must be tree-equal to write x, and read of the model on the real element must show the getters of the reloaded workbook; the enum tables are regenerated from "
                  "the source and proved equal to the model's (C05_enum_tables_match_source).",
    "level_note": "Trusted: Lean kernel + 3 standard axioms; the hand model as exercised by the correspondence stream; md5 assumed injective where it is still used as a key "
                  "(number-format code, column width/hidden/bestFit) - a hypothesis of the theorems (hkey), instantiated by the identity in the driver; HashMap<u32,NumberingFormat> "
                  "modelled as an association list with distinct keys; f64 fields are tokens (Rust shortest decimal text), so NaN and -0 are outside the model; "
                  "the codec theorems are about element trees (attribute values after unescaping; the attribute text channel is C02_attr_channel / C03_attr), with the reader modelled on the events of a tree "
                  "serialised the way the writers serialise (empty_flag = Event::Empty); a float attribute is a token and reading it is the parameter cf (parse-or-zero then display), "
                  "float texts being the fixpoints of cf; md5 taken injective in Borders::write_to's comparison of the vertical / horizontal edge with Border::default(); "
                  "in C05_codecs_instantiate a fill carrying a gradient (one opaque token in Model/Style.lean) and token records no Rust struct can hold are left unchanged by the instantiated codecs "
                  "(the typed gradient codec is proved separately inside C05_fill_codec).",
    "expect_theorems": ["C05_tables_match_source", "C05_init", "C05_get_set", "C05_reload", "C05_get_set_reload", "C05_get_set_all", "C05_no_merge", "C05_no_growth", "C05_no_growth_resave", "C05_cols",
                        "C05_col_key_injective", "C05_pattern_fill_reload", "C05_pattern_fill_no_merge", "C05_setter_auto_solid", "C05_font_key_fails", "C05_color_key_fails", "C05_key_lookup_merges_fails", "C05_eq_lookup_separates",
                        "C05_enum_codec", "C05_color_codec", "C05_color_set_argb", "C05_font_codec", "C05_fill_codec", "C05_pattern_fill_codec_exact", "C05_border_codec",
                        "C05_alignment_codec", "C05_protection_codec", "C05_numfmt_codec", "C05_row_codec", "C05_column_codec", "C05_enum_tables_match_source",
                        "C05_codecs_instantiate", "C05_effective_formatting_survives", "C05_numfmt_alloc_matches_source"],
    "rule": "one case = one workbook (reset, cell/row/col assignments, save). Streams: (1) every adjacent-field collision pair of the concatenated keys of the unfixed code "
            "(font name|size, size|family, name 'empty!!' vs none, colour argb|tint inside font / pattern fill / border edge / gradient stop, colour none vs argb 'empty!!'), each pair "
            "alone in both orders and all together; (2) one workbook per component with every attribute varied one at a time around a base value, all near-duplicates coexisting "
            "(font: 11 attributes incl. all underline/scheme/vertAlign values and 12 colour forms; fill: all 19 patterns x fg/bg present/absent, indexed/theme/tint colours, gradients; "
            "borders: 7 edges x 14 line styles + colours + diagonal flags; alignment: all horizontal/vertical values, wrap, rotation; protection; all built-in number-format ids and 18 codes); "
            "(3) random workbooks with 1..600 distinct styles (60% of them one-attribute mutations of an earlier style of the same workbook) on cells, plus rows (height/hidden) and column runs "
            "(equal / one attribute different / other style, inserted unsorted); (4) column-run-only workbooks; (5) codec requests: every style of the attribute lists of (2) alone on cell A1 of a new workbook, "
            "30 boundary styles (i32 / u32 limits, XML-special characters and blanks in font names and format codes, colours in all forms with and without tint, tint-only and empty colours, "
            "pattern none/unset with a foreground colour, gradients), random full styles (60 / 600), 18 rows (height incl. 0, customHeight, hidden, thickBot, descent, with / without style) and "
            "13 columns (width, hidden, bestFit, style): each yields one derived `codecx` line carrying the real styles.xml and sheet1.xml. quick: 150 random + 6 column workbooks + 514 codec cases, thorough: 1450 + 40 + 1054. "
            "non-trivial = an assignment that was applied or a save that produced a dump; distinct = distinct request line",
    "trusted_base": TB_COMMON + [
        "md5 injectivity on number-format codes and on column key texts (hypothesis hkey of the theorems; the driver uses the identity)",
        "std HashMap semantics for NumberingFormats (association list with distinct keys in the model)",
        "Rust f64 Display/FromStr round trip (widths, heights, sizes, tints travel as shortest decimal text)",
        "quick-xml + zip used by the harness' independent scan of styles.xml / sheet1.xml",
        "tools/extract_tables.py for the seven enum string tables (regenerated every run, proved equal to the model's)",
        "the XML lexer of Spec/XmlLex.lean, executed by the driver on the real styles.xml / sheet1.xml of every codec case",
    ],
    "assumptions": [
        "workbooks start from new_file() (cellStyleXfs empty, style sheet = set_defalut_value); for a loaded foreign workbook the invariant Inv is a hypothesis",
        "styles are built through the public setters; a built-in number format carries the code of its id (Style.WF)",
        "float attributes are finite and not -0 (token equality = f64 equality there); NaN would make == fail and every use append a new entry",
        "interning stream: font names / format codes without XML-special characters other than quotes in format codes; the codec stream sends & < > \" ' tab, line feed and blanks in font names and format codes "
        "(they survive since fix ddd0f34; the codec theorems are stated on unescaped attribute values)",
        "codec theorems: numbers fit their Rust types (u32 / i32) and float fields hold float texts (Range predicates); colours are in one of the forms set_argb / set_indexed / set_theme_index produce "
        "(OneForm); a vertical / horizontal border edge does not carry the colour text `empty!!` (it hashes like no colour; NoMark); a fill has a pattern fill or a gradient, not both",
        "argb values given to set_argb are not among the 56 indexed colours unless stated (the driver mirrors set_argb's conversion to indexed)",
        "built-in ids with identical format codes (27/36/50/57, 28/29/51/54/58, ...) are compared up to the smallest id; set_format_code picks one of them by hash-map order",
    ],
    "partial_clauses": [
        "the pattern-fill codec exists twice, both after fix 90daeac (the reader stores fgColor without auto_set_pattern_type): on token records in Umya/Model/Style.lean (C05_pattern_fill_reload / "
        "C05_pattern_fill_no_merge, every pattern fill) and on element trees in Umya/Model/StyleCodec.lean (C05_fill_codec: read(write f) = norm f where norm only puts colours into their written form and drops a "
        "colour without attributes; C05_pattern_fill_codec_exact: the identity otherwise); pattern_views_agree relates the pattern type of the two views; the tree-level one is the one tied to the real XML on every run",
        "the codec theorems are about element trees and the reader's behaviour on trees serialised the way the writers serialise; bytes -> tree (tag syntax of quick-xml, Event::Empty vs Start/End for "
        "a foreign file) is validated per file by the codec requests, not proved",
        "C05_effective_formatting_survives speaks of the effective attributes of the token records of the interning model decoded to typed values; a gradient fill is one opaque token there and is outside "
        "the decoded view (its codec is proved at the typed level only); row / column attributes have their own codec theorems (C05_row_codec, C05_column_codec, with C05_cols for the runs) and are not "
        "part of the composite",
        "the differential-format table (dxfs, conditional formatting; looked up by equality since fix 0f4b522) is outside this property and outside the codec model",
    ],
    "technique": "Lean 4: find-or-append interning lemmas, style-sheet invariant by induction over unbounded set_style sequences, column merge/expand inverse; concrete XML codec model of every style component with read∘write = norm theorems; differential dump of styles.xml/sheet XML, tree equality of real elements with the model writer, model reader on real elements vs reloaded getters, save/reload oracle",
    "timeout_quick": 900,
    "timeout_thorough": 3000,
}
