PROP = {
    "thm": "Umya.Thm.C05",
    "harness": "c05",
    "level": "proof",
    "stateful": True,
    "level_text": "Proof for the interning part: Stylesheet::set_style (default style -> xf 0, whole-style look-up, find-or-append of font/fill/border by == "
                  "[after fix_1], number-format id allocation from max(175, ids)+1, apply* flags, inline alignment/protection) and get_style_by_cell_format on the "
                  "reloaded tables are modelled concretely; an invariant of the style sheet is proved for the style sheet of new_file() and preserved by set_style; "
                  "from it: every style of ANY sequence of set_style calls reads back through its index with its own effective formatting (C05_get_set, C05_get_set_all), "
                  "different effective styles never share an xf index (C05_no_merge, induction over the list, no size bound), setting a style again changes nothing "
                  "(C05_no_growth, C05_no_growth_resave), and expand(merge(sort columns)) = sort columns (C05_cols). The model is tied to the code by diffing, for every "
                  "generated workbook, the xf index of every cell/row/column run, the component ids and apply flags of every <xf>, the custom numFmts and all table sizes "
                  "read from the written styles.xml / sheet1.xml against the model's prediction. The per-attribute XML codecs are checked by the harness oracle only.",
    "level_note": "Trusted: Lean kernel + 3 standard axioms; the hand model as exercised by the correspondence stream; md5 assumed injective where it is still used as a key "
                  "(number-format code, column width/hidden/bestFit) - a hypothesis of the theorems (hkey), instantiated by the identity in the driver; HashMap<u32,NumberingFormat> "
                  "modelled as an association list with distinct keys; f64 fields are tokens (Rust shortest decimal text), so NaN and -0 are outside the model; "
                  "the XML codecs of font/fill/border/alignment/protection/format code are parameters with a round-trip-up-to-normalisation hypothesis.",
    "expect_theorems": ["C05_tables_match_source", "C05_init", "C05_get_set", "C05_reload", "C05_get_set_reload", "C05_get_set_all", "C05_no_merge", "C05_no_growth", "C05_no_growth_resave", "C05_cols",
                        "C05_col_key_injective", "C05_pattern_fill_reload", "C05_pattern_fill_no_merge", "C05_setter_auto_solid", "C05_font_key_fails", "C05_color_key_fails", "C05_key_lookup_merges_fails", "C05_eq_lookup_separates"],
    "rule": "one case = one workbook (reset, cell/row/col assignments, save). Streams: (1) every adjacent-field collision pair of the concatenated keys of the unfixed code "
            "(font name|size, size|family, name 'empty!!' vs none, colour argb|tint inside font / pattern fill / border edge / gradient stop, colour none vs argb 'empty!!'), each pair "
            "alone in both orders and all together; (2) one workbook per component with every attribute varied one at a time around a base value, all near-duplicates coexisting "
            "(font: 11 attributes incl. all underline/scheme/vertAlign values and 12 colour forms; fill: all 19 patterns x fg/bg present/absent, indexed/theme/tint colours, gradients; "
            "borders: 7 edges x 14 line styles + colours + diagonal flags; alignment: all horizontal/vertical values, wrap, rotation; protection; all built-in number-format ids and 18 codes); "
            "(3) random workbooks with 1..600 distinct styles (60% of them one-attribute mutations of an earlier style of the same workbook) on cells, plus rows (height/hidden) and column runs "
            "(equal / one attribute different / other style, inserted unsorted); (4) column-run-only workbooks. quick: 30 random + 6 column workbooks, thorough: 1450 + 40. "
            "non-trivial = an assignment that was applied or a save that produced a dump; distinct = distinct request line",
    "trusted_base": TB_COMMON + [
        "md5 injectivity on number-format codes and on column key texts (hypothesis hkey of the theorems; the driver uses the identity)",
        "std HashMap semantics for NumberingFormats (association list with distinct keys in the model)",
        "Rust f64 Display/FromStr round trip (widths, heights, sizes, tints travel as shortest decimal text)",
        "quick-xml + zip used by the harness' independent scan of styles.xml / sheet1.xml",
    ],
    "assumptions": [
        "workbooks start from new_file() (cellStyleXfs empty, style sheet = set_defalut_value); for a loaded foreign workbook the invariant Inv is a hypothesis",
        "styles are built through the public setters; a built-in number format carries the code of its id (Style.WF)",
        "float attributes are finite and not -0 (token equality = f64 equality there); NaN would make == fail and every use append a new entry",
        "font names / format codes without XML-special characters other than quotes in format codes (attribute unescaping on read is defect 9 of DESIGN section 4, owned by C03/C04/C06)",
        "argb values given to set_argb are not among the 56 indexed colours unless stated (the driver mirrors set_argb's conversion to indexed)",
        "built-in ids with identical format codes (27/36/50/57, 28/29/51/54/58, ...) are compared up to the smallest id; set_format_code picks one of them by hash-map order",
    ],
    "partial_clauses": [
        "the per-attribute XML codecs of font / fill / border / alignment / protection / numFmt code are parameters of the Lean theorems (round trip = an idempotent normalisation `norm`); "
        "that `norm` preserves the effective value of each of the ~60 attributes is established by the harness oracle only (each attribute varied one at a time, reload, compare through the public getters)",
        "the pattern-fill codec is also modelled concretely (after fix 90daeac: the reader no longer turns none/unset + fgColor into solid): C05_pattern_fill_reload / "
        "C05_pattern_fill_no_merge hold for every pattern fill; that model of write_to / set_attributes is tied to the code by the save/reload oracle only (not by the driver's dump)",
        "row height / customHeight / hidden and the `s` attribute of rows are in the model and in the correspondence dump; their survival after reload is checked by the oracle, no Lean theorem",
        "the differential-format table (dxfs, conditional formatting) is still searched by get_hash_code and is outside this property",
    ],
    "technique": "Lean 4: find-or-append interning lemmas, style-sheet invariant by induction over unbounded set_style sequences, column merge/expand inverse; differential dump of styles.xml/sheet XML + save/reload oracle",
    "timeout_quick": 900,
    "timeout_thorough": 3000,
}
