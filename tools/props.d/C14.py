PROP = {
    "thm": ["Umya.Thm.C14", "Umya.Thm.C14Gen", "Umya.Thm.C14Info", "Umya.Thm.C14InfoGen"],
    "frame_shared_state": True,
    "harness": "c14",
    "level": "proof",
    "stateful": False,
    "level_text": "Proof relative to abstract primitives: encrypt / crypt_package / create_iv / crypt / convert_password_to_key / "
                  "build_encryption_info of src/helper/crypt.rs are modelled in Lean (the five random draws are a parameter); the "
                  "MS-OFFCRYPTO 2.3.4.10-15 decryptor and verifier are written independently from the standard; for ALL packages "
                  "(< 4 GiB), passwords and random draws the decryptor returns exactly the package (verifier matches, HMAC over the whole "
                  "EncryptedPackage stream verifies, declared length = package length), encrypt never panics, the stream length is "
                  "8 + 16*ceil(n/16) for every n, and a password rejected by the verifier yields no plaintext. These statements hold from the two STREAM "
                  "CONTENTS (C14_decrypts_text / C14_verifier_hmac_len_text / C14_wrong_password_text: Agile.decryptFile / verifyFile on the EncryptionInfo "
                  "bytes build_encryption_info writes and the EncryptedPackage bytes), because the independent stream reader Agile.parseInfo (header check, "
                  "the XML 1.0 reader of Spec/XmlLex, a namespace-resolving walk over the element tree) returns exactly the descriptor for EVERY descriptor "
                  "with plain texts (C14_info_parses; route: the text is renderDoc of a tree of writer calls, C14_info_text_is_writer_calls, then "
                  "C02_bytes_parse); C14_source_streams_decrypt chains this with the compiled encrypt_parts. The model is tied to the "
                  "code on every run: real files written by write_with_password / write_with_password_light / set_password are opened with "
                  "the cfb crate and decrypted by the Lean decryptor (executable SHA-512/AES/HMAC/base64 in Lean) and by an independent Rust "
                  "decryptor (aes/cbc/sha2/hmac crates, harness/src/ind.rs); with the recovered random material the Lean model of encrypt "
                  "reproduces both streams byte for byte; private building blocks are compared through cfg(umya_verif) hooks.",
    "level_note": "SHA-512, AES-256-CBC, HMAC-SHA-512 and base64 are NOT proved: theorems quantify over an abstract Prims value with the "
                  "explicit laws Prims.Lawful (digest/HMAC = 64 bytes, AES-CBC keeps the length and decrypt inverts encrypt on block-aligned "
                  "input with a 32-byte key and 16-byte IV, unb64 (b64 x) = some x). 'Another password fails' is conditional on the explicit "
                  "hypothesis VerifierRejects (a cryptographic assumption). The *_text theorems add B64Plain P (base64 text is printable ASCII without "
                  "& < > \" '). For the EXECUTABLE base64 (Model/Base64.lean, the driver's instance) both base64 laws are theorems for all byte strings: "
                  "C14_base64_roundtrip (decode (encode x) = some x, induction on 3-byte groups) and C14_base64_plain. The executable Lean primitives are validated by FIPS 180-4 / "
                  "FIPS 197 / SP 800-38A / RFC 4231 / RFC 4648 vectors (op `c14 selftest`) and by agreement with the Rust crates on every line. "
                  "Bytes <-> characters of the EncryptionInfo stream is the byte-wise reading on both sides (every character of a plain descriptor's text is ASCII: proved). "
                  "On every `decrypt` line the driver also checks, on the REAL stream: prefix + renderDoc(infoW(parsed descriptor)) equals the stream byte for byte "
                  "(text=same), the hypothesis InfoWF of C14_info_parses holds of the parsed descriptor (wf=ok), and the older text scanner scanInfo reads the same "
                  "descriptor (scan=same).",
    "expect_theorems": ["C14_constants_match_source", "C14_hash_matches_source", "C14_info_matches_source", "C14_kdf_matches_source", "C14_iv_matches_source", "C14_package_matches_source",
                        "C14_encrypt_parts_matches_source", "C14_no_panic", "C14_decrypts", "C14_verifier_hmac_len", "C14_sizes", "C14_declared_size",
                        "C14_declared_size_4GiB_fails", "C14_wrong_password",
                        "C14_info_text_is_writer_calls", "C14_info_parses", "C14_info_tree", "C14_base64_roundtrip", "C14_base64_plain",
                        "C14_encrypt_info_wf", "C14_decrypts_text", "C14_verifier_hmac_len_text", "C14_wrong_password_text",
                        "C14_source_streams_decrypt"],
    "rule": "hook stream: convert_password_to_key (6 passwords x spin {0,1,2,3,50} x keyBits {256,128,512,520,8,0} x salts, one at spin 100000 = "
            "the crate's own test vector), create_iv (block sizes 0..100), crypt (good and panicking key/iv/input lengths), crypt_package on "
            "22 sizes around 16/4096 multiples; end-to-end stream: 6 passwords (empty, ASCII, XML-special, BMP, non-BMP, 255 chars mixed) x 10 cases "
            "= set_password on arbitrary byte payloads of sizes 0,1,15,16,17,4095,4096,4097,8191,8192,8193,12289 and write_with_password(_light) "
            "on fresh workbooks padded to the first reachable size congruent to 4095/0/1 mod 4096; every save -> derived `decrypt` line "
            "(Lean Agile.decrypt on the real streams), every 2nd -> `encrypt` line (Lean model of encrypt with the recovered randoms vs the real "
            "streams), every 4th -> wrong-password and flipped-byte lines. thorough: 40 passwords x 16 cases, sizes up to 100000. "
            "distinct = distinct request line; non-trivial = the implementation returned a value",
    "trusted_base": TB_COMMON + [
        "SHA-512 / AES-256-CBC / HMAC-SHA-512 / base64 as abstract primitives with stated laws; Lean executable versions validated by published vectors + differential agreement with the sha2/aes/cbc/hmac/base64 crates",
        "the cfb crate (compound-file container) on both the writing and the reading side; the zip/xlsx content of the package is opaque bytes here",
        "harness/src/ind.rs: independent Rust decryptor + tiny XML scanner (oracle side)",
        "cfg(umya_verif) hooks verif_convert_password_to_key / verif_create_iv / verif_crypt / verif_crypt_package are add-only wrappers of the private functions",
        "translator tie (C14_*_matches_source): hash, convert_password_to_key, create_iv, crypt_package, build_encryption_info, encrypt_parts and the buffer "
        "helpers are compiled from the current source and proved equal to the model for all arguments; read as externs: the Sha512 hasher (bytes fed so far, "
        "finalize = sha512), the quick-xml writer (text written so far; write_start_tag / write_end_tag = the model's startTag / endTag), crypt (= the model's "
        "crypt), hmac, base64, gen_random_N (k-th call = k-th value of an explicit stream); GenPrelude's rt_* model of slices / byteorder / to_le_bytes / encode_utf16; "
        "the while loop of crypt_package runs on fuel input.len()+1 (shown sufficient)",
    ],
    "assumptions": ["Prims.Lawful P (see level_note)", "random material has the sizes gen_random_32/16/64 return (Randoms.wellFormed)",
                    "package length < 2^32 for C14_decrypts / C14_verifier_hmac_len (the code writes StreamSize as `len as u32`)",
                    "C14_wrong_password(_text): VerifierRejects P spin pw pw' rho",
                    "C14_info_parses: InfoWF i (the thirteen texts of the descriptor are printable ASCII without & < > \" '; decidable, evaluated on every real descriptor: wf=ok)",
                    "C14_*_text, C14_source_streams_decrypt: B64Plain P (a theorem for the executable base64)"],
    "partial_clauses": [
        "freshness of key salt, package salt, package key, verifier input, HMAC key: not a functional property; explored by the harness (all five values of every save differ from all earlier ones), not proved",
        "declared length at >= 4 GiB: the model of the unchanged code declares n mod 2^32 (theorem C14_declared_size, refutation C14_declared_size_4GiB_fails); not replayable by the harness (needs a 4 GiB package), no code change made",
        "the cfb compound-file container around the two streams is outside the model (trusted to the cfb crate on both sides); the theorems start from the stream contents",
        "the quick-xml writer stays an extern of the translator tie: C14_info_matches_source reads write_start_tag as the model's unescaped startTag; that this equals "
        "writer/driver.rs's escaping write_start_tag on the values that occur is now a theorem for plain texts (C14_info_text_is_writer_calls) and checked on every real stream (text=same)",
        "replay of a lone derived `encrypt` line re-assembles the streams from the hooked building blocks (encrypt cannot be given its random material)",
    ],
    "technique": "Lean 4 proof over a hand model (abstract SHA-512/AES/HMAC/base64) + differential check: real files decrypted by a Lean and a Rust MS-OFFCRYPTO decryptor",
    "timeout_quick": 900, "driver_timeout": 1500, "timeout_thorough": 3600,
}
