import re

_WS = " \t\n\r"


def _unhex(x):
    try:
        return bytes.fromhex("" if x in ("-", "~") else x).decode("utf8")
    except Exception:
        return None


def _split_view(v):
    """view text -> (head fields dict, [per-sheet dict key -> list of items])"""
    chunks = v.split(" # ")
    head = dict(f.split("=", 1) for f in chunks[0].split(";") if "=" in f)
    sheets = []
    for ch in chunks[1:]:
        sheets.append({f.split("=", 1)[0]: [i for i in f.split("=", 1)[1].split(",") if i] for f in ch.split(";") if "=" in f})
    return head, sheets


def _classify(op, a, b):
    """op = request line, a = the view of what the library loaded, b = the independent decoder's verdict.
    All differences of a file are classified; the class is the sorted set joined by '+', so that a
    known finding can only excuse a file whose differences are ALL known ones."""
    if op.startswith("c03 part"):
        return ("part-not-wellformed-xml", b)
    if op.startswith("c03 model"):
        # correspondence: the Lean MODEL of the reader above the cell level (Umya/Model/ReaderSheet.lean) against the
        # workbook the library loaded, on the modelled components (sheet list, names, cells, merges, links).  The model
        # follows the CODE, known findings included, so no known finding excuses a difference here.
        va, vb = a.split(" ## ")[0], b.split(" ## ")[0]
        if not (va.startswith("mview=") and vb.startswith("mview=")):
            return ("model-reader-differs", f"{va[:200]} | {vb[:200]}")
        va, vb = va[6:], vb[6:]
        if " # " not in va or " # " not in vb:
            return ("model-reader-differs:" + ("library-" + va if " # " not in va else "model-" + vb).split(" ")[0], f"{va[:200]} | {vb[:200]}")
        cls, detail = _classify("c03 decode", "errs=0;;view=active=0;" + va, "errs=0;;view=active=0;" + vb)
        return ("model-reader-differs:" + cls, detail)
    b0 = b.split(" ## ")[0]
    notes = b.split(" ## ", 1)[1] if " ## " in b else ""
    # errs=<n> | dup-rel-ids | order (the two diagnostics under which a restricted / store view is still compared: edge 15, 16)
    m = re.match(r"errs=([\w-]+);(.*?);view=(.*)$", b0, re.S)
    if not m:
        return ("independent-decoder-differs", b[:300])
    va = a.split(";view=", 1)[1].split(" ## ")[0] if ";view=" in a else ""
    if va.startswith("read-panicked") or va.startswith("read-error") or va.startswith("view-panicked"):
        return ("library-" + va.split(" ")[0], notes)
    if m.group(1) != "0" and not (m.group(1) == "order" and a.split(" ## ")[0].startswith("errs=order;")):
        return ("file-outside-the-domain", m.group(2) or notes)
    if "modelpos=" in m.group(2):
        # the Lean MODEL of the library's position rule (rows / cells without r) differs from the spec on a
        # file the spec accepts: the model is wrong about the code, or C03_positions' hypotheses are too narrow
        return ("model-positions-differ-from-spec", m.group(2).split("modelpos=", 1)[1])
    vb = m.group(3)
    ha, sa = _split_view(va)
    hb, sb = _split_view(vb)
    classes, details = set(), []

    def add(c, d):
        classes.add(c)
        if len(details) < 6:
            details.append(f"{c}: {d}")

    no_r = set(int(x) for x in re.findall(r"no-r:(\d+)", notes))
    for k in ("active", "sheets"):
        if ha.get(k) != hb.get(k):
            add("sheet-list-differs", f"{k}: library {ha.get(k)} file {hb.get(k)}")
    if ha.get("names") != hb.get("names"):
        xa, xb = set(ha.get("names", "").split("|")), set(hb.get("names", "").split("|"))
        # name:scope:text:home - the same names with the same texts, found in another list (workbook / sheet k) than expected
        strip = lambda xs: sorted(x.rsplit(":", 1)[0] for x in xs if x.count(":") == 3)
        if strip(xa) == strip(xb) and all(x.count(":") == 3 for x in xa | xb):
            for it in sorted(xb - xa)[:3]:
                p = it.split(":")
                add("defined-name-home-differs", f"{_unhex(p[0])} scope {p[1]}: expected in list {p[3]}, library has it in {[x.split(':')[3] for x in xa - xb if x.split(':')[:3] == p[:3]]}")
            xb = xa
        for it in sorted(xb - xa)[:3]:
            p = it.split(":")
            add("defined-name-differs", f"file {_unhex(p[0])} scope {p[1] if len(p) > 1 else ''} = {_unhex(p[2]) if len(p) > 2 else ''}; library has {[_unhex(x.split(':')[2]) for x in xa - xb if x.split(':')[0] == p[0]]}")
        if not (xb - xa) and xa - xb:
            add("defined-name-differs", f"library only: {sorted(xa - xb)[:2]}")
    if len(sa) != len(sb):
        add("sheet-count-differs", f"{len(sa)} vs {len(sb)}")
    for i, (x, y) in enumerate(zip(sa, sb)):
        for key in ("cells", "merges", "links", "cols", "rows", "tables"):
            xs, ys = x.get(key, []), y.get(key, [])
            if xs == ys:
                continue
            # (sheets whose rows / cells omit r are classified like any other since fix 8281a0c:
            #  a position difference there is a new failure)
            if key in ("cells", "links"):
                da = {it.split("/")[0]: it for it in xs}
                db = {it.split("/")[0]: it for it in ys}
                for ref in sorted(set(da) | set(db)):
                    p, q = da.get(ref), db.get(ref)
                    if p == q:
                        continue
                    if key == "cells" and p is None and q.split("/")[1] == "s" and q.split("/")[3] == "~" and (_unhex(q.split("/")[2]) or "x").strip(_WS) == "":
                        add("str-value-edge-blanks-trimmed", f"sheet {i} {ref}: file {_unhex(q.split('/')[2])!r} library no value")
                        continue
                    if p is None or q is None:
                        add(f"{key[:-1]}-missing-or-extra", f"sheet {i} {ref}: library {p} file {q}")
                        continue
                    fp, fq = p.split("/"), q.split("/")
                    if key == "cells" and len(fp) == len(fq) == 5:
                        # value, formula and style facts are classified independently
                        if fp[1:3] != fq[1:3]:
                            tp, tq = _unhex(fp[2]), _unhex(fq[2])
                            txt = fq[1] == "s" and fp[1] in ("s", "") and tp is not None and tq is not None
                            if txt and tp != tq and tq.strip(_WS) == tp.strip(_WS) and len(tp) < len(tq) and tp in tq:
                                add("str-value-edge-blanks-trimmed", f"sheet {i} {ref}: file {tq!r} library {tp!r}")
                            elif txt and fp[1] == "s" and "\r" in tp and tp.replace("\r\n", "\n").replace("\r", "\n") == tq.replace("\r\n", "\n").replace("\r", "\n") and len(tq) < len(tp):
                                add("literal-cr-not-normalised", f"sheet {i} {ref}: library {tp[:40]!r} file {tq[:40]!r}")
                            elif fp[1] != fq[1]:
                                add("value-kind-differs", f"sheet {i} {ref}: library {fp[1]}:{_unhex(fp[2]) if fp[1] != 'n' else fp[2]} file {fq[1]}:{_unhex(fq[2]) if fq[1] != 'n' else fq[2]}")
                            else:
                                add("value-differs", f"sheet {i} {ref}: library {_unhex(fp[2]) if fp[1] != 'n' else fp[2]!r} file {_unhex(fq[2]) if fq[1] != 'n' else fq[2]!r}")
                        if fp[3] != fq[3]:
                            gp, gq = _unhex(fp[3]) or "", _unhex(fq[3]) or "x"
                            if gp.replace(" ", "") == gq.replace(" ", "") and " " in gq:
                                add("shared-formula-blanks-dropped", f"sheet {i} {ref}: library {gp!r} file {gq!r}")
                            else:
                                add("formula-differs", f"sheet {i} {ref}: library {gp!r} file {gq!r}")
                        if fp[4] != fq[4]:
                            # nf _ font _ fill _ border _ alignment _ protection; was a known finding until the fix (e6602f5): the
                            # library's xf inherited the alignment / protection of cellStyleXfs[0] where the file's xf has none
                            # (all other facts equal); the class is kept so that a regression is named
                            xa, xb = fp[4].split("_"), fq[4].split("_")
                            if len(xa) == len(xb) == 6 and xa[:4] == xb[:4] and all(u == w or (w == "-" and u != "-") for u, w in zip(xa[4:], xb[4:])):
                                add("style-alignment-from-cell-style", f"sheet {i} {ref}: library {'_'.join(xa[4:])} file {'_'.join(xb[4:])}")
                            else:
                                add("style-facts-differ", f"sheet {i} {ref}: library {fp[4]} file {fq[4]}")
                    elif key == "links" and len(fp) == len(fq) == 5:
                        if fq[1] == "e" and fq[3] != "~" and fp[2] == fq[2] and fp[4] == fq[4]:
                            add("hyperlink-location-with-rid", f"sheet {i} {ref}: file target {_unhex(fq[2])!r} + location {_unhex(fq[3])!r}; library keeps one string")
                        else:
                            add("hyperlink-differs", f"sheet {i} {ref}: library {p} file {q}")
                    else:
                        add(key + "-differ", f"sheet {i} {ref}: library {p} file {q}")
            else:
                only_a = [t for t in xs if t not in ys][:2]
                only_b = [t for t in ys if t not in xs][:2]
                add(key + "-differ", f"sheet {i}: library only {only_a} file only {only_b}")
    if not classes:
        return ("view-differs-other", f"{va[:200]} | {vb[:200]}")
    return ("view:" + "+".join(sorted(classes)), " || ".join(details))


PROP = {
    "thm": ["Umya.Thm.C03", "Umya.Thm.C03Cell", "Umya.Thm.C03Sheet", "Umya.Thm.C03Gen", "Umya.Thm.C03Book", "Umya.Thm.C03Names", "Umya.Thm.C03Store", "Umya.Thm.C03StoreSorted"],
    "harness": "c03",
    "level": "translation_validation",
    "stateful": True,
    "disagreement_is_oracle": True,
    "classify_disagreement": _classify,
    "timeout_quick": 900,
    "timeout_thorough": 3000,
    "driver_timeout": 3000,
    "level_text": "Translation validation per file by an independent decoder executed in Lean, plus theorems for the cell-level reading rules. Every part of every "
                  "file (53 corpus files in the quick tier, all 55 in the thorough tier; 300 / 5000 packages emitted by a seed-driven xlsx grammar that writes the XML itself; "
                  "16 hand-written boundary packages) is lexed by an XML 1.0 reader and decoded by an OPC/SpreadsheetML decoder written from the standards "
                  "(Umya.Spec.Xml, Umya.Spec.Sml, Umya.Spec.SharedFormula, Umya.Spec.Double): cells with value / kind / formula incl. expanded shared formulas, numbers as "
                  "exact binary64 bit patterns, style facts through cellXfs (numFmt id / custom code, bold, fill pattern and foreground colour), columns, rows, hyperlinks "
                  "through the rels part, tables, defined names, sheet list. Its view must equal the view printed from the workbook the LIBRARY loaded (read_reader + public getters). "
                  "Theorems (all inputs of the stated shape, no size bounds): C03_attr / C03_text (the library's unescaping returns the XML value whenever the XML reader accepts "
                  "the text, literal line ends and attribute white space included), C03_cols (col span expansion), C03_shared_formula (a child's reference tokens are translated exactly as the spec translator prints "
                  "them, every offset incl. negative ones, from C09_translate_ref), C03_value_number / C03_value_error, "
                  "C03_cell (for EVERY cell element of the valid grammar `validCell` and every shared-string table the model of Cell::set_attributes does not panic and shows the value text, kind, "
                  "formula, shared-formula group, style index and reference of Spec.decodeCell, for every cell type: t absent / n, s, str, b with 1/0/true/false, e, inlineStr with plain t, rich runs and "
                  "phonetic runs; one lemma per type C03_cell_number / _shared_string / _str / _bool / _error / _inline_string, C03_string_item: the library's string item = the standard's, C03_cell_kind), "
                  "C03_positions (for every list of rows and cells, r present or omitted in any mixture, the model of the position rule of fix 8281a0c puts every row and cell where the spec's rowNumbers / fillRefs do). "
                  "Sheet and workbook level (Thm/C03Sheet.lean, model Umya/Model/ReaderSheet.lean): C03_sheet (for EVERY list of <row> elements with validSheetData - unbounded rows, cells, shared groups, r present or not, "
                  "children anywhere relative to the master - and EVERY shared-formula translator T, the model of the reader's sheetData loop (Row / Cell / CellFormula::set_attributes with last_row_num, last_col_num and "
                  "formula_shared_list) yields in document order exactly the (column, row, kind, value text, formula text, style index) of the decoder's cell list = rowNumbers + decodeCell + fillRefs + shared-formula expansion "
                  "with T as the translator; C03_sheet_decoder: with the spec's translator no panic and the cells of Spec.decodeSheet (C03_sheet_is_decodeSheet); C03_sheet_code: the instance for the code's translator), "
                  "C03_shared_formula_tokens (C03_shared_formula lifted from one reference to any token list of non-reference tokens and well-formed references, from C09_translate_partial), "
                  "C03_sst (the shared-strings table the library builds holds at every index the decoder's rstText, <si/> / <t/> / runs / phonetic runs included; C03_sst_cell composes it with t=s cells), "
                  "C03_rels + C03_hyperlinks (r:id -> first relationship with that Id -> Target, location, tooltip: link by link the decoder's Link, for any number of links; C03_hyperlinks_is_decodeSheet), "
                  "C03_sheet_list (names, states, r:id and the relationship each sheet selects), C03_merges_partial, C03_defined_names_partial. "
                  "Workbook level (Thm/C03Names.lean, model Umya/Model/ReaderBook.lean): C03_merges (full: Range::set_range / get_range inside the merge loop, from C17_range: for every list of mergeCell elements whose ref is the A1 text of a "
                  "cell / cell:cell / whole rows / whole columns range, no panic and get_merge_cells() prints exactly the decoder's merges), C03_defined_names (full for what the decoder delivers - name, scope, text - with set_address / get_address "
                  "inside the model, from C06_defined_name_roundtrip / _text_kept: every text that is not a plain area list, and area lists in the spelling get_address_ptn2 prints; C03_defined_name_areas), C03_names_home (the re-homing loop of workbook.rs: "
                  "no panic iff every localSheetId is inside the sheet list, every name kept once in document order, a scoped name in the list of sheet localSheetId, an unscoped name by the sheet of its FIRST area, else the workbook list), "
                  "C03_sheet_paths / C03_sheet_part (join_paths(\"xl\", target) after the /xl/ stripping = the decoder's resolveTargetL against xl/workbook.xml for EVERY relative target and every absolute target in normal form - completes C03_sheet_list), "
                  "C03_table_columns (table.rs vs decodeTable: name, displayName, column names, area), C03_book_sheet and C03_book (ONE theorem for a package: under the per-part validity predicates the reader model readBook - the function the driver runs "
                  "against the implementation on every file - does not panic, Spec.Sml.decode delivers a BookV, and both show the same sheet list and per sheet the same cells in document order, resolved style facts of every cell, merged ranges, hyperlinks, and the same defined names, scoped names at home on their sheet; C03_book_any: the same with the defined names in any spelling of the decidable grammar nameTextAnyB, "
                  "the names compared through canonNameV = the decoder's text re-quoted by the library's rule; C03_book is the special case). The cell STORE (Thm/C03Store.lean, model Umya/Model/CellStore.lean: Cells::set_fast = HashMap::insert per cell in document order, "
                  "an association list whose insert removes the old entry): C03_store_last_wins (for EVERY list of cells a look-up at (row, column) returns the LAST cell of the list at that position; C03_last_at_meaning: = getLast? of the filtered list; "
                  "C03_store_is_map: no position twice), C03_sheet_store (for every validSheetData - which ALLOWS a position to occur any number of times, in one row or in repeated rows - every translator T and every position the store the reader model fills and the "
                  "store filled from the decoder's cell list show the same cell or both nothing: equal as maps; C03_sheet_store_decoder with the spec's translator), C03_book_store (under the hypotheses of C03_book_any, for every sheet index and every position "
                  "the library model's store and the decoder's store agree). The SORTED enumeration get_cell_collection_sorted (Store.sorted = merge sort of the store's entries by (row, column); Thm/C03StoreSorted.lean, lemmas Lemmas/CellStoreSorted.lean over core List.mergeSort_perm / pairwise_mergeSort): "
                  "C03_store_sorted_perm (the sorted entries are a permutation of the store), C03_store_sorted_strict (no position twice => positions of the sorted entries strictlySorted), C03_store_sorted_key_injective (the order is antisymmetric and total on positions themselves: "
                  "the key is the position, no side condition), C03_store_sorted_eq (ANY two stores, any value types compared through any f, g, with no position twice and the same look-up at every position have EQUAL sorted lists and equal position lists; _same: one value type), "
                  "C03_sheet_store_sorted (hypotheses of C03_sheet_store: the reader model's and the decoder's sorted cell lists show the same views AS LISTS, every translator, both panic together), C03_book_store_sorted (hypotheses of C03_book_store: the same for every sheet index). "
                  "C03_sheet_part_last: for ANY workbook relationship list, ids duplicated or not, the model reads a sheet from the part of the LAST relationship with the sheet's r:id (as reader/xlsx.rs does) "
                  "= the decoder's path rule applied to the LAST of the decoder's relationships with that Id; C03_sheet_part (hypothesis: at most one relationship with that id) then gives the decoder's choice (the first). "
                  "Style resolution through cellXfs (Thm/C03Book.lean, model Umya/Model/ReaderStyle.lean built from the C05 codec models Umya.StyleCodec.*.read and Umya.Style.pick; decoder Spec.Sml.styleTable, "
                  "extended for this from ECMA-376 18.8 with FontV / FillV / BorderV / AlignV / ProtV and the apply* attributes): C03_style_resolution (for EVERY styles.xml tree with the explicit decidable validStyles - any "
                  "number of numFmts, fonts, fills, borders, xfs; children in any order; optional children / attributes present or not; apply* flags 0 / 1 / true / false / absent - the model of Stylesheet::set_attributes + make_style "
                  "does not panic and maked_style_list holds at EVERY index the facts the decoder assigns to that xf: font name / size / bold / italic / underline / strike / colour, pattern fill type and both colours, the five border edges "
                  "with style and colour and the two diagonal flags, alignment (horizontal, vertical, wrapText, textRotation), number-format id and custom code, protection), C03_style_cell (composed with a cell's s attribute and "
                  "Spec.decodeCell's style index), C03_style_cell_unstyled, C03_style_components (font, fill, border, alignment, protection, xf: one statement each), and "
                  "C03_style_alignment_own_record (an xf without <alignment> shows none whatever cellStyleXfs[0] carries; corpus issue_210.xlsx; was known finding C03-style-alignment-from-cell-style, repaired by e6602f5; "
                  "the refutation is kept for the rule before the fix: C03_style_alignment_from_cell_style_unfixed_fails).",
    "level_note": "The file-level agreement is validated per file, NOT proved for all valid files: there is no Lean model of the whole reader. The model of the cell reader and of the position rule "
                  "(Umya/Model/Reader.lean: readCell, stringItem, sheetPositions) is tied to the code indirectly: the driver runs it next to the spec on every <c> and every <sheetData> of every file; "
                  "cells are reported as model-vs-spec-cells in the informational part of the reply, a POSITION difference on a file the spec accepts is put into the compared part (modelpos=) and fails the check "
                  "(class model-positions-differ-from-spec); the spec is compared with the implementation by the oracle, so on a passing file model, spec and implementation agree pairwise on the positions. "
"The model of the reader ABOVE the cell level (Umya/Model/ReaderSheet.lean: readRows / readSheetData with codeTr, readSst, readRels, readHyperlinks, readMerges, readSheetList, readDefinedNames) is tied "
                  "to the code directly: after `c03 decode` every case sends `c03 model`; the driver runs the model on the lexed parts (every sheet part of the package) and prints the modelled components of the view "
                  "(sheet list, defined names, per sheet cells with value / kind / formula and the RESOLVED effective style facts of every cell - the model of the style sheet reader (readStyleSheet, `cf` = identity, float texts compared as binary64 bits) "
                  "indexed by the cell's s; a cell without s shows no style of its own -, merges, links); the harness prints the same components of the workbook the LIBRARY loaded (facts_full: public getters of Style / Font / Fill / Borders / Alignment / Protection / NumberingFormat, presence of a value from the Debug text); "
                  "a styles part whose elements use the tag form the library does not see (children of font / patternFill / edge / xf and numFmt as start+end tag, <fill/> as empty element) is answered `unmodelled`; "
                  "a difference is class model-reader-differs:* and no known finding excuses it (the model follows the code, deviations included). Packages whose parts use comments / CDATA, the tag forms of known finding "
                  "C03-edge-start-end-tag-form or prefixed SpreadsheetML element names are answered `unmodelled` (2 of 365 cases in the quick tier: edge 3 and edge 4; 363 compared). "
                  "Trusted: the Lean decoder (spec, ~900 lines, executed, not "
                  "verified against the standards' text), the zip crate, the harness view function and generator, the classifier in this file. Below the abstraction (not compared): "
                  "empty string vs no value (C03_cell compares kinds through shownKind for the same reason), blank hyperlink-anchor cells, default-width columns, optional apostrophes around plain sheet names in defined names, order of tables.",
    "expect_theorems": ["C03_channels_match_source", "C03_guess_matches_source", "C03_attr", "C03_attr_get", "C03_text", "C03_cols", "C03_shared_formula", "C03_value_number", "C03_value_error",
                        "C03_string_item", "C03_cell_number", "C03_cell_shared_string", "C03_cell_str", "C03_cell_bool", "C03_cell_error", "C03_cell_inline_string",
                        "C03_cell", "C03_cell_kind", "C03_positions",
                        "C03_attr_literal_whitespace", "C03_text_literal_cr", "C03_cell_edge_blanks_fails", "C03_cell_t_and_runs_fails",
                        "C03_sheet", "C03_sheet_decoder", "C03_sheet_is_decodeSheet", "C03_sheet_code", "C03_shared_formula_tokens",
                        "C03_sst", "C03_sst_is_decoder", "C03_sst_cell", "C03_rels", "C03_hyperlinks", "C03_hyperlinks_is_decodeSheet",
                        "C03_hyperlink_location_with_rid_fails", "C03_merges_partial", "C03_merges_is_decodeSheet", "C03_sheet_list",
                        "C03_defined_names_partial",
                        "C03_style_resolution", "C03_style_cell", "C03_style_cell_unstyled", "C03_style_components",
                        "C03_style_alignment_own_record", "C03_style_alignment_from_cell_style_unfixed_fails",
                        "C03_merges", "C03_defined_names", "C03_defined_name_areas", "C03_names_home", "C03_sheet_paths", "C03_sheet_part",
                        "C03_table_columns", "C03_book_sheet", "C03_book",
                        "C03_merge_ref_grammar", "C03_merges_canonical", "C03_defined_names_any_spelling", "C03_canon_text_meaning",
                        "C03_canon_text_library_spelling", "C03_sheet_part_last", "C03_store_last_wins", "C03_last_at_meaning", "C03_store_is_map", "C03_sheet_store", "C03_sheet_store_decoder", "C03_book_any", "C03_book_store",
                        "C03_store_sorted_perm", "C03_store_sorted_strict", "C03_store_sorted_key_injective", "C03_store_sorted_eq", "C03_store_sorted_eq_same", "C03_sheet_store_sorted", "C03_book_store_sorted"],
    "rule": "case = one xlsx file: `c03 reset file <corpus file>`, `c03 reset gen <seed>` (grammar derivation from the seed; productions listed at the top of harness/src/c03.rs and "
            "counted as prod.* in the distribution: cell encodings t=absent/n/s/str/inlineStr/b/e with and without formula, number forms, shared/inline strings plain/rich/phonetic/"
            "xml:space/looks-typed, entities and character references in text and attributes, shared-formula blocks with the master anywhere in its ref and children right/below/"
            "left-below, array formulas, optional r/spans/s, row attributes, col spans incl. max=16384, 1-4 sheets with escaped names, hidden sheets, arbitrary part names and "
            "relationship ids, defined names global/local/constant/multi-area/multi-sheet (first and last area on different sheets)/unknown sheet, names with characters that need escaping, hyperlinks external/location/both/tooltip/display, one table, a styles part with 1-8 xfs over 6 fonts / 6 fills / 3 borders (xfs share components; "
            "font children in different orders, missing sz / name, <b val=0>, underline forms, strike, colours rgb / theme+tint / indexed; pattern fill without patternType; diagonal border; every apply* flag independently absent / 1 / 0 / true / false; "
            "alignment and protection children; built-in and custom number formats)), "
            "`c03 reset edge <k>` (16 hand-written boundary packages: edge 15 = a workbook relationships part with a DUPLICATED Id (two worksheet relationships rId1 -> sheet1.xml / sheet2.xml: the library reads the last; `c03 decode` compares the head of the view only, marked errs=dup-rel-ids on both sides, `c03 model` the sheet), edge 16 = the non-vacuity example of C03_sheet_store (position A1 three times, in one row and in a repeated row: the decoder's order diagnostic is expected, errs=order, and its cells are shown through the store), edge 14 = where defined names live (three sheets behind a relative, an absolute and a dotted target; a scoped name whose area is on another sheet, an unscoped name whose first and last areas are on different sheets, escaped name and sheet name, formula / constant / whole-row bodies, a missing sheet; merged ranges up to the last row), edge 12 = the non-vacuity example of C03_sheet (two shared groups, children right / below-left, a row and cells without r, inline string, <si/>), edge 13 = the witness of C03_hyperlink_location_with_rid_fails next to valid links and merges; shared-formula blocks at the grid edge, start/end-tag forms, CDATA / comments, literal white space in attributes, t=\"b\" with true / false, a string item with t and runs, an empty <si/>, blanks at the ends of texts). Every part is one request, `c03 decode` compares the library's view with the decoder's, `c03 model` the library's with the reader model's. Only the case headers of a replay are acted on. "
            "non-trivial = every part / decode request; distinct = distinct request line",
    "trusted_base": TB_COMMON + ["independent decoder Umya/Spec/XmlLex.lean + Sml.lean + SharedFormula.lean + Double.lean (executed, not verified against the standards' text)",
                                 "zip crate", "harness generator and view (harness/src/c03.rs)", "difference classifier (tools/props.d/C03.py)"],
    "assumptions": ["C03_attr / C03_text hold for every raw text the XML reader accepts (since fix ddd0f34 no hypothesis on literal white space)",
                    "C03_cell, hypothesis validCell (explicit, decidable; Thm/C03.lean documents each conjunct): t absent or one of n / s / str / b / e / inlineStr; at most one f, one v, one is; "
                    "s and the si of f unsigned decimals that fit usize / u32 (the library unwraps the parse); a t=\"shared\" formula carries si (the library would use group 0); f and v hold character data only "
                    "(one text node; comments / CDATA inside are known finding edge 4); v without blanks at its ends unless t=\"str\" (the sheet reader trims) and fitting the type: s = index of an item of the table "
                    "(out-of-range / non-numeric v: the library panics on unwrap, the spec reports the file as outside the domain; both outside validCell), b one of 1 0 true false, e one of the seven error codes, "
                    "number = non-empty text Rust's f64 parser accepts and guess_typed_data does not take for TRUE / FALSE / an error code; a string item (si / is) is EITHER one plain t OR runs with at most one t each, "
                    "every t character data only and, in the worksheet part, blanks at its ends only with xml:space=\"preserve\"",
                    "C03_cell compares the kind through shownKind (text kind with an empty text = no value); C03_cell_kind: plain equality whenever the value is not empty",
                    "C03_positions, hypothesis validPositions: a row's r an unsigned decimal that fits u32, a cell's r 1-3 upper-case letters + decimal row that fits u32 (the library's regex; lower-case or $ forms are outside), "
                    "the positions the spec assigns inside the grid (rows <= 1048576, columns <= 16384; beyond ZZZ the library panics); nothing is assumed about order",
                    "C03_sheet, hypothesis validSheetData: every c a validCell, validPositions, groupsOk (shared groups well-formed in document order), mastersCarryRef; "
                    "C03_sst: every si a validRst; C03_hyperlinks: validHyperlinks (an r:id link's relationship exists and the link has no location - known finding C03-hyperlink-location-with-rid, refuted by "
                    "C03_hyperlink_location_with_rid_fails, edge 13 - ; a link without r:id has location) and RelsAgree (from C03_rels: every Relationship carries Id, Type, Target); "
                    "C03_sheet_list: name, sheetId, r:id present; C03_defined_names_partial: localSheetId fits u32, content without blanks at its ends (trim_text)",
                    "C03_merges, hypothesis MergeRefOk per ref (explicit; decidable sufficient test mergeRefOkB, sound by mergeRefOkB_sound; the driver prints per file how many refs pass, informational): the text is Range.print of a range of one of the four shapes with columns <= ZZZ and rows < 2^32 "
                    "(outside: lower-case references - the range stays empty -, leading zeros in the row, more than one colon - panic); MergeRefOk is exactly the explicit decidable grammar canonRangeB of the text "
                    "(C03_merge_ref_grammar, from C17_range_bijection; C03_merges_canonical states C03_merges with it; the driver prints merges-canon per file)",
                    "C03_defined_names, hypotheses validDefinedName and NameTextOk (decidable sufficient test nameTextOkB, sound): the text is not a plain list of cell areas (kept verbatim), or a list of areas in the spelling get_address_ptn2 prints "
                    "(sheet name in apostrophes unless made of digits / lower-case letters only)",
                    "C03_names_home: every localSheetId inside the sheet list (else the library panics and the decoder reports the file as outside the domain). HOME in the tie: the harness dumps for every name the list it is found in (w = Spreadsheet::get_defined_names(), k = get_sheet(k).get_defined_names()); "
                    "the reader model computes it (rehome) and `c03 model` compares ALL homes (correspondence); the independent decoder states a home only for scoped names (ECMA-376 18.2.5 localSheetId = the sheet the name is scoped to) and `g` for workbook-scoped names: "
                    "that the library files an unscoped name under the sheet of its first area is an API convention without counterpart in the standard, so it is compared between implementation and model only",
                    "C03_sheet_paths, hypothesis targetOk: no condition on a relative target; an absolute target has no empty, `.` or `..` segment",
                    "C03_table_columns: every tableColumn has a non-empty name (the library drops a column without one)",
                    "C03_book: hypotheses that stay PER FILE (not proved, exercised by every run): zip access by name + XML parsing = lookupOf (the decoder's part look-up); the package relationship names xl/workbook.xml (the library hard-codes the name); the sharedStrings / styles relationships name xl/sharedStrings.xml / xl/styles.xml (hard-coded too) and both parts are present; "
                    "for each sheet the relationships part is found under the reader's name for it (relsPartOf) exactly when the decoder finds it under the standard's (relsNameOf) - stated as an equation of look-ups, not proved from the path functions; "
                    "C03_book is stated with the spec's shared-formula translator inside the reader model (C03_sheet_decoder); with the code's translator C03_sheet_code gives the same statement against the decoder's walk with that translator (text equality of the two translators: known finding C03-shared-formula-blanks-dropped)",
                    "C03_style_resolution, hypothesis validStyles (explicit, decidable; Lemmas/ReaderStyle*.lean document each conjunct): unprefixed element names in the root and the tables; each table (numFmts, fonts, fills, borders, cellStyleXfs, cellXfs) at most once; "
                    "numFmt: numFmtId an unsigned decimal fitting u32 and formatCode present (the library unwraps both), ids pairwise different (the library's map keeps the last, the decoder finds the first); font: each of name sz b i u strike color at most once, no rFont, "
                    "name / sz / scheme carry val, family / charset val an i32 (unwraps), u val a word of ST_UnderlineValues, colour attributes not repeated and indexed / theme unsigned decimals fitting u32; fill: at most one patternFill, NO gradientFill (outside the model), "
                    "patternType a word of ST_PatternType, at most one fgColor / bgColor; border: each of left right top bottom diagonal at most once, style a word of ST_BorderStyle, at most one color per edge; xf: the four ids unsigned decimals fitting u32, at most one alignment "
                    "(horizontal / vertical words of their enumerations, textRotation fitting u32) and one protection; for every cell xf the font / fill / border id inside its table where the component is applied, an applied numFmtId defined in numFmts or one of the library's built-in ids "
                    "(table regenerated from the source; other ids leave the library's style without number format while the decoder shows the id: outside); defNeutral: the first xf of cellStyleXfs carries no apply* attribute "
                    "(it may have an alignment / protection child since fix e6602f5: those are not handed on to the cell xfs)",
                    "the style theorems are parametric in `cf` (what `text.parse::<f64>().unwrap_or_default()` + Display make of a float text: font size, tints); the decoder's texts are compared through cf (xfFacts); the driver instantiates cf with the identity and compares bit patterns; "
                    "the underline of a font without <u> is compared as `none` (has_value), although the public getter Font::get_underline() answers \"single\" for it (the enum's default); Color `auto` is not part of the facts; vertical / horizontal inner edges, indent and the other alignment attributes are not compared",
                    "the model reads the element tree: `<v/>` `<t/>` `<is/>` `<r/>` (Empty events, ignored by the library) are not distinguished from the start/end-tag forms; elements are matched by local name "
                    "(the library matches unprefixed names only); character data directly inside <c> is not modelled; usize is 64 bits",
                    "Rust's f64 parser is correctly rounded (the spec side computes the nearest binary64 exactly with integer arithmetic)"],
    "partial_clauses": ["whole-file agreement: C03_book composes the per-part theorems into one statement about a package for the modelled skeleton (sheet list with path resolution, cells, style facts, merges, hyperlinks, defined names with homes); what stays per file: zip access and XML parsing (lookupOf), "
                        "the fixed part names the library opens vs the relationships (workbook, sharedStrings, styles), the name of a sheet's relationships part (relsPartOf vs relsNameOf, an equation of look-ups in the hypothesis), "
                        "the tree abstraction (tag forms, comments, CDATA: `unmodelled`), and everything outside the skeleton (columns, rows, tables inside the book statement, active tab, charts, drawings, comments, conditional formats, data validations); no kernel-checked instance of ALL hypotheses of C03_book at once (Node / Rel have no decidable equality): each hypothesis has its own example, examplePkg is evaluated, edge 14 replays the shape",
                        "defined names in another spelling than the library prints (Sheet1!$A$1 as Excel writes it): now C03_defined_names_any_spelling - hypothesis nameTextAnyB (decidable, Model/CoordCanon.lean; the driver prints names-any-ok per file): not an area list, or a list of qualifier!cell / qualifier!cell:cell with the qualifier unquoted (a legal name without ' ( ) \" ,) or in apostrophes with doubled apostrophes, cells in canonical spelling. The statement is reader text = canonText(decoder text), NOT equality of texts: the library re-quotes every qualifier by its own rule (C17_quote_rule), so the file text Sheet1!$A$1 is shown as 'Sheet1'!$A$1 (confirmed on the implementation); canonText keeps the areas and is idempotent (C03_canon_text_meaning), and is the identity on NameTextOk texts (C03_canon_text_library_spelling). C03_book_any is C03_book under nameTextAnyB with the names compared through canonNameV (C03_book itself keeps NameTextOk and plain equality). In the per-file view both sides are compared with every plain qualifier quoted (quote_qualifiers / canonName, below the abstraction: that canonicaliser is the harness's, not canonText). Still outside: rows with leading zeros (Sheet1!$A$01: read, printed without the zero), unqualified areas ($A$1), unquoted qualifiers containing ' ( ) \" , ",
                        "duplicated workbook relationship ids: the model now follows the code (sheetRel: the LAST relationship with the sheet's r:id, C03_sheet_part_last; the decoder takes the FIRST and reports a diagnostic; SheetValid / C03_book ask for exactly one relationship per sheet id; edge 15 replays a duplicate: `c03 decode` then compares only the head of the view - active tab, sheet list, names -, `c03 model` compares the sheet read through the last relationship with the library). readSheetB also models that the code opens the part of EVERY relationship with the sheet's id (by_name(..).unwrap()): a missing part of the last OR of an earlier one is a panic (`none`); this branch is modelled from the source text and exercised by no package of the run (the library panics there, the decoder reports a missing part: nothing to compare)",
                        "tables: C03_table_columns is about one table part; how the library finds table parts (every sheet relationship of type table) vs the decoder (tableParts / r:id) is not modelled; tables stay per file in the decode view",
                        "C03_sheet holds for every translator T and is instantiated with the spec's and with the code's; that the two translators print the same TEXT for a master formula is NOT proved (false in general: "
                        "known finding C03-shared-formula-blanks-dropped); C03_shared_formula_tokens covers token lists, the tokenizer-vs-scanner step is per file",
                        "validSheetData requires well-formed shared groups (groupsOk: the first f t=shared of an si carries the text, later ones none): a child that precedes its master or carries its own text is outside "
                        "(the code then anchors the group at the first cell seen / overwrites the child's text with the translated master; not replayed as a boundary package)",
                        "C03_merges_partial / C03_defined_names_partial are kept next to the full C03_merges / C03_defined_names (older statements about the loops only)",
                        "cells.set_fast (last write wins per position) is now in the theorems (C03_store_last_wins, C03_sheet_store, C03_book_store: look-ups at every position agree); the ENUMERATION get_cell_collection_sorted (Store.sorted = mergeSort of the store's entries by (row, column)) is in the theorems too (C03_store_sorted_eq: equal maps with unique keys have equal sorted lists; C03_sheet_store_sorted, C03_book_store_sorted: the two sides' sorted view lists are equal) - what these do NOT say: that the Rust sort_by of get_cell_collection_sorted is this merge sort (the model's Store.sorted against the library is the per-file comparison of `c03 model`; any correct sort by (row, column) of a map with unique keys gives the same list, by C03_store_sorted_strict + uniqueness of a strictly sorted enumeration); what is still only in the driver: the store is run by the driver only for sheets of at most 4000 cells (association list, quadratic; larger sheets go through the older sort-and-keep-last sortedCellsF: store-sheets=k/n in the informational part of `c03 model`); the decoder's view of a sheet whose cells are not strictly increasing by position is printed through the same store (specStoreCells: last of a position counts, ECMA-376 is silent on repeated positions) - edge 16 replays A1 three times",
                        "C03_cell / C03_positions are theorems about the hand-written model of Cell::set_attributes / Row::set_attributes; the model is tied to the code through the per-file runs only "
                        "(model vs spec on every cell and sheetData, spec vs implementation by the oracle), there is no mechanical extraction of the model from the Rust",
                        "two conjuncts of validCell exclude schema-valid cells on which the code deviates from the spec (proved witnesses, replayed as boundary packages, known findings): a string item with "
                        "both a plain t and runs (C03_cell_t_and_runs_fails, edge 7) and an inline <t> with blanks at its ends but no xml:space (C03_cell_edge_blanks_fails, edge 9)",
                        "C03_shared_formula is reference-level, C03_shared_formula_tokens token-list-level: that tokenizer and spec scanner cut a formula text into the same references is validated by the oracle only (the master/child bookkeeping is now C03_sheet)",
                        "style resolution is proved on the tree-level model (C03_style_resolution) and tied per file through the resolved facts of every cell; NOT covered: gradient fills, cell styles (xfId is not read by the library: "
                        "inheritance from cellStyleXfs[xfId] is neither modelled in the decoder nor done by the library beyond the apply* flags of cellStyleXfs[0], which validStyles asks to be absent), number-format ids "
                        "that are neither defined in numFmts nor in the library's built-in table, the CODE of a built-in number format (the decoder shows the id only; ECMA-376 18.8.30 and the library's table differ for 14, 22, 37-40, 47), dxfs, "
                        "row and column styles (still three facts per row / column through the decoder's xf index)",
                        "charts, drawings, comments, conditional formats, data validations, pivot tables, theme: not compared",
                        "the two corpus files > 1 MB only in the thorough tier"],
    "technique": "independent XML/OPC/SpreadsheetML decoder executed in Lean on every file (translation validation) + Lean theorems on unescaping, cell elements of every type, positions, whole sheetData with shared-formula groups, shared-strings table, hyperlinks / relationships, sheet list (model reader = spec decoder) + the reader model run against the implementation on every file",
}
