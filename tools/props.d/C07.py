PROP = {
    "thm": ["Umya.Thm.C07", "Umya.Thm.C07Move"],
    "harness": "c07",
    "level": "proof",
    "stateful": True,
    "level_text": "Proof by refinement: for a coherent sheet (C10's invariant, proved for every reachable state) inserting / removing rows or columns on the "
                  "concrete cell store commutes with the reference grid edit through the abstraction `content` (C07_insert_rows/cols, C07_remove_rows/cols), "
                  "remove is total for p >= 1 (no panic), produces no row/column 0, and undoes insert (C07_remove_undoes_insert_*); ranges follow the "
                  "reference interval including deletion inside the band and shrinking when straddling it (C07_range_*); a workbook-level edit leaves the "
                  "other sheets' entries untouched (C07_other_sheets_untouched). move_range / copy_range: for every coherent sheet, every rectangle inside the grid and "
                  "every offset whose image is inside the grid (overlapping source and destination included) the modelled move_or_copy_range (guard, collection by the "
                  "merge scan, clean-up pass over every position of the rectangle and its image, paste by set_cell) does not panic, keeps coherence and commutes with "
                  "the reference moveRect / copyRect of Spec/Grid.lean through the same abstraction (C07_move_refines, C07_copy_refines); the property's clauses are "
                  "corollaries (C07_move_source_empty, C07_move_destination_exact, C07_copy_keeps_source, C07_move_elsewhere_unchanged, C07_move_copy_in_grid); row / column "
                  "dimensions are kept in place, only appended to (C07_move_copy_dimensions_kept). All for unbounded sheets and positions. The model is tied to the code by "
                  "random multi-sheet histories with full dumps after every op, and the implementation is checked against an independent reference grid in the harness.",
    "level_note": "Trusted: Lean kernel + 3 standard axioms; the hand model as exercised by the correspondence stream; the harness' reference grid (oracle). "
                  "Cell content is an opaque token (value, or formula text: move_or_copy_range clones the cell and set_obj assigns cell_value whole, no reference inside "
                  "a moved formula is translated; the harness compares the formula text at the translated position character by character) plus a style token; "
                  "hyperlinks travel with the cell in the code (set_obj) and are not in the model. "
                  "Comments, conditional formats and the auto-filter under insert / remove are modelled and tied by correspondence + reference-grid oracle, "
                  "their whole-sheet refinement statement is not a Lean theorem (the per-range kernel lemma is); move_range / copy_range do not touch them "
                  "(nor merged ranges): not a theorem, the model's move acts on the cell store only and the harness' reference compares the annotations after every move / copy.",
    "expect_theorems": ["C07_kernels_match_source", "C07_insert_rows", "C07_insert_cols", "C07_remove_rows", "C07_remove_cols", "C07_remove_undoes_insert_rows",
                        "C07_remove_undoes_insert_cols", "C07_remove_keeps_positive", "C07_range_insert_rows", "C07_range_remove_rows",
                        "C07_range_remove_cols", "C07_other_sheets_untouched",
                        "C07_move_copy_are_steps", "C07_move_refines", "C07_copy_refines", "C07_move_source_empty", "C07_move_destination_exact",
                        "C07_destination_is_image", "C07_copy_keeps_source", "C07_move_elsewhere_unchanged", "C07_move_copy_in_grid",
                        "C07_move_copy_dimensions_kept"],
    "rule": "random histories (length 1..40 after seeding) on 1-3 sheets: workbook-level (by sheet name) and sheet-level insert/remove of rows/columns, "
            "move_range, copy_range (offsets -3..3, one in five pushed against row 1 / column 1 or, next to the limit, row 1048576 / column 16384; counters mc.* for "
            "overlap / disjoint / zero offset, blank source position over an occupied destination cell, formula cells inside the rectangle, destination at a grid edge), "
            "set/remove cell (one set_cell in four is a formula cell), with merged ranges, comments, conditional formats (1-2 ranges), auto-filter, row/column dimensions; "
            "positions 1..8 with bands covering whole objects / partially overlapping them, every tenth history next to the grid limit (XFD1048576), "
            "insert-then-remove pairs; after every op the dump of every sheet is compared with the model and with an independent reference grid. "
            "non-trivial = mutating op that returned; distinct = distinct request line",
    "trusted_base": TB_COMMON + ["reference grid implemented in the harness (src/c07.rs RefSheet) as implementation-level oracle",
                                 "std HashMap/BTreeSet semantics (modelled)", "VML note-box anchors of comments are not part of the model (their panic-freedom is checked by the harness only)"],
    "assumptions": ["p >= 1, n >= 1 (in-range arguments); coordinates below 2^32",
                    "ranges in merges/filters/conditional formats are full rectangles (both corners, both axes)"],
    "partial_clauses": ["move_range/copy_range: the refinement theorems are about the cell store (value / formula token and style token per position, row and column dimensions); "
                        "hyperlinks of moved cells (carried by set_obj in the code) are outside the model; that merges, comments, conditional formats and the auto-filter are "
                        "left alone by a move / copy is checked by the reference-grid oracle only; a blank position is one without a stored cell (a stored cell with empty value "
                        "and default style counts as a cell and is moved / copied as such)",
                        "annotation lists (merges, comments, CF, filter): per-range theorem + correspondence; defined names and drawings under structural edits belong to C08 / are outside the model",
                        "grid upper bound: inserting next to the limit overflows the grid (known finding C07-grid-overflow; assessed after the formula-reference analogue was repaired in fae7c2b and left recorded: drop-vs-refuse is a design decision and the repair is not small, see why_not_fixed in known_findings.json)",
                        "Worksheet::*_from_other_sheet helpers still shift the sheet's own cells (outside the property's quantifier; not exercised)"],
    "technique": "Lean 4 refinement to a reference grid on top of the C10 invariant; differential dumps + independent reference-grid oracle",
}
