PROP = {
    "thm": ["Umya.Thm.C07", "Umya.Thm.C07Move", "Umya.Thm.C07History"],
    "harness": "c07",
    "level": "proof",
    "stateful": True,
    "level_text": "Proof by refinement: for a coherent sheet (C10's invariant, proved for every reachable state) inserting / removing rows or columns on the "
                  "concrete cell store commutes with the reference grid edit through the abstraction `content` (C07_insert_rows/cols, C07_remove_rows/cols), "
                  "remove is total for p >= 1 (no panic), produces no row/column 0, and undoes insert (C07_remove_undoes_insert_*); ranges follow the "
                  "reference interval including deletion inside the band and shrinking when straddling it (C07_range_*); a workbook-level edit leaves the "
                  "other sheets' entries untouched (C07_other_sheets_untouched). move_range / copy_range: for every coherent sheet, every rectangle inside the grid and "
                  "every offset whose image is inside the grid (overlapping source and destination included) the modelled move_or_copy_range (guard, collection by the "
                  "merge scan, clean-up pass over every position of the rectangle and its image, paste by set_cell) does not panic, keeps coherence and commutes with "
                  "the reference moveRect / copyRect of Spec/Grid.lean through the same abstraction (C07_move_refines, C07_copy_refines); the property's clauses are "
                  "corollaries (C07_move_source_empty, C07_move_destination_exact, C07_copy_keeps_source, C07_move_elsewhere_unchanged, C07_move_copy_in_grid); row / column "
                  "dimensions are kept in place, only appended to (C07_move_copy_dimensions_kept). Whole histories: for EVERY list of edits (place / delete a cell, insert / remove rows / columns, "
                  "move, copy: Spec/GridHistory.lean Edit, mapped to the Ops of the model's step) from a coherent in-grid store, if every edit's guard (a decidable predicate on the state it is applied "
                  "to: placed cell inside the grid; n >= 1 lines inserted and no stored cell pushed over the grid limit; n >= 1 lines removed at p >= 1; InRange for move / copy) holds along the run, "
                  "the run returns, the final store is coherent and inside the grid and content (run s ops) = specRun (content s) ops, the fold of the reference steps (C07_history_refines, by induction "
                  "on the list from C07_step_refines); panics: a move / copy on a coherent store panics exactly when the image leaves the grid or the rectangle is inverted in (row, column) order "
                  "(C07_move_copy_panic_iff), in the model a remove panics exactly when it is at position 0 with n >= 1 and a stored cell lies in a line below n (num - offset underflows), nothing else panics "
                  "(C07_step_panic_iff with the decidable predicate Panics; C07_step_panic_only), a guarded edit never satisfies Panics (C07_guard_excludes_panic), and a history panics exactly when it splits "
                  "as pre ++ e :: post with pre returning a state on which Panics holds for e (C07_history_panics_iff; C07_history_panic_exact: that state is coherent and e's guard is false there). Annotations: move_or_copy_range on the worksheet record (cell store, merges, comments, "
                  "conditional formats, auto-filter) leaves the four annotation fields as they were and acts on the cell store as the modelled operation (C07_move_keeps_annotations; true by the shape "
                  "of the model function wsMoveOrCopy, which like the Rust body names no field but the cell store - the substance is the tie). Hyperlinks: the content token is the pair (value, hyperlink) "
                  "(pack, lossless: C07_set_obj_stores_hyperlink); after a move the image of every source position holds the hyperlink that position held, after a copy the image of every non-blank "
                  "source position does, everything outside keeps its hyperlink (C07_move_carries_hyperlink, corollary of the refinement). All for unbounded sheets and positions. The model is tied to the code by "
                  "random multi-sheet histories with full dumps after every op, and the implementation is checked against an independent reference grid in the harness.",
    "level_note": "Trusted: Lean kernel + 3 standard axioms; the hand model as exercised by the correspondence stream; the harness' reference grid (oracle). "
                  "Cell content is an opaque token (value, or formula text: move_or_copy_range clones the cell and set_obj assigns cell_value whole, no reference inside "
                  "a moved formula is translated; the harness compares the formula text at the translated position character by character) plus a style token; "
                  "the hyperlink of a cell is part of the content token (token = value token + 1000 * hyperlink token, Model/SheetA.lean; set_obj assigns cell_value, style and hyperlink whole, "
                  "set_value keeps the hyperlink: setCellH / setValH); the dump has a field hl= (row.col.hyperlink of every cell with one) on both sides and the cells= field shows the value tokens; "
                  "only the url of a hyperlink is compared (tooltip / location flag are cloned with it by the same Box clone; not observed). "
                  "Comments, conditional formats and the auto-filter under insert / remove are modelled and tied by correspondence + reference-grid oracle, "
                  "their whole-sheet refinement statement is not a Lean theorem (the per-range kernel lemma is); move_range / copy_range do not touch them "
                  "(nor merged ranges): C07_move_keeps_annotations states it for the model's worksheet-level function wsMoveOrCopy (the driver now runs move / copy through it), and the dump + the "
                  "harness' reference compare the annotations after every move / copy. The history theorem covers the cell store; histories with annotation edits interleaved are tied only.",
    "expect_theorems": ["C07_kernels_match_source", "C07_insert_rows", "C07_insert_cols", "C07_remove_rows", "C07_remove_cols", "C07_remove_undoes_insert_rows",
                        "C07_remove_undoes_insert_cols", "C07_remove_keeps_positive", "C07_range_insert_rows", "C07_range_remove_rows",
                        "C07_range_remove_cols", "C07_other_sheets_untouched",
                        "C07_move_copy_are_steps", "C07_move_refines", "C07_copy_refines", "C07_move_source_empty", "C07_move_destination_exact",
                        "C07_destination_is_image", "C07_copy_keeps_source", "C07_move_elsewhere_unchanged", "C07_move_copy_in_grid",
                        "C07_move_copy_dimensions_kept",
                        "C07_step_refines", "C07_history_refines", "C07_history_content", "C07_move_copy_panic_iff", "C07_step_panic_only", "C07_history_panic_exact", "C07_step_panic_iff", "C07_guard_excludes_panic", "C07_history_panics_iff",
                        "C07_move_keeps_annotations", "C07_move_annotations_panic", "C07_set_obj_stores_hyperlink", "C07_move_carries_hyperlink"],
    "rule": "random histories (length 1..40 after seeding) on 1-3 sheets; one op in a hundred is an out-of-range move / copy (image off the grid by one or two lines, rectangle inverted on the row axis, "
            "on the column axis of a one-row rectangle, empty column span of a two-row rectangle): no reference, panic allowed, reply (panic or dump) compared with the model, the case ends after it "
            "(counters move-copy-out-of-range.panic / .returned); workbook-level (by sheet name) and sheet-level insert/remove of rows/columns, "
            "move_range, copy_range (offsets -3..3, one in five pushed against row 1 / column 1 or, next to the limit, row 1048576 / column 16384; counters mc.* for "
            "overlap / disjoint / zero offset, blank source position over an occupied destination cell, formula cells inside the rectangle, destination at a grid edge), "
            "set/remove cell (one set_cell in four is a formula cell, one in three carries a hyperlink token 0..3 (setcellh; 0 = set_cell of a cell without hyperlink over whatever was there); "
            "counters mc.*.hyperlink-in-rectangle, hl.sheet-with-hyperlinks-compared), with merged ranges, comments, conditional formats (1-2 ranges), auto-filter, row/column dimensions; "
            "positions 1..8 with bands covering whole objects / partially overlapping them, every tenth history next to the grid limit (XFD1048576), "
            "insert-then-remove pairs; after every op the dump of every sheet is compared with the model and with an independent reference grid. "
            "non-trivial = mutating op that returned; distinct = distinct request line",
    "trusted_base": TB_COMMON + ["reference grid implemented in the harness (src/c07.rs RefSheet) as implementation-level oracle",
                                 "std HashMap/BTreeSet semantics (modelled)", "VML note-box anchors of comments are not part of the model (their panic-freedom is checked by the harness only)"],
    "assumptions": ["p >= 1, n >= 1 (in-range arguments); coordinates below 2^32",
                    "ranges in merges/filters/conditional formats are full rectangles (both corners, both axes)"],
    "partial_clauses": ["exact panic condition of move / copy (C07_move_copy_panic_iff, Panics): tied to the code for stores holding at least one cell; for an inverted rectangle on a store WITHOUT cells "
                        "the code's BTreeSet::range(start > end) panics only when the tree's root node is allocated (index emptied by remove_cell) and returns on a fresh index (after rebuild_map_and_indices), "
                        "the model (coordsInRange of Model/Sheet.lean) says panic in both cases; the driver answers unmodelled there (found by the new out-of-range stream: 1 disagreement in 282 before)",
                        "whole histories (C07_history_refines): the edits covered are set_cell / remove_cell / insert / remove rows / columns / move / copy on ONE sheet's cell store; get_cell_mut, set_value, set_style "
                        "(whose result depends on row / column dimension styles, not on the content abstraction alone), cleanup and the style-copy operations are not edits of the history theorem "
                        "(C10 proves coherence for them); the guard is sufficient, not necessary (an unguarded edit may still return: e.g. a move of an empty column span); the panic condition of a remove at position 0 "
                        "(C07_step_panic_iff) is a statement about the model: the correspondence stream only generates positions >= 1, so that branch of the model is not tied to the code",
                        "move_range/copy_range: the refinement theorems are about the cell store (value / formula token with the hyperlink token, style token per position, row and column dimensions); "
                        "that merges, comments, conditional formats and the auto-filter are left alone by a move / copy is a theorem about the model function wsMoveOrCopy, true by its shape, "
                        "and is tied to the code by the dump and the reference-grid oracle; of a hyperlink only the url is observed; a blank position is one without a stored cell (a stored cell with empty value "
                        "and default style counts as a cell and is moved / copied as such)",
                        "annotation lists (merges, comments, CF, filter): per-range theorem + correspondence; defined names and drawings under structural edits belong to C08 / are outside the model",
                        "grid upper bound: inserting next to the limit overflows the grid (known finding C07-grid-overflow; assessed after the formula-reference analogue was repaired in fae7c2b and left recorded: drop-vs-refuse is a design decision and the repair is not small, see why_not_fixed in known_findings.json)",
                        "Worksheet::*_from_other_sheet helpers still shift the sheet's own cells (outside the property's quantifier; not exercised)"],
    "technique": "Lean 4 refinement to a reference grid on top of the C10 invariant; differential dumps + independent reference-grid oracle",
}
