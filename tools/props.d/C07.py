PROP = {
    "thm": "Umya.Thm.C07",
    "harness": "c07",
    "level": "proof",
    "stateful": True,
    "level_text": "Proof by refinement: for a coherent sheet (C10's invariant, proved for every reachable state) inserting / removing rows or columns on the "
                  "concrete cell store commutes with the reference grid edit through the abstraction `content` (C07_insert_rows/cols, C07_remove_rows/cols), "
                  "remove is total for p >= 1 (no panic), produces no row/column 0, and undoes insert (C07_remove_undoes_insert_*); ranges follow the "
                  "reference interval including deletion inside the band and shrinking when straddling it (C07_range_*); a workbook-level edit leaves the "
                  "other sheets' entries untouched (C07_other_sheets_untouched). All for unbounded sheets and positions. The model is tied to the code by "
                  "random multi-sheet histories with full dumps after every op, and the implementation is checked against an independent reference grid in the harness.",
    "level_note": "Trusted: Lean kernel + 3 standard axioms; the hand model as exercised by the correspondence stream; the harness' reference grid (oracle). "
                  "move_range / copy_range, comments, conditional formats and the auto-filter are modelled and tied by correspondence + reference-grid oracle, "
                  "their whole-sheet refinement statement is not a Lean theorem (the per-range kernel lemma is).",
    "expect_theorems": ["C07_kernels_match_source", "C07_insert_rows", "C07_insert_cols", "C07_remove_rows", "C07_remove_cols", "C07_remove_undoes_insert_rows",
                        "C07_remove_undoes_insert_cols", "C07_remove_keeps_positive", "C07_range_insert_rows", "C07_range_remove_rows",
                        "C07_range_remove_cols", "C07_other_sheets_untouched"],
    "rule": "random histories (length 1..40 after seeding) on 1-3 sheets: workbook-level (by sheet name) and sheet-level insert/remove of rows/columns, "
            "move_range, copy_range, set/remove cell, with merged ranges, comments, conditional formats (1-2 ranges), auto-filter, row/column dimensions; "
            "positions 1..8 with bands covering whole objects / partially overlapping them, every tenth history next to the grid limit (XFD1048576), "
            "insert-then-remove pairs; after every op the dump of every sheet is compared with the model and with an independent reference grid. "
            "non-trivial = mutating op that returned; distinct = distinct request line",
    "trusted_base": TB_COMMON + ["reference grid implemented in the harness (src/c07.rs RefSheet) as implementation-level oracle",
                                 "std HashMap/BTreeSet semantics (modelled)", "VML note-box anchors of comments are not part of the model (their panic-freedom is checked by the harness only)"],
    "assumptions": ["p >= 1, n >= 1 (in-range arguments); coordinates below 2^32",
                    "ranges in merges/filters/conditional formats are full rectangles (both corners, both axes)"],
    "partial_clauses": ["move_range/copy_range: correspondence + reference-grid oracle only (no Lean refinement theorem yet)",
                        "annotation lists (merges, comments, CF, filter): per-range theorem + correspondence; defined names and drawings under structural edits belong to C08 / are outside the model",
                        "grid upper bound: inserting next to the limit overflows the grid (known finding C07-grid-overflow; assessed after the formula-reference analogue was repaired in fae7c2b and left recorded: drop-vs-refuse is a design decision and the repair is not small, see why_not_fixed in known_findings.json)",
                        "Worksheet::*_from_other_sheet helpers still shift the sheet's own cells (outside the property's quantifier; not exercised)"],
    "technique": "Lean 4 refinement to a reference grid on top of the C10 invariant; differential dumps + independent reference-grid oracle",
}
