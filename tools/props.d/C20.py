PROP = {
    "thm": ["Umya.Thm.C20", "Umya.Thm.C20Gen", "Umya.Thm.C20Wrap"],
    "harness": "c20",
    "level": "proof",
    "stateful": True,
    "level_text": "Proof: writer/csv.rs::write_writer (after fix_1: RFC 4180 quoting, real UTF-16) and the sheet-list / active-tab "
                  "handling (after fix_2: remove_sheet clamps the active tab) are modelled as total Lean functions; an RFC 4180 reader "
                  "written from the RFC recovers the expected grid from the model's text for ALL sheets and options "
                  "(C20_parse_back, C20_rect, C20_cell), UTF-16LE/BE and UTF-8 decode(encode)=id for all scalar values (C20_utf16, C20_utf8), "
                  "the composition bytes->decode->read (C20_end_to_end), no panic on any reachable workbook (C20_active). "
                  "Wrap STRINGS of any length (Umya/Model/CsvWrap.lean: str::replace(w, ww) as leftmost non-overlapping matches): a reader written from the "
                  "same grammar with the quote generalised to a string (Umya/Spec/CsvWrap.lean: w opens/closes, w w inside is one w; escaped fields only) "
                  "recovers the expected grid for ALL sheets, both trim settings and every wrap string that is non-empty, not `,`/CR/CRLF and has no proper "
                  "self-overlap (C20_wrap_string_roundtrip); the last condition is exact: every self-overlapping string has a value whose export is not read back "
                  "(C20_wrap_string_overlap_necessary, C20_wrap_string_exact = the iff; C20_wrap_string_overlap_fails: w=aa value a, replayed against the real "
                  "writer together with w=aba value ab); for one character the general model equals the one-character model (C20_wrap_string_single_text) and "
                  "the string reader is a restriction of the RFC 4180 reader (C20_wrap_reader_refines_rfc). "
                  "The model is tied to the code on every run by a stateful differential check (bytes for UTF-8/16, decoded text for "
                  "the code pages) and the implementation is checked directly by an independent reader in the harness.",
    "level_note": "Trusted: Lean kernel + 3 standard axioms; the hand model's faithfulness as exercised by the correspondence stream; "
                  "encoding_rs for the seven legacy code pages (a parameter of the model with a round-trip hypothesis); "
                  "Rust str::trim / char::is_whitespace (modelled as the Unicode White_Space set); String::from_utf16 as reference decoder.",
    "expect_theorems": ["C20_field_matches_source", "C20_writer_matches_source", "C20_parse_back", "C20_parse_back_std", "C20_rect", "C20_cell", "C20_utf16", "C20_utf8", "C20_end_to_end",
                        "C20_highest", "C20_active", "C20_trim", "C20_wrap", "C20_empty_sheet", "C20_single_empty_column", "C20_zero_columns_fails",
                        "C20_set_active_unchecked",
                        "C20_wrap_string_escape", "C20_wrap_string_single", "C20_wrap_string_single_text", "C20_wrap_string_roundtrip",
                        "C20_wrap_string_overlap_fails", "C20_wrap_string_overlap_necessary", "C20_wrap_string_exact", "C20_wrap_reader_refines_rfc"],
    "rule": "a case = `reset`, 0-3 extra sheets, 0-25 set_value_string calls on a sparse grid (rows<=40, cols<=9; values over "
            "`, \" ' CR LF TAB blank`, ASCII, U+0001, U+00A0, U+2028, U+3000, U+FFFE, non-BMP, per-encoding repertoires, whole-cell "
            "specials such as TRUE/123/#N/A/\"\"), optional set_active_sheet / remove_sheet / new_sheet edits, then 3-7 exports rotating "
            "over 10 encodings x trim on/off x wrap none/\"/' (1 in 12 through writer::csv::write and the file system), plus wrap strings "
            "outside the quantifier (multi-character, `,`, CR, LF) and 20k/200k random texts through both RFC 4180 readers; "
            "3k/60k wrap-string cases (25 strings of 2-4 characters, 14 usable and 11 self-overlapping or CRLF/,,; values built from the string, its "
            "characters, its prefixes and suffixes; UTF-8/UTF-16; model text vs real bytes, and the real text read back by the harness' own string-quote "
            "reader: must equal the stored grid for usable strings, counted as recovered/unreadable/misread for the others) and 20k/300k random texts "
            "through both string-quote readers (`parsew`). "
            "Fixed witnesses of DESIGN.md rows 16 and 24 and the degenerate shapes come first. "
            "non-trivial = an export of a sheet with at least one row, or a parse that returned records; distinct = distinct request line",
    "trusted_base": TB_COMMON + [
        "encoding_rs 0.8 for Shift_JIS, KOI8-U, KOI8-R, ISO-8859-8-I, GBK, EUC-KR, Big5: parameter of the model; theorem C20_end_to_end "
        "assumes the code page round-trips the written text; the harness decides representability with encoding_rs itself",
        "Rust str::trim = trim_matches(char::is_whitespace) modelled with the 25 White_Space code points; String::from_utf16 / from_utf8 "
        "used by the harness as reference decoders; Lean core's UTF-8 encoder (String.ofList) stands for String::into_bytes",
        "cell values are written with set_value_string, so `get_value()` is the stored text (typed values and their display text are C01/C19)",
    ],
    "assumptions": [
        "wrap_with_char is empty, or one character other than `,`, CR, LF (`,`/CR/LF as wrap character are modelled but cannot be configured in any CSV reader), "
        "or a longer string without proper self-overlap other than CRLF (self-overlapping strings are modelled and tied, but the written text is not "
        "readable in general: C20_wrap_string_overlap_fails)",
        "wrap strings of two or more characters: the reader of C20_wrap_string_roundtrip accepts escaped fields only (the writer wraps every field) and is "
        "the RFC 4180 reading rule with the quote generalised to a string; no standard defines multi-character quotes",
        "the sheet has a cell at a column >= 1 whenever it has a row >= 1 (C20_zero_columns_fails shows what happens otherwise)",
        "set_active_sheet is called with an index inside the sheet list and the last sheet is never removed (caller obligations; otherwise get_active_sheet panics)",
        "legacy code pages: the written text is representable (round-trips) in the selected code page",
        "a reader that follows the RFC grammar on empty lines (record with one empty field); blank-line-skipping readers lose rows of a "
        "one-column sheet whose cells are empty when no wrap character is configured (C20_single_empty_column)",
    ],
    "partial_clauses": [
        "text not representable in a legacy code page: encoding_rs substitutes `&#NNNN;` (known finding C20-legacy-unrepresentable); not covered by any theorem",
        "wrap strings with a proper self-overlap (aa, aba, \"\", ...): modelled and tied, but the written text is provably not readable for some values "
        "(C20_wrap_string_overlap_necessary); the crate accepts them silently (the harness counts recovered / unreadable / misread exports per run); "
        "the string-quote reader accepts escaped fields only and is tied to the harness' Rust reader by the `parsew` stream, not to any external tool",
    ],
    "technique": "Lean 4 proof over an executable model + stateful differential check + independent RFC 4180 reader as oracle",
    "timeout_quick": 600,
}
