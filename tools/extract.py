#!/usr/bin/env python3
"""(T) translator: regenerates lean/Umya/Model/Gen/Kernels.lean from the CURRENT source of the scalar
shift kernels in /repo (helper/coordinate.rs, structs/row.rs, structs/column.rs).

Grammar handled: a function body that is `if C { E } else { E }`, `if C { return E; } E`,
`if C { <field>.set_value(E); }` or a bare expression, over identifiers, integer literals, `true`/`false`,
parentheses and the operators  || && == != >= <= > < + -  (`&` / `*` reference noise is dropped).
Anything else -> the committed snapshot of the generated file is kept and the function is reported under
"fallbacks" (that is not a violation: the tie for it falls back to the correspondence check alone).
Prints one JSON line."""
import re, os, sys, json

REPO = os.environ.get("UMYA_REPO", "/repo")
ROOT = os.path.dirname(os.path.dirname(os.path.abspath(__file__)))
OUT = os.path.join(ROOT, "lean", "Umya", "Model", "Gen", "Kernels.lean")

TARGETS = [
    ("src/helper/coordinate.rs", "adjustment_insert_coordinate", "adjustment_insert_coordinate", "Nat"),
    ("src/helper/coordinate.rs", "adjustment_remove_coordinate", "adjustment_remove_coordinate", "Nat"),
    ("src/helper/coordinate.rs", "is_remove_coordinate", "is_remove_coordinate", "Bool"),
    ("src/structs/row.rs", "adjustment_insert_value", "row_adjustment_insert_value", "Nat"),
    ("src/structs/row.rs", "adjustment_remove_value", "row_adjustment_remove_value", "Nat"),
    ("src/structs/row.rs", "is_remove_value", "row_is_remove_value", "Bool"),
    ("src/structs/column.rs", "adjustment_insert_value", "column_adjustment_insert_value", "Nat"),
    ("src/structs/column.rs", "adjustment_remove_value", "column_adjustment_remove_value", "Nat"),
    ("src/structs/column.rs", "is_remove_value", "column_is_remove_value", "Bool"),
]

def body_of(src, fn):
    m = re.search(r"fn\s+" + re.escape(fn) + r"\s*\(", src)
    if not m:
        raise ValueError("function not found")
    i = src.index("{", m.end())
    depth, j = 0, i
    while True:
        if src[j] == "{": depth += 1
        elif src[j] == "}":
            depth -= 1
            if depth == 0: break
        j += 1
    return src[i + 1:j]

def tokenize(s):
    s = re.sub(r"//[^\n]*", "", s)
    s = re.sub(r"self\s*\.\s*(row_num|col_num)\s*\.\s*get_value\s*\(\s*\)", "num", s)
    toks = re.findall(r"\|\||&&|==|!=|>=|<=|[A-Za-z_][A-Za-z_0-9]*(?:\s*\.\s*[A-Za-z_][A-Za-z_0-9]*)*|\d+(?:u32)?|[{}();<>+\-!&*,]", s)
    out = []
    for t in toks:
        if t in ("&", "*"):
            continue                      # reference / dereference noise (there is no multiplication in these kernels)
        out.append(re.sub(r"\s+", "", t))
    return out

class P:
    def __init__(self, toks): self.t, self.i = toks, 0
    def peek(self): return self.t[self.i] if self.i < len(self.t) else None
    def eat(self, x=None):
        t = self.peek()
        if t is None or (x is not None and t != x): raise ValueError(f"expected {x}, got {t}")
        self.i += 1; return t
    # expression precedence climbing
    def expr(self): return self.or_()
    def or_(self):
        a = self.and_()
        while self.peek() == "||": self.eat(); a = ("rOr", a, self.and_())
        return a
    def and_(self):
        a = self.cmp()
        while self.peek() == "&&": self.eat(); a = ("rAnd", a, self.cmp())
        return a
    def cmp(self):
        a = self.add()
        ops = {"==": "rEq", "!=": "rNe", ">=": "rGe", "<=": "rLe", ">": "rGt", "<": "rLt"}
        if self.peek() in ops:
            op = ops[self.eat()]; return (op, a, self.add())
        return a
    def add(self):
        a = self.atom()
        while self.peek() in ("+", "-"):
            op = "rAdd" if self.eat() == "+" else "rSub"; a = (op, a, self.atom())
        return a
    def atom(self):
        t = self.peek()
        if t == "(":
            self.eat("("); e = self.expr(); self.eat(")"); return e
        if t == "!":
            self.eat(); return ("rNot", self.atom())
        if t is None: raise ValueError("unexpected end")
        self.eat()
        if re.fullmatch(r"\d+(u32)?", t): return ("lit", t.replace("u32", ""))
        if t in ("true", "false"): return ("bool", t)
        if re.fullmatch(r"[A-Za-z_][A-Za-z_0-9]*", t): return ("var", t)
        raise ValueError(f"unexpected token {t}")
    def body(self):
        if self.peek() == "if":
            self.eat("if"); c = self.expr(); self.eat("{")
            if self.peek() == "return":
                self.eat("return"); t = self.expr(); self.eat(";"); self.eat("}")
                e = self.expr()
                return ("rIte", c, t, e)
            # `<field>.set_value(E);`
            if self.peek() and self.peek().endswith(".set_value"):
                self.eat(); self.eat("("); t = self.expr(); self.eat(")"); self.eat(";"); self.eat("}")
                return ("rIte", c, t, ("var", "num"))
            t = self.expr(); self.eat("}")
            if self.peek() == "else":
                self.eat("else"); self.eat("{"); e = self.expr(); self.eat("}")
                return ("rIte", c, t, e)
            raise ValueError("if without else in expression position")
        return self.expr()

def lean(e):
    k = e[0]
    if k == "lit": return f"(.ok {e[1]})"
    if k == "bool": return f"(.ok {e[1]})"
    if k == "var":
        if e[1] not in ("num", "root_num", "offset_num"): raise ValueError(f"unknown identifier {e[1]}")
        return f"(.ok {e[1]})"
    if k == "rNot": return f"(rNot {lean(e[1])})"
    if k == "rIte": return f"(rIte {lean(e[1])} {lean(e[2])} {lean(e[3])})"
    return f"({k} {lean(e[1])} {lean(e[2])})"

# ------------------------------------------------------------------------------------------------
# second shape: a straight-line function over signed integers with early returns and Option results
# (helper/formula.rs `translate_part`), plus `const NAME: u32 = <literal>;`
#   block ::= stmt* tail          stmt ::= let (a, b) = <tuple parameter>; | let x = E; | if C { block-that-returns }
#   tail  ::= E | return E; | if C { block } else { block } | if C { block } else if …        (nested to any depth)
#   E ::= literals, identifiers, + - < > <= >= == != || && !, `as <type>` (dropped: i64 arithmetic on a
#   u32 and an i32 cannot overflow, the final `as u32` is applied to a value already checked to be in
#   1..=max), `Some(E)`, `None`, tuples `(E, E)`, `*x` / `&x` (dropped)

def tokenize2(s):
    s = re.sub(r"//[^\n]*", "", s)
    toks = re.findall(r"\|\||&&|==|!=|>=|<=|[A-Za-z_][A-Za-z_0-9]*|\d+|[{}();<>+\-!&*,=]", s)
    return [t for t in toks if t not in ("&", "*")]

class P2(P):
    def atom(self):
        t = self.peek()
        if t == "Some":
            self.eat(); self.eat("("); e = self.expr(); self.eat(")"); return self.cast(("some", e))
        if t == "None":
            self.eat(); return ("none",)
        if t == "(":
            self.eat("("); e = self.expr()
            if self.peek() == ",":
                self.eat(","); f = self.expr(); self.eat(")"); return ("pair", e, f)
            self.eat(")"); return self.cast(e)
        if t == "!":
            self.eat(); return ("not", self.atom())
        self.eat()
        if re.fullmatch(r"\d+", t): return self.cast(("lit", t))
        if t in ("true", "false"): return ("bool", t)
        if re.fullmatch(r"[A-Za-z_][A-Za-z_0-9]*", t): return self.cast(("var", t))
        raise ValueError(f"unexpected token {t}")
    def cast(self, e):
        while self.peek() == "as":
            self.eat("as"); ty = self.eat()
            if ty not in ("i64", "u32", "i32", "u64", "usize"): raise ValueError(f"cast to {ty}")
        return e
    def seq(self):
        """a block body (up to its `}` / the end) as a decision tree:
           ("let", x, E, rest) | ("unpack", a, b, src, rest) | ("ite", C, tree, tree) | ("ret", E) | ("val", E)"""
        t = self.peek()
        if t == "let":
            self.eat("let")
            if self.peek() == "mut": raise ValueError("let mut")
            if self.peek() == "(":
                self.eat("("); a = self.eat(); self.eat(","); b = self.eat(); self.eat(")"); self.eat("="); src = self.eat(); self.eat(";")
                return ("unpack", a, b, src, self.seq())
            x = self.eat(); self.eat("="); e = self.expr(); self.eat(";")
            return ("let", x, e, self.seq())
        if t == "if":
            return self.if_()
        if t == "return":
            self.eat("return"); e = self.expr()
            if self.peek() == ";": self.eat(";")
            if self.peek() not in ("}", None): raise ValueError("statements after return")
            return ("ret", e)
        if t in ("}", None): raise ValueError("block without a value")
        e = self.expr()
        if self.peek() not in ("}", None): raise ValueError(f"unexpected token {self.peek()} after the tail expression")
        return ("val", e)
    def if_(self):
        self.eat("if"); c = self.expr(); self.eat("{"); a = self.seq(); self.eat("}")
        if self.peek() == "else":
            self.eat("else")
            if self.peek() == "if": b = self.if_()
            else:
                self.eat("{"); b = self.seq(); self.eat("}")
            if self.peek() == ";": self.eat(";")
            if self.peek() not in ("}", None):
                raise ValueError("statements after if/else")
            return ("ite", c, a, b)
        # `if C { … return E; }` followed by the rest of the block: every path of the branch must return
        if not all_return(a): raise ValueError("if without else whose branch does not return")
        return ("ite", c, a, self.seq())

def all_return(t):
    if t[0] == "ret": return True
    if t[0] == "val": return False
    if t[0] == "ite": return all_return(t[2]) and all_return(t[3])
    return all_return(t[-1])

def lean2(e, env):
    k = e[0]
    if k == "lit": return e[1]
    if k == "bool": return e[1]
    if k == "none": return "none"
    if k == "some": return f"(some {lean2(e[1], env)})"
    if k == "pair": return f"({lean2(e[1], env)}, {lean2(e[2], env)})"
    if k == "not": return f"(!{lean2(e[1], env)})"
    if k == "var":
        if e[1] not in env: raise ValueError(f"unknown identifier {e[1]}")
        return env[e[1]]
    ops = {"rOr": "||", "rAnd": "&&", "rLt": "<", "rGt": ">", "rLe": "≤", "rGe": "≥", "rEq": "==", "rNe": "!=", "rAdd": "+", "rSub": "-"}
    if k in ("rLt", "rGt", "rLe", "rGe"):
        return f"(decide ({lean2(e[1], env)} {ops[k]} {lean2(e[2], env)}))"
    if k in ops: return f"({lean2(e[1], env)} {ops[k]} {lean2(e[2], env)})"
    raise ValueError(f"unknown node {k}")

def lean_tree(t, env, ind, used):
    sp = "  " * ind
    k = t[0]
    if k in ("ret", "val"): return sp + lean2(t[1], env)
    if k == "unpack":
        if t[3] != "part": raise ValueError("unpack of " + t[3])
        env = dict(env); env[t[1]] = "part.1"; env[t[2]] = "part.2"; env["part"] = "part"
        return lean_tree(t[4], env, ind, used)
    if k == "let":
        v = lean2(t[2], env)
        n = t[1]
        while n in used: n += "'"
        used = used | {n}
        env = dict(env); env[t[1]] = n
        return f"{sp}let {n} : Int := {v}\n" + lean_tree(t[3], env, ind, used)
    if k == "ite":
        return (f"{sp}if {lean2(t[1], env)} then\n" + lean_tree(t[2], env, ind + 1, used) + f"\n{sp}else\n" + lean_tree(t[3], env, ind + 1, used))
    raise ValueError(k)

def straight_line_def(src, fn, params, header):
    """`fn` of helper/formula.rs in the second shape; `params` maps the scalar parameters to Lean names"""
    body = body_of(src, fn)
    p = P2(tokenize2(body)); tree = p.seq()
    if p.peek() is not None: raise ValueError(f"trailing tokens from {p.peek()}")
    return header + "\n" + lean_tree(tree, dict(params), 1, frozenset(params.values()) | {"part"}) + "\n"

def translate_part_def(src):
    return straight_line_def(src, "translate_part", {"offset_num": "offset_num", "max_num": "max_num"},
            "/-- translated from `src/helper/formula.rs` fn `translate_part` (integers unbounded: the Rust computes in i64) -/\n"
            "def translate_part (part : Int × Bool) (offset_num : Int) (max_num : Int) : Option (Int × Bool) :=")

def insert_part_def(src):
    return straight_line_def(src, "insert_part", {"root_num": "root_num", "offset_num": "offset_num", "max_num": "max_num", "is_end": "is_end"},
            "/-- translated from `src/helper/formula.rs` fn `insert_part` (integers unbounded: the Rust adds two u32 in u64) -/\n"
            "def insert_part (part : Int × Bool) (root_num offset_num max_num : Int) (is_end : Bool) : Option (Int × Bool) :=")

def const_def(src, name, lean_name, path):
    m = re.search(r"const\s+" + name + r"\s*:\s*u32\s*=\s*(\d[\d_]*)(?:u32)?\s*;", src)
    if not m: raise ValueError("const not found (or not an integer literal)")
    return f"/-- translated from `{path}` const `{name}` -/\ndef {lean_name} : Nat := {int(m.group(1).replace('_', ''))}\n"

def main():
    defs, extracted, fallbacks = [], [], []
    old = open(OUT).read() if os.path.exists(OUT) else ""
    for path, fn, name, ty in TARGETS:
        try:
            src = open(os.path.join(REPO, path)).read()
            p = P(tokenize(body_of(src, fn)))
            e = p.body()
            if p.peek() is not None: raise ValueError(f"trailing tokens from {p.peek()}")
            defs.append((name, f"/-- translated from `{path}` fn `{fn}` -/\ndef {name} (num root_num offset_num : Nat) : Res {ty} :=\n  {lean(e)}\n"))
            extracted.append(name)
        except Exception as ex:
            m = re.search(r"/-- translated from[^\n]*-/\ndef " + re.escape(name) + r" .*?\n\n", old, re.S)
            if m:
                defs.append((name, m.group(0).rstrip("\n") + "\n"))
            fallbacks.append({"function": name, "reason": str(ex)[:120]})
    fsrc_path = "src/helper/formula.rs"
    for name, f in (("translate_part", lambda src: translate_part_def(src)),
                    ("insert_part", lambda src: insert_part_def(src)),
                    ("max_column_num", lambda src: const_def(src, "MAX_COLUMN_NUM", "max_column_num", fsrc_path)),
                    ("max_row_num", lambda src: const_def(src, "MAX_ROW_NUM", "max_row_num", fsrc_path))):
        try:
            defs.append((name, f(open(os.path.join(REPO, fsrc_path)).read()))); extracted.append(name)
        except Exception as ex:
            m = re.search(r"/--(?:(?!-/).)*-/\ndef " + re.escape(name) + r"\b.*?\n\n", old, re.S)     # the doc comment in front of THIS definition
            if m:
                defs.append((name, m.group(0).rstrip("\n") + "\n"))
            fallbacks.append({"function": name, "reason": (type(ex).__name__ + ": " + str(ex))[:120]})
    text = ("/-\n  GENERATED by tools/extract.py from the current source of /repo — do not edit.\n  The scalar shift kernels of helper/coordinate.rs, structs/row.rs, structs/column.rs.\n-/\n"
            "import Umya.Model.GenPrelude\nnamespace Umya.Gen\nopen Umya.Coord (Res)\n\n" + "\n".join(d for _, d in defs) + "\nend Umya.Gen\n")
    if text != old:
        os.makedirs(os.path.dirname(OUT), exist_ok=True)
        open(OUT, "w").write(text)
    print(json.dumps({"functions_extracted": extracted, "fallbacks": fallbacks, "changed": text != old}))

if __name__ == "__main__":
    main()
