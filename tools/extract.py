#!/usr/bin/env python3
"""(T) translator: regenerates Umya/Model/Gen/*.lean from /repo's current source.
Prints one JSON line describing what was extracted / what fell back to the committed snapshot."""
import json, sys
print(json.dumps({"functions_extracted": [], "fallbacks": [], "note": "translator not yet populated"}))
