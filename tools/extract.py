#!/usr/bin/env python3
"""(T) translator: regenerates lean/Umya/Model/Gen/Kernels.lean from the CURRENT source of the scalar
shift kernels in /repo (helper/coordinate.rs, structs/row.rs, structs/column.rs).

Grammar handled: a function body that is `if C { E } else { E }`, `if C { return E; } E`,
`if C { <field>.set_value(E); }` or a bare expression, over identifiers, integer literals, `true`/`false`,
parentheses and the operators  || && == != >= <= > < + -  (`&` / `*` reference noise is dropped).
Anything else -> the committed snapshot of the generated file is kept and the function is reported under
"fallbacks" (that is not a violation: the tie for it falls back to the correspondence check alone).
Prints one JSON line."""
import re, os, sys, json

REPO = os.environ.get("UMYA_REPO", "/repo")
ROOT = os.path.dirname(os.path.dirname(os.path.abspath(__file__)))
OUT = os.path.join(ROOT, "lean", "Umya", "Model", "Gen", "Kernels.lean")

TARGETS = [
    ("src/helper/coordinate.rs", "adjustment_insert_coordinate", "adjustment_insert_coordinate", "Nat"),
    ("src/helper/coordinate.rs", "adjustment_remove_coordinate", "adjustment_remove_coordinate", "Nat"),
    ("src/helper/coordinate.rs", "is_remove_coordinate", "is_remove_coordinate", "Bool"),
    ("src/structs/row.rs", "adjustment_insert_value", "row_adjustment_insert_value", "Nat"),
    ("src/structs/row.rs", "adjustment_remove_value", "row_adjustment_remove_value", "Nat"),
    ("src/structs/row.rs", "is_remove_value", "row_is_remove_value", "Bool"),
    ("src/structs/column.rs", "adjustment_insert_value", "column_adjustment_insert_value", "Nat"),
    ("src/structs/column.rs", "adjustment_remove_value", "column_adjustment_remove_value", "Nat"),
    ("src/structs/column.rs", "is_remove_value", "column_is_remove_value", "Bool"),
]

def body_of(src, fn):
    m = re.search(r"fn\s+" + re.escape(fn) + r"\s*\(", src)
    if not m:
        raise ValueError("function not found")
    i = src.index("{", m.end())
    depth, j = 0, i
    while True:
        if src[j] == "{": depth += 1
        elif src[j] == "}":
            depth -= 1
            if depth == 0: break
        j += 1
    return src[i + 1:j]

def tokenize(s):
    s = re.sub(r"//[^\n]*", "", s)
    s = re.sub(r"self\s*\.\s*(row_num|col_num)\s*\.\s*get_value\s*\(\s*\)", "num", s)
    toks = re.findall(r"\|\||&&|==|!=|>=|<=|[A-Za-z_][A-Za-z_0-9]*(?:\s*\.\s*[A-Za-z_][A-Za-z_0-9]*)*|\d+(?:u32)?|[{}();<>+\-!&*,]", s)
    out = []
    for t in toks:
        if t in ("&", "*"):
            continue                      # reference / dereference noise (there is no multiplication in these kernels)
        out.append(re.sub(r"\s+", "", t))
    return out

class P:
    def __init__(self, toks): self.t, self.i = toks, 0
    def peek(self): return self.t[self.i] if self.i < len(self.t) else None
    def eat(self, x=None):
        t = self.peek()
        if t is None or (x is not None and t != x): raise ValueError(f"expected {x}, got {t}")
        self.i += 1; return t
    # expression precedence climbing
    def expr(self): return self.or_()
    def or_(self):
        a = self.and_()
        while self.peek() == "||": self.eat(); a = ("rOr", a, self.and_())
        return a
    def and_(self):
        a = self.cmp()
        while self.peek() == "&&": self.eat(); a = ("rAnd", a, self.cmp())
        return a
    def cmp(self):
        a = self.add()
        ops = {"==": "rEq", "!=": "rNe", ">=": "rGe", "<=": "rLe", ">": "rGt", "<": "rLt"}
        if self.peek() in ops:
            op = ops[self.eat()]; return (op, a, self.add())
        return a
    def add(self):
        a = self.atom()
        while self.peek() in ("+", "-"):
            op = "rAdd" if self.eat() == "+" else "rSub"; a = (op, a, self.atom())
        return a
    def atom(self):
        t = self.peek()
        if t == "(":
            self.eat("("); e = self.expr(); self.eat(")"); return e
        if t == "!":
            self.eat(); return ("rNot", self.atom())
        if t is None: raise ValueError("unexpected end")
        self.eat()
        if re.fullmatch(r"\d+(u32)?", t): return ("lit", t.replace("u32", ""))
        if t in ("true", "false"): return ("bool", t)
        if re.fullmatch(r"[A-Za-z_][A-Za-z_0-9]*", t): return ("var", t)
        raise ValueError(f"unexpected token {t}")
    def body(self):
        if self.peek() == "if":
            self.eat("if"); c = self.expr(); self.eat("{")
            if self.peek() == "return":
                self.eat("return"); t = self.expr(); self.eat(";"); self.eat("}")
                e = self.expr()
                return ("rIte", c, t, e)
            # `<field>.set_value(E);`
            if self.peek() and self.peek().endswith(".set_value"):
                self.eat(); self.eat("("); t = self.expr(); self.eat(")"); self.eat(";"); self.eat("}")
                return ("rIte", c, t, ("var", "num"))
            t = self.expr(); self.eat("}")
            if self.peek() == "else":
                self.eat("else"); self.eat("{"); e = self.expr(); self.eat("}")
                return ("rIte", c, t, e)
            raise ValueError("if without else in expression position")
        return self.expr()

def lean(e):
    k = e[0]
    if k == "lit": return f"(.ok {e[1]})"
    if k == "bool": return f"(.ok {e[1]})"
    if k == "var":
        if e[1] not in ("num", "root_num", "offset_num"): raise ValueError(f"unknown identifier {e[1]}")
        return f"(.ok {e[1]})"
    if k == "rNot": return f"(rNot {lean(e[1])})"
    if k == "rIte": return f"(rIte {lean(e[1])} {lean(e[2])} {lean(e[3])})"
    return f"({k} {lean(e[1])} {lean(e[2])})"

def main():
    defs, extracted, fallbacks = [], [], []
    old = open(OUT).read() if os.path.exists(OUT) else ""
    for path, fn, name, ty in TARGETS:
        try:
            src = open(os.path.join(REPO, path)).read()
            p = P(tokenize(body_of(src, fn)))
            e = p.body()
            if p.peek() is not None: raise ValueError(f"trailing tokens from {p.peek()}")
            defs.append((name, f"/-- translated from `{path}` fn `{fn}` -/\ndef {name} (num root_num offset_num : Nat) : Res {ty} :=\n  {lean(e)}\n"))
            extracted.append(name)
        except Exception as ex:
            m = re.search(r"/-- translated from[^\n]*-/\ndef " + re.escape(name) + r" .*?\n\n", old, re.S)
            if m:
                defs.append((name, m.group(0).rstrip("\n") + "\n"))
            fallbacks.append({"function": name, "reason": str(ex)[:120]})
    text = ("/-\n  GENERATED by tools/extract.py from the current source of /repo — do not edit.\n  The scalar shift kernels of helper/coordinate.rs, structs/row.rs, structs/column.rs.\n-/\n"
            "import Umya.Model.GenPrelude\nnamespace Umya.Gen\nopen Umya.Coord (Res)\n\n" + "\n".join(d for _, d in defs) + "\nend Umya.Gen\n")
    if text != old:
        os.makedirs(os.path.dirname(OUT), exist_ok=True)
        open(OUT, "w").write(text)
    print(json.dumps({"functions_extracted": extracted, "fallbacks": fallbacks, "changed": text != old}))

if __name__ == "__main__":
    main()
