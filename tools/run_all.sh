#!/bin/bash
# runs every claimed check at the given tier and prints one line per check
TIER="${1:-quick}"
cd /verif
for id in $(python3 -c "import json;print(' '.join(c['property_id'] for c in json.load(open('MANIFEST.json'))['checks']))"); do
  ./check $id --tier $TIER > .cache/all_$id.out 2>&1; rc=$?
  echo "$id rc=$rc $(tail -1 .cache/all_$id.out | cut -c1-170)"
done
