#!/usr/bin/env python3
"""Run ALL quick checks against a behaviour-preserving change in a scratch workspace:
    tools/run_benign_ws.py <N> <dir-with-all.diff> [<check-id> ...]
Expected: every check exits 0 (no alarm on code where the properties hold).  Records <dir>/result.json."""
import sys, os, json, subprocess, time
ROOT = os.path.dirname(os.path.dirname(os.path.abspath(__file__)))
n, d = sys.argv[1], os.path.abspath(sys.argv[2])
sys.path.insert(0, os.path.join(ROOT, "tools"))
from props import PROPS
ids = sys.argv[3:] or sorted(PROPS)
W = f"/var/tmp/w{n}"
subprocess.run([os.path.join(ROOT, "tools", "mk_workspace.sh"), n], check=True, capture_output=True)
repo = W + "/repo"
head = subprocess.run(["git", "-C", "/repo", "rev-parse", "HEAD"], capture_output=True, text=True).stdout.strip()
subprocess.run(["git", "-C", repo, "checkout", "-q", "--detach", head]); subprocess.run(["git", "-C", repo, "checkout", "--", "."])
r = subprocess.run(["git", "-C", repo, "apply", os.path.join(d, os.environ.get("BENIGN_DIFF", "all.diff"))], capture_output=True, text=True)
if r.returncode != 0: sys.exit("patch does not apply: " + r.stderr[:500])
env = dict(os.environ, UMYA_REPO=repo, UMYA_TARGET=W + "/target", CARGO_NET_OFFLINE="true")
res = {}
try:
    for pid in ids:
        t0 = time.time()
        p = subprocess.run([W + "/verif/check", pid, "--tier", "quick"], cwd=W + "/verif", capture_output=True, text=True, env=env)
        lines = [l[:300] for l in p.stdout.splitlines() if l.startswith("VIOLATION")]
        res[pid] = {"exit": p.returncode, "alarm": p.returncode != 0, "lines": lines[:4], "summary": (p.stderr.strip().splitlines() or [""])[-1][:300], "wall_s": round(time.time() - t0, 1)}
        print(pid, "ALARM" if p.returncode else "quiet", res[pid]["summary"][:150], flush=True)
finally:
    subprocess.run(["git", "-C", repo, "checkout", "--", "."])
json.dump({"ran": ids, "results": res, "at": time.strftime("%Y-%m-%dT%H:%M:%SZ", time.gmtime())}, open(os.path.join(d, os.environ.get("BENIGN_OUT", "result.json")), "w"), indent=1)
