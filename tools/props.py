"""Per-property configuration of /verif/check."""

TB_COMMON = [
    "Lean 4.33.0 kernel; axioms limited to propext, Classical.choice, Quot.sound (audited per theorem on every run)",
    "hand-written Lean model tied to /repo by the correspondence harness (/verif/harness, /verif/check) — trusted code",
    "Rust dev profile with overflow checks, so u32 overflow panics where the model says panic",
]

PROPS = {
    "C17": {
        "thm": ["Umya.Thm.C17", "Umya.Thm.C17Gen", "Umya.Thm.C17Regex"],
        "harness": "c17",
        "level": "proof",
        "level_text": "Proof: the codecs of helper/coordinate.rs, helper/range.rs, helper/address.rs and structs/{range,address} are modelled as "
                      "total Lean functions; inverse laws are theorems for all columns/rows/locks/shapes/names (unbounded where the Rust is), "
                      "and the model is tied to the code by an exhaustive + random differential check on every run.",
        "level_note": "Trusted: Lean kernel + 3 standard axioms; the hand model's faithfulness as exercised by the correspondence stream; "
                      "fancy_regex behaviour on one regex (modelled); ASCII-only upper-casing.",
        "expect_theorems": ["C17_codec_matches_source", "C17_regex_matches_source", "C17_alpha_index", "C17_alpha_index3", "C17_index_alpha", "C17_bijective_numeral",
                            "C17_coord", "C17_range", "C17_address", "C17_address_quoted", "C17_address_ptn2"],
        "rule": "exhaustive: every column 0..18279 and every 1-3 letter name; rows 1..1048576 (stride 257 quick / 1 thorough) x "
                "{A,Z,AA,ZZ,AAA,XFD} x 4 lock combinations; random strings over $A-Za-z0-9:!'\" against the regex model; "
                "range shapes over boundary corners; sheet names from a special-character alphabet up to 31 chars. "
                "non-trivial = the implementation returned a value (not a panic / all-None); distinct = distinct request line",
        "trusted_base": TB_COMMON + [
            "fancy_regex on the one coordinate regex: modelled by a hand-written matcher, tied behaviourally (random + boundary strings)",
            "ASCII to_uppercase only (non-ASCII case mapping outside the model)",
        ],
        "assumptions": ["sheet names are legal (non-empty, not starting with an apostrophe); address text contains no '!'",
                        "columns up to ZZZ=18278 (the 3-letter parser's domain), rows < 2^32"],
        "partial_clauses": ["get_address_ptn2 with apostrophes in the name: un-doubling happens in DefinedName::add_address (C06/C08), "
                            "checked here by the harness oracle only"],
    },
}

# further properties: one file per property under tools/props.d/Cxx.py defining PROP = {...}
import os as _os, glob as _glob, importlib.util as _ilu
for _f in sorted(_glob.glob(_os.path.join(_os.path.dirname(_os.path.abspath(__file__)), "props.d", "C*.py"))):
    _spec = _ilu.spec_from_file_location("prop_" + _os.path.basename(_f)[:-3], _f)
    _m = _ilu.module_from_spec(_spec)
    _m.TB_COMMON = TB_COMMON
    _spec.loader.exec_module(_m)
    PROPS[_os.path.basename(_f)[:-3]] = _m.PROP
