"""Per-property configuration of /verif/check."""

TB_COMMON = [
    "Lean 4.33.0 kernel; axioms limited to propext, Classical.choice, Quot.sound (audited per theorem on every run)",
    "hand-written Lean model tied to /repo by the correspondence harness (/verif/harness, /verif/check) — trusted code",
    "Rust dev profile with overflow checks, so u32 overflow panics where the model says panic",
]

PROPS = {
    "C17": {
        "thm": ["Umya.Thm.C17", "Umya.Thm.C17Gen", "Umya.Thm.C17Regex", "Umya.Thm.C17Parse", "Umya.Thm.C17Obj", "Umya.Thm.C17ParseMore"],
        "harness": "c17",
        "level": "proof",
        "level_text": "Proof: the codecs of helper/coordinate.rs, helper/range.rs, helper/address.rs and structs/{range,address} are modelled as "
                      "total Lean functions; inverse laws are theorems for all columns/rows/locks/shapes/names (unbounded where the Rust is), "
                      "and the model is tied to the code by an exhaustive + random differential check on every run. "
                      "Object-level glue (Thm/C17Obj.lean): Coordinate::set_coordinate / get_coordinate of structs/coordinate.rs are compiled from the "
                      "current source on every run (&mut self as state passing over the two component records ColumnReference_rec / RowReference_rec, "
                      "themselves generated from the struct declarations; component setters / getters resolved by reading their bodies) and proved equal "
                      "to the hand model CoordObj for every prior state and text (C17_set_coordinate_matches_source, C17_get_coordinate_matches_source: "
                      "panic exactly when one of the four results of index_from_coordinate is None resp. when col = 0); C17_set_coordinate_overwrites: "
                      "the outcome does not depend on what the object held, all four fields are those parsed from the text and get_coordinate prints "
                      "them; C17_set_get_coordinate: on the grammar canonCellB, get_coordinate after set_coordinate(t) = t. "
                      "Address level widened (Thm/C17ParseMore.lean, grammars in Model/CoordCanonMore.lean): Address::set_address applies no is_address filter "
                      "(split_address + Range::set_range), so for EVERY text of canonAreaB' (canonical qualifier ! cell | cell:cell | col:col | row:row, e.g. "
                      "Sheet1!$A:$B, 'My Sheet'!$1:$3) set_address(undoubled t) reads a legal sheet name and an in-bounds range of that shape and get_address_ptn2 "
                      "prints canonArea t = re-quoted qualifier + the range text verbatim, a fixed point parsing to the same area (C17_address_canon_cols_rows; "
                      "C17_canonArea_sub: canonAreaB is inside canonAreaB'); for EVERY bare range text of canonRangeB ($A$1, A1:B2, $A:$B, 1:3) set_address reads an "
                      "address with the EMPTY sheet name and get_address_ptn2 prints the text verbatim, no `!` (C17_address_unqualified); both in one statement on "
                      "canonAddrB with addrReprint t = ok (canonArea t) (C17_address_canon_total, C17_address_reprint_total).",
        "level_note": "Trusted: Lean kernel + 3 standard axioms; the hand model's faithfulness as exercised by the correspondence stream; "
                      "fancy_regex behaviour on one regex (modelled); ASCII-only upper-casing.",
        "expect_theorems": ["C17_codec_matches_source", "C17_regex_matches_source", "C17_alpha_index", "C17_alpha_index3", "C17_index_alpha", "C17_bijective_numeral",
                            "C17_coord", "C17_range", "C17_address", "C17_address_quoted", "C17_address_ptn2",
                            "C17_column_parse_print", "C17_coord_parse_print", "C17_coord_reprint", "C17_coord_trailing_ignored",
                            "C17_range_parse_print", "C17_range_reprint", "C17_range_bijection",
                            "C17_address_parse_print", "C17_address_rejoin", "C17_quote_rule", "C17_address_text", "C17_address_canon",
                            "C17_address_apostrophes",
                            "C17_address_canon_cols_rows", "C17_canonArea_sub", "C17_address_unqualified", "C17_address_canon_total", "C17_address_reprint_total",
                            "C17_set_coordinate_matches_source", "C17_get_coordinate_matches_source", "C17_set_coordinate_overwrites", "C17_set_get_coordinate"],
        "rule": "exhaustive: every column 0..18279 and every 1-3 letter name; rows 1..1048576 (stride 257 quick / 1 thorough) x "
                "{A,Z,AA,ZZ,AAA,XFD} x 4 lock combinations; random strings over $A-Za-z0-9:!'\" against the regex model; "
                "range shapes over boundary corners; sheet names from a special-character alphabet up to 31 chars; "
                "parse-then-print (pp coord / range / addr / area / name): texts generated from the canonical grammars of Model/CoordCanon.lean "
                "(all four range shapes, boundary columns and rows, both locks; qualifiers unquoted, quoted with doubling, badly quoted), one-edit "
                "near misses of them, and arbitrary strings: print(parse t) of the implementation against the model's, the reply led by the grammar "
                "predicate evaluated on both sides (harness in Rust, driver = the theorems' hypothesis), counters pp.<kind>.canon.ok / .outside. "
                "non-trivial = the implementation returned a value (not a panic / all-None); distinct = distinct request line",
        "trusted_base": TB_COMMON + [
            "fancy_regex on the one coordinate regex: modelled by a hand-written matcher, tied behaviourally (random + boundary strings)",
            "ASCII to_uppercase only (non-ASCII case mapping outside the model)",
            "translator tie of Coordinate::set_coordinate / get_coordinate: index_from_coordinate (regex-based) is an extern of the compiled set_coordinate, "
            "instantiated by the model's indexFromCoordinate (tied by C17_regex_matches_source + behaviour); get_coordinate calls the compiled "
            "coordinate_from_index_with_lock / string_from_column_index; ColumnReference / RowReference set_num, set_is_lock, get_num, get_is_lock are "
            "read as plain field assignments / reads from their source files (anything else = fallback)",
        ],
        "assumptions": ["sheet names are legal (non-empty, not starting with an apostrophe); address text contains no '!'",
                        "columns up to ZZZ=18278 (the 3-letter parser's domain), rows < 2^32",
                        "parse-then-print holds on the explicit decidable grammars canonCellB / canonRangeB / addrPlainB / canonAreaB (Model/CoordCanon.lean): "
                        "anchored, upper-case, 1-3 letters, rows 0|[1-9][0-9]* below 2^32; outside them the parser is NOT an inverse of the printer "
                        "(unanchored pattern: A1B re-prints as A1; A01 as A1; lower case parses to nothing) - witnesses are examples in Thm/C17Parse.lean",
                        "canonAreaB takes an unquoted qualifier to be any legal sheet name without ' ( ) \" , (a superset of what Excel writes bare); "
                        "only cell and cell:cell behind a qualifier (what is_address accepts); canonAreaB' / canonAddrB (Model/CoordCanonMore.lean) add col:col and "
                        "row:row behind a qualifier and all four shapes without one, at the level of Address::set_address on a DEFAULT Address only"],
        "partial_clauses": ["join_address(split_address(t)) is the identity only for unquoted qualifiers: 'n'!a comes back as n!a (join_address never quotes; "
                            "stated exactly in C17_address_parse_print); the quoting printer get_address_ptn2 returns canonArea t, not t: the qualifier is "
                            "re-quoted by the library's own rule (C17_quote_rule: bare only for [0-9a-zA-Z]+ starting with a lower-case letter or a digit run >= 2^32), "
                            "so Excel's Sheet1!$A$1 comes back as 'Sheet1'!$A$1 - same area (C17_address_canon), different text",
                            "non-ASCII case mapping is outside the address-level grammar; unqualified areas and qualified col:col / row:row areas are covered at the level "
                            "of Address::set_address / get_address_ptn2 on a default Address (C17_address_canon_total) but NOT at the level of DefinedName::set_address, "
                            "whose is_address filter keeps a text with a rejected piece as a plain string, printed verbatim (C06_defined_name_text_kept, hypothesis "
                            "(splitStr v).all isAddress = false; that EVERY qualified col:col / row:row text is rejected by is_address is not a theorem - examples only; "
                            "tied by the pp name lines); set_address on a NON-default Address with an unqualified text keeps the old sheet name (`if sheet_name != \"\"`) - not "
                            "modelled by Address.parse; the grammar predicate canonAddrB is evaluated on both sides by the `pp total` lines (the reply leads with it; counters pp.total.* per "
                            "qualified / unqualified x shape; oracle address-total-parse-print: the printed text is a fixed point with the same sheet and corners, and an "
                            "unqualified area comes back verbatim with an empty sheet name)",
                            "Range::set_range / get_range (structs/range.rs) are NOT compiled from the source (probed: set_range stops at `.split(':')` on str - then a "
                            "Vec<&str> that is indexed, ColumnReference::default() and `self.start_col = Some(..)`; get_range calls the sibling &self methods "
                            "get_coordinate_start / _end, which call ColumnReference::get_coordinate - not a plain getter); "
                            "they stay tied to the hand model Range.setRange / Range.print by behaviour only (the range lines of the correspondence stream)"],
    },
}

# further properties: one file per property under tools/props.d/Cxx.py defining PROP = {...}
import os as _os, glob as _glob, importlib.util as _ilu
for _f in sorted(_glob.glob(_os.path.join(_os.path.dirname(_os.path.abspath(__file__)), "props.d", "C*.py"))):
    _spec = _ilu.spec_from_file_location("prop_" + _os.path.basename(_f)[:-3], _f)
    _m = _ilu.module_from_spec(_spec)
    _m.TB_COMMON = TB_COMMON
    _spec.loader.exec_module(_m)
    PROPS[_os.path.basename(_f)[:-3]] = _m.PROP
