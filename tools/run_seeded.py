#!/usr/bin/env python3
"""Run checks against one seeded change:  tools/run_seeded.py <seeded-dir> [<check-id> ...]
Applies <seeded-dir>/patch.diff to /repo (which must be clean), runs the named checks (default: the
property in meta.json) at the quick tier, restores /repo and the evidence files, and records the outcome
in <seeded-dir>/result.json."""
import sys, os, json, subprocess, shutil, time
ROOT = os.path.dirname(os.path.dirname(os.path.abspath(__file__)))
d = os.path.abspath(sys.argv[1])
meta = json.load(open(os.path.join(d, "meta.json")))
ids = sys.argv[2:] or [meta["property"]]
st = subprocess.run(["git", "-C", "/repo", "status", "--porcelain"], capture_output=True, text=True).stdout.strip()
if st:
    sys.exit("refusing: /repo has uncommitted changes")
patch = os.path.join(d, "patch.diff")
r = subprocess.run(["git", "-C", "/repo", "apply", patch], capture_output=True, text=True)
if r.returncode != 0:
    sys.exit("patch does not apply: " + r.stderr[:500])
results = {}
try:
    for pid in ids:
        ev = os.path.join(ROOT, "evidence", pid + ".json")
        bak = ev + ".bak"
        if os.path.exists(ev):
            shutil.copy(ev, bak)
        t0 = time.time()
        p = subprocess.run([os.path.join(ROOT, "check"), pid, "--tier", "quick"], cwd=ROOT, capture_output=True, text=True)
        lines = [l for l in p.stdout.splitlines() if l.startswith("VIOLATION") or l.startswith("KNOWN-FINDING")]
        results[pid] = {"exit": p.returncode, "caught": p.returncode == 1 and any(l.startswith("VIOLATION") for l in lines),
                        "lines": [l[:300] for l in lines][:6], "summary": p.stderr.strip().splitlines()[-1][:300] if p.stderr.strip() else "", "wall_s": round(time.time() - t0, 1)}
        if os.path.exists(bak):
            shutil.move(bak, ev)
finally:
    subprocess.run(["git", "-C", "/repo", "checkout", "--", "."])
    subprocess.run(["git", "-C", "/repo", "clean", "-fdq", "tests/demo.rs"], capture_output=True)
json.dump({"ran": ids, "results": results, "at": time.strftime("%Y-%m-%dT%H:%M:%SZ", time.gmtime())}, open(os.path.join(d, os.environ.get("SEEDED_OUT", "result.json")), "w"), indent=1)
for pid, r in results.items():
    print(pid, "CAUGHT" if r["caught"] else "missed", r["exit"], r["summary"][:160])
