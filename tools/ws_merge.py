#!/usr/bin/env python3
"""3-way merge of a worker workspace into /verif:  ws_merge.py <N> [--dry]
base = /var/tmp/base (the /verif commit the workspace was copied from), theirs = /var/tmp/w<N>/verif, ours = /verif.
Files only they changed are copied; files both changed go through `git merge-file`; conflicts are listed."""
import sys, os, subprocess, filecmp, shutil
n = sys.argv[1]; dry = "--dry" in sys.argv
BASE, THEIRS, OURS = os.environ.get("WS_BASE", "/var/tmp/base"), f"/var/tmp/w{n}/verif", os.environ.get("WS_OURS", "/verif")
SKIP_DIRS = {".git", ".cache", ".lake", "replays", "evidence", "__pycache__", "target"}
SKIP_FILES = {".git", "DESIGN.md", "MANIFEST.json", "Cargo.lock", "config.toml", "Cargo.toml", "known_findings.json"}
def files(root):
    out = set()
    for d, ds, fs in os.walk(root):
        ds[:] = [x for x in ds if x not in SKIP_DIRS]
        for f in fs:
            if f in SKIP_FILES or f.endswith(".pyc"): continue
            out.add(os.path.relpath(os.path.join(d, f), root))
    return out
tf, bf = files(THEIRS), files(BASE)
for rel in sorted(tf | bf):
    t, b, o = os.path.join(THEIRS, rel), os.path.join(BASE, rel), os.path.join(OURS, rel)
    if rel in tf and rel in bf and filecmp.cmp(t, b, shallow=False): continue
    if rel not in tf:
        print("DELETED by them:", rel); 
        if not dry and os.path.exists(o): os.remove(o)
        continue
    if rel not in bf:
        if os.path.exists(o) and not filecmp.cmp(t, o, shallow=False): print("ADDED by both, differs (theirs kept as .theirs):", rel); (not dry) and shutil.copy(t, o + ".theirs")
        else:
            print("add", rel)
            if not dry: os.makedirs(os.path.dirname(o), exist_ok=True); shutil.copy(t, o)
        continue
    if not os.path.exists(o): print("changed by them, deleted by us:", rel); continue
    if filecmp.cmp(o, b, shallow=False):
        print("take", rel)
        if not dry: shutil.copy(t, o)
    elif filecmp.cmp(o, t, shallow=False):
        pass
    else:
        if dry: print("merge", rel); continue
        r = subprocess.run(["git", "merge-file", "-L", "ours", "-L", "base", "-L", "theirs", o, b, t])
        print("merge", rel, "CONFLICTS=%d" % r.returncode if r.returncode else "clean")
