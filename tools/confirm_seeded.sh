#!/bin/bash
# Confirms a seeded change produced in /tmp/mut<ID>: the existing suite still passes with it, the
# demonstration fails with it and passes without it. Then files it under /verif/seeded/<NAME>/ and removes
# the scratch worktree with its build output.   usage: confirm_seeded.sh <ID> [<NAME>]
ID="$1"; NAME="${2:-$1}"; D=/tmp/mut$ID; R=$D/repo
export CARGO_TARGET_DIR=$D/target CARGO_NET_OFFLINE=true
cd "$R" || exit 2
cp $D/out/demo.rs tests/demo.rs 2>/dev/null
git diff -- src > /tmp/mut${ID}_cur.diff
if ! diff -q /tmp/mut${ID}_cur.diff $D/out/patch.diff >/dev/null; then echo "note: worktree diff differs from out/patch.diff; using worktree diff"; cp /tmp/mut${ID}_cur.diff $D/out/patch.diff; fi
WITH_SUITE=$(cargo test --workspace --no-fail-fast --offline 2>&1 | grep -E "^test result|^test .* FAILED" | grep -v "demo" | tr '\n' ';')
WITH_DEMO=$(cargo test --offline --test demo 2>&1 | grep -E "^test result" | head -1)
git diff -- src > /tmp/mut${ID}_apply.diff; git apply -R /tmp/mut${ID}_apply.diff
WITHOUT_DEMO=$(cargo test --offline --test demo 2>&1 | grep -E "^test result" | head -1)
git apply /tmp/mut${ID}_apply.diff
echo "with change, suite: $WITH_SUITE"
echo "with change, demo:  $WITH_DEMO"
echo "without,     demo:  $WITHOUT_DEMO"
OK=1
echo "$WITH_DEMO" | grep -q "FAILED" || OK=0
echo "$WITHOUT_DEMO" | grep -q "test result: ok" || OK=0
echo "$WITH_SUITE" | grep -q "17 passed" || OK=0
echo "$WITH_SUITE" | grep -q "78 passed" || OK=0
if [ $OK = 1 ]; then
  mkdir -p /verif/seeded/$NAME
  cp $D/out/patch.diff $D/out/demo.rs /verif/seeded/$NAME/
  python3 - "$D/out/meta.json" "/verif/seeded/$NAME/meta.json" "$WITH_SUITE" "$WITH_DEMO" "$WITHOUT_DEMO" <<'PY'
import json,sys
m=json.load(open(sys.argv[1]))
m["confirmed_by_main"]={"existing_suite_with_change":sys.argv[3],"demo_with_change":sys.argv[4],"demo_without_change":sys.argv[5],
  "how":"tools/confirm_seeded.sh in the scratch worktree: cargo test --workspace (95 pass, 2 known failures), cargo test --test demo with and without the change"}
json.dump(m,open(sys.argv[2],"w"),indent=1)
PY
  echo CONFIRMED
else
  echo NOT-CONFIRMED
fi
cd /; git -C /repo worktree remove --force $R; rm -rf $D/target
