#!/usr/bin/env python3
"""Inventory of process-wide (or thread-wide) MUTABLE state in /repo/src.

The models of C12 / C14 / C16 assume that a save (and a password derivation) reads and writes only the
workbook it is given plus the values it creates itself: savers share nothing except what the model names.
That frame assumption is tied to the source here: every `static mut`, every `static` / `static ref` whose
type has interior mutability (Mutex, RwLock, Atomic*, RefCell, Cell, UnsafeCell, Condvar, channel ends,
OnceCell/OnceLock/Lazy wrapping one of those) and every `thread_local!` is listed and compared with the
committed baseline (tools/shared_state_baseline.json).  Immutable lazily-initialised tables (Regex, HashMap)
are not mutable state and are not listed.  Prints one JSON object."""
import re, os, sys, json, glob

REPO = os.environ.get("UMYA_REPO", "/repo")
ROOT = os.path.dirname(os.path.dirname(os.path.abspath(__file__)))
MUT = re.compile(r"\b(Mutex|RwLock|Atomic[A-Z]\w*|RefCell|Cell\s*<|UnsafeCell|Condvar|Sender\s*<|Receiver\s*<|SyncSender)\b")

def strip_comments(s):
    s = re.sub(r"/\*.*?\*/", lambda m: "\n" * m.group(0).count("\n"), s, flags=re.S)
    return re.sub(r"//[^\n]*", "", s)

def inventory():
    items = []
    for path in sorted(glob.glob(os.path.join(REPO, "src", "**", "*.rs"), recursive=True)):
        rel = os.path.relpath(path, REPO)
        src = strip_comments(open(path, errors="replace").read())
        for m in re.finditer(r"\bstatic\s+mut\s+([A-Za-z_][A-Za-z_0-9]*)", src):
            items.append({"file": rel, "name": m.group(1), "kind": "static mut"})
        for m in re.finditer(r"\bstatic\s+(?:ref\s+)?([A-Za-z_][A-Za-z_0-9]*)\s*:\s*([^=;]+)[=;]", src):
            if MUT.search(m.group(2)):
                items.append({"file": rel, "name": m.group(1), "kind": "static with interior mutability", "type": re.sub(r"\s+", " ", m.group(2).strip())[:120]})
        for m in re.finditer(r"\bthread_local!\s*[({\[]", src):
            nm = re.search(r"static\s+(?:ref\s+)?([A-Za-z_][A-Za-z_0-9]*)", src[m.end():m.end() + 300])
            items.append({"file": rel, "name": nm.group(1) if nm else "?", "kind": "thread_local"})
    return items

def main():
    base = json.load(open(os.path.join(ROOT, "tools", "shared_state_baseline.json")))
    key = lambda it: (it["file"], it["name"], it["kind"])
    allowed = {key(it) for it in base["allowed"]}
    inv = inventory()
    new = [it for it in inv if key(it) not in allowed]
    print(json.dumps({"inventory": inv, "new": new, "baseline": len(allowed)}))
    return 0

if __name__ == "__main__":
    sys.exit(main())
