#!/usr/bin/env python3
"""Regenerates /verif/MANIFEST.json from tools/props.py (claimed checks) and the fixed property list."""
import json, os, sys, subprocess
ROOT = os.path.dirname(os.path.dirname(os.path.abspath(__file__)))
sys.path.insert(0, os.path.join(ROOT, "tools"))
from props import PROPS
ids = [json.loads(l)["id"] for l in open(os.path.join(ROOT, "properties.jsonl"))]
try:
    commits = subprocess.run(["git", "-C", "/repo", "log", "--format=%h %s"], capture_output=True, text=True).stdout.splitlines()
    hook_commits = [c.split()[0] for c in commits if c.split(" ", 1)[1].startswith("verif hook")]
except Exception:
    hook_commits = []
checks = []
for pid in ids:
    if pid not in PROPS:
        continue
    c = PROPS[pid]
    checks.append({
        "property_id": pid,
        "quick_cmd": f"./check {pid} --tier quick",
        "thorough_cmd": f"./check {pid} --tier thorough",
        "evidence_file": f"/verif/evidence/{pid}.json",
        "replay_cmd_template": f"./check {pid} --replay {{path}}",
        "engine": "lean-proof+correspondence",
        "level_claimed": {"category": c.get("level", "proof"), "text": c["level_text"], "design_ref": f"DESIGN.md section 3, {pid}"},
        "level_note": c["level_note"],
        "technique": c.get("technique", "Lean 4 theorems about an executable model + differential correspondence check against the Rust implementation"),
    })
na = [{"property_id": pid, "reason": PROPS.get("_not_applicable", {}).get(pid, "no check is claimed yet: model, theorems and correspondence harness for this property are not built; nothing is asserted about it")}
      for pid in ids if pid not in PROPS]
m = {
    "version": 1,
    "setup_cmd": "./check --setup",
    "hooks": {
        "guard": "umya_verif",
        "enable": "RUSTFLAGS='--cfg umya_verif' (set in /verif/harness/.cargo/config.toml; the harness crate has a path dependency on /repo)",
        "baseline_off_cmd": "cd /repo && cargo test --workspace --no-fail-fast --offline",
        "source_commits": hook_commits,
        "add_only": True,
    },
    "engines": [{
        "name": "lean-proof+correspondence",
        "path": "/verif/check",
        "serves_properties": [c["property_id"] for c in checks],
        "kind_free_text": "Lean 4 model + theorems (lean/Umya), audited for axioms on every run; Rust harness (harness/) drives the real API and the Lean driver on the same request lines and diffs them; implementation-level oracles; translator for scalar kernels (tools/extract.py)",
    }],
    "checks": checks,
    "not_applicable": na,
    "notes": "See DESIGN.md. A check exits 1 with a VIOLATION line only for failures not listed in known_findings.json; listed findings print KNOWN-FINDING lines.",
}
json.dump(m, open(os.path.join(ROOT, "MANIFEST.json"), "w"), indent=1)
print("checks:", [c["property_id"] for c in checks], "not_applicable:", len(na))
