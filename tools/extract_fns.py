#!/usr/bin/env python3
"""(T) translator, part 3: a small compiler from a first-order Rust fragment to Lean.

Regenerates lean/Umya/Model/Gen/Fns.lean from the CURRENT source of /repo on every run of a check.
Front end: tools/rustfrag.py (tokenizer + recursive-descent parser -> AST).  This file: typed lowering of the AST to
a tree of `let` / `Option.bind` / `if` / `match` nodes in SSA (state-passing) form, and the Lean printer.

  * `let` / `let mut` / assignment / `+=` `-=`: every assignment creates a new SSA version of the variable;
    an `if` statement that assigns outer variables becomes an `if` returning the tuple of their new versions;
    `if c { return e; } rest` becomes `if c then e else rest`; `assert!(c)` becomes `if c then rest else none`.
  * Integer semantics are explicit: an `i32` `+ - *` is `Option.bind (i32c (a op b))` (checked, as in the dev
    profile the harness builds with); `i32 / literal` is `Int.tdiv`; `u32`/`usize` `-` is `Option.bind (usub a b)`;
    `u32` `+ *` are unchecked `Nat` operations (the convention of the sheet model, see GenPrelude); `i64` is an
    unbounded `Int`.  A function that contains no panicking operation is emitted as a pure definition.
  * `f64` operations go through the `RFloat` interface (`+ - * /`, `<`, `.floor()`, `.round()`, `as f64`, `as i64`);
    float literals must be integral.
  * strings are `List Char`: literals, `==` / `!=`, `format!` with `{}` holes, `.to_string()`, `[a..b]`,
    `.parse::<i32>().unwrap()`, `.replace`, `.repeat`, `.trim()`, `.contains(|c| matches!(c, ..))`, `.join`.
  * `match` on integer / string / char literals, enum paths with wildcard payloads (enums become tag
    inductives generated from the `enum` declaration), `Some(x)` / `None` / `_` / binders, `|` alternatives.
  * calls: other translated functions of the same file, `Some`, `String::from/new`,
    `NaiveDateTime::parse_from_str(<literal>, "%Y-%m-%d %T").unwrap()` (evaluated at translation time to a civil date),
    `Duration::{days,hours,minutes,seconds}`; functions named as externs in the target description become
    parameters of the generated definition.
  * closures are translated as named extraction units (the argument of a given iterator adapter), and — inside a translated
    function — by lambda lifting: the closure of `.map(..)` / `successors(..)` and the body of a `for` loop become auxiliary
    definitions `<fn>_closure_<n>` / `<fn>_loop_<n>` (numbered in source order; captured variables are leading parameters).
  * loops are folds: `for x in a..b` / `a..=b` / a slice / `.chars()` / `.iter().enumerate()` = `List.foldl` (or `rt_foldlM` when the body
    can panic) of the lifted body over `List.range` / `rt_range` / the list, the state being the tuple of the outer variables the body
    assigns (`x = e`, `x += e`, `x.push(e)`, `x.push_str(e)`, `write!(x, ..)`); `continue` ends the iteration with the current state.
    Iterator chains: `.chars()`, `.iter()`, `.into_iter()`, `.rev()`, `.enumerate()`, `.map(closure)`, `.sum::<uN>()`,
    `.collect::<String / Vec<_>>()`, `.to_uppercase()` (ASCII), `char::from_u32`, `successors(Some(a), step)` (an unfold bounded by
    fuel `a + 1`; see `rt_successors` in GenPrelude).
  * `Option` as a value: `e?` in a function that returns `Option` (an early `None`, not a panic), `let x = match e { Some(v) => v,
    None => return r };`, `if let Ok(x) = e`, `.expect(..)` / `.unwrap()` / `panic!` = panic; chrono's `checked_add_signed`,
    `Duration::try_days/try_hours/try_minutes/try_seconds` with their bounds (GenPrelude); `f64 as i64` saturates.
  * enums with payloads (`t_enum_val`): a generated inductive whose payload types outside the fragment are type parameters;
    `Enum::Variant(args)` builds a value.  Types and functions outside the fragment named in the target description
    (`abstract_types`, `extern_paths`, `extern_methods`, `extern_values`, `extern_var_fns`) become parameters of every definition of the unit.

  * byte buffers and state passing (units with `u8_bytes`: the functions of `src/helper/crypt.rs`): `u8` is `UInt8`, `Vec<u8>` / `&[u8]` /
    `[u8; N]` are `List UInt8`; `vec![x; n]`, `vec![..]`, `x[a..b]` / `x[..]` / `x[a..]` / `x[..b]` on lists (`rt_bslice`, out of range = panic),
    `.len()`, `.extend(..)` / `.extend_from_slice(..)` (as `++`), `x[i] = v` / `std::mem::replace(&mut x[i], v)` (`rt_list_set`),
    `LittleEndian::write_u32 / read_u32`, `u16 / u32::to_le_bytes`, `str::encode_utf16`, `.flat_map(closure)`, `.map(AsRef::as_ref)`, `.copied()`,
    `.cmp(..)` with `match` on `Ordering::{Less, Equal, Greater}`, `.min / .max`, `Option::unwrap_or`, unsigned `/` `%` by a variable (by zero = panic),
    truncating casts between unsigned types (`x as u32` = `x % 2^32`), `char as u16`.  `Result<T, E>` is `Option T` (`Ok` = `some`, `Err(_)` = `none`:
    the error value is not represented).  `while c { .. }` = `rt_whileM cond body fuel state` (state = the outer variables the body assigns, in
    declaration order; fuel = the `while_fuel` expression of the target description; out of fuel = `none`).  A `match` statement whose arms assign
    outer variables is a join like `if`.  A function with one `&mut` parameter (and no value) returns that parameter's final value; a call
    `f(&mut x, ..)` of it rebinds `x` (`calls` entry with the index of the `&mut` parameter).  `let x = <literal>;` takes its type at each use,
    `let mut x = <literal>;` the first of i32 / usize / u32 / u64 under which the rest of the block type-checks (`inline_int_lets`).
  * externs of such units: `extern_draws` (the k-th call of `gen_random_N()` in source order is `gen_random_N k`: explicit randomness),
    `extern_ctors` (`Sha512::new()`, `Writer::new(..)`: a value parameter), `extern_mut_methods` (`digest.update(x)`: `digest' = upd digest x`),
    `extern_mut_fns` (`write_start_tag(&mut writer, ..)`: `writer' = f writer ..`), `xml_writer` (`write_event(Event::Decl(BytesDecl::new(..)))`,
    `writer.into_inner().into_inner()`), `const_files` (constants of other files), `objects` (a struct whose setters the function calls is an
    `rt_Obj`: `x.set_f(v)` / `x.remove_f()` are resolved by reading the setter's body `self.<field>.set_value(value); self` /
    `self.<field>.remove_value(); self` and the field's type in the struct's own file).  A callee compiled in the same run passes its externs
    on to its callers (recorded in a `-- SIG` line next to the definition so that a caller still compiles against a snapshot); next to every
    definition of such a unit a tactic `gen_unfold_<name>` unfolds it together with whatever was lifted out of it.
  * `&mut self` methods (`mut_self`: `NumberingFormats::set_style`): state passing over the fields of `self` that are inside the fragment
    (the result is the tuple of their final versions, then the value if there is one: `pack`); `HashMap<K, V>` is the list of its entries in
    the (unspecified) iteration order (`rt_map_insert / rt_map_get / rt_map_contains`, `.iter() / .values() / .keys()`; a loop over it must
    be order-insensitive: a search `if c { return e; }` or a running maximum / minimum); a `for` loop with `return` in its body is
    `rt_foldl_ret` (stops at the first result); `.find / .filter / .any / .position` with a predicate closure (`rt_position`), `.count()`;
    plain structs as Lean structures (`t_record`, `records`: getters / setters resolved by reading their bodies), sibling `&mut self` methods
    (`self_methods`), `param_subst`, `local_types`, `narrowing_casts` (`usize as u32` without the truncation); `o.unwrap_or_else(f)` for a
    translated `f` that cannot panic; arithmetic on two unsuffixed literals in a context of known integer type; `match` / `if let` statements
    with an arm that leaves the function (the rest of the block continues in the arms that fall through); tuple patterns.
    Record fields of the state (`Coordinate`: `ColumnReference` / `RowReference`; the protection structs: the value holders `StringValue` /
    `UInt32Value` / `BooleanValue`): `self.<field>.set_f(v);` / `self.<field>.remove_f();` is a new version of the field with `f` replaced,
    the callee's body being read from the record's own file (`self.f = value`, `self.f = Some(value)`, `self.f = None`; anything else is
    `Unsupported`); such a statement inside an `if` / `match` makes the field part of the join (`assigned`).

Anything else raises `Unsupported`: the committed snapshot of that definition is kept and the item is reported under
"fallbacks" (not a violation; the tie for it falls back to the correspondence check alone).
Prints one JSON line: {"functions_extracted": [...], "fallbacks": [...], "changed": bool}."""
import os, sys, json, re

sys.path.insert(0, os.path.dirname(os.path.abspath(__file__)))
from rustfrag import SourceFile, Unsupported

REPO = os.environ.get("UMYA_REPO", "/repo")
ROOT = os.path.dirname(os.path.dirname(os.path.abspath(__file__)))
OUT = os.environ.get("UMYA_FNS_OUT") or os.path.join(ROOT, "lean", "Umya", "Model", "Gen", "Fns.lean")

ENUMV = {}       # enum with payloads -> {"params": [abstract type names], "variants": [(name, [types])]}
SIGNED = ("i32", "i64")
UNSIGNED = ("u8", "u16", "u32", "usize", "u64")
BITS = {"u8": 8, "u16": 16, "u32": 32, "usize": 64, "u64": 64}
INTS = SIGNED + UNSIGNED
LEAN_RESERVED = {"end", "at", "from", "fun", "then", "have", "show", "by", "do", "in", "open", "section", "namespace",
                 "variable", "theorem", "def", "instance", "class", "structure", "where", "with", "then", "else", "local", "prefix"}


def lean_char(c):
    special = {"\n": "'\\n'", "\r": "'\\r'", "\t": "'\\t'", "'": "'\\''", "\\": "'\\\\'", "\0": "'\\x00'"}
    if c in special: return special[c]
    if ord(c) < 32 or ord(c) == 127: return "'\\x%02x'" % ord(c)
    return "'" + c + "'"


def lean_str(s):
    """a Rust string literal as a `List Char` literal (no `String.toList` to reduce in proofs)"""
    return "([] : List Char)" if s == "" else "[" + ", ".join(lean_char(c) for c in s) + "]"


def lean_type(t):
    if t in SIGNED or t in ("datetime", "duration"): return "Int"
    if t in UNSIGNED: return "Nat"
    if t == "bool": return "Bool"
    if t == "f64": return "F"
    if t == "str": return "List Char"
    if t == "char": return "Char"
    if t == "unit": return "Unit"
    if t == "byte": return "UInt8"
    if t == "ordering": return "Ordering"
    if isinstance(t, tuple):
        if t[0] == "obj": return "rt_Obj"
        if t[0] in ("opt", "res"): return f"Option ({lean_type(t[1])})" if t[1] != "?" else "Option Unit"
        if t[0] == "enum": return t[1] + "_tag"
        if t[0] == "tuple": return "(" + " × ".join(lean_type(x) for x in t[1]) + ")"
        if t[0] in ("list", "iter", "miter"): return f"List ({lean_type(t[1])})"
        if t[0] == "opaque": return "Unit"
        if t[0] == "abs": return t[1]
        if t[0] == "enumv": return "(" + " ".join([t[1] + "_val"] + ENUMV[t[1]]["params"]) + ")"
        if t[0] == "map": return f"List ({lean_type(t[1])} × {lean_type(t[2])})"
        if t[0] == "rec": return t[1] + "_rec"
    raise Unsupported(f"type {t}")


class Fn:
    """lowering of one function / fragment / closure"""
    def __init__(self, unit, src, name):
        self.unit, self.src, self.name = unit, src, name
        self.counts = {}
        self.needs_F = False
        self.needs_C = False
        self.ret_ty = None
        self.consts = {}            # rust const name -> (lean term, type)
        self.depth = 0
        self.loop_k = []            # continuations of the enclosing `for` bodies (`continue`)
        self.draws = {}             # random generator -> number of draws so far (source order)
        self.depth_loop = 0         # > 0 inside a lifted closure / loop body
        self.state_fields = []      # `&mut self` method: the fields threaded through (state passing)
        self.loop_ret = None        # inside a lifted loop body: how `return e` leaves the loop

    # ---------------------------------------------------------------- names and types
    def fresh(self, base):
        base = re.sub(r"[^A-Za-z0-9_]", "_", base)
        if base in LEAN_RESERVED or base in ("F", "C"): base += "_"
        n = self.counts.get(base, 0)
        self.counts[base] = n + 1
        return base if n == 0 else f"{base}_{n}"

    def conv_type(self, ty):
        k = ty[0]
        if k == "unit": return "unit"
        if k == "tuple": return ("tuple", [self.conv_type(x) for x in ty[1]])
        if k in ("array", "slice"): return ("list", self.conv_type(ty[1]))
        name, args = ty[1], ty[2]
        if name in self.unit.spec.get("abstract_types", {}): return ("abs", self.unit.spec["abstract_types"][name])
        if name in self.unit.spec.get("enum_vals", ()): return ("enumv", name)
        if name == "u8" and self.unit.spec.get("u8_bytes"): return "byte"
        if name in self.unit.spec.get("objects", {}): return ("obj", name)
        if name == "Result": return ("res", self.conv_type(args[0]))
        if name in INTS or name in ("bool", "f64", "char"): return name
        if name in ("String", "str") or name in self.unit.str_generics: return "str"
        if name == "Option": return ("opt", self.conv_type(args[0]))
        if name in ("Box", "Cow"): return self.conv_type(args[-1])
        if name in ("Vec", "ThinVec"): return ("list", self.conv_type(args[0]))
        if name == "HashMap" and len(args) == 2: return ("map", self.conv_type(args[0]), self.conv_type(args[1]))
        if name in self.unit.spec.get("records", {}): return ("rec", name)
        if name == "NaiveDateTime": return "datetime"
        if name in self.unit.enums: return ("enum", name)
        return ("opaque", name)

    # ---------------------------------------------------------------- trees
    @staticmethod
    def wrap(pre, tree):
        for item in reversed(pre):
            if item[0] == "let": tree = ("let", item[1], item[2], item[3], tree)
            elif item[0] == "bind": tree = ("bind", item[1], item[2], tree)
            elif item[0] == "qbind": tree = ("qbind", item[1], item[2], tree)
            else: tree = ("join", item[2], [(item[1], item[3])], tree)
        return tree

    @staticmethod
    def panics(tree):
        k = tree[0]
        if k == "ret": return False
        if k == "panic": return True
        if k == "let": return Fn.panics(tree[4])
        if k == "bind": return True
        if k == "qbind": return Fn.panics(tree[3])
        if k == "opt": return True
        if k == "ite": return Fn.panics(tree[2]) or Fn.panics(tree[3])
        if k == "match": return any(Fn.panics(t) for _, t in tree[2])
        if k == "join": return Fn.panics(tree[1]) or Fn.panics(tree[3])
        raise AssertionError(k)

    def emit(self, tree, mon, ind):
        """Lean text of `tree`; `mon` = the context expects an `Option`"""
        sp = "  " * ind
        k = tree[0]
        if k == "ret": return f"{sp}(some {tree[1]})" if mon else f"{sp}{tree[1]}"
        if k == "panic":
            assert mon
            return f"{sp}none"
        if k == "opt":
            assert mon
            return f"{sp}{tree[1]}"
        if k == "let":
            return f"{sp}let {tree[1]} : {lean_type(tree[2])} := {tree[3]};\n" + self.emit(tree[4], mon, ind)
        if k == "bind":
            assert mon
            return f"{sp}Option.bind ({tree[2]}) fun {tree[1]} =>\n" + self.emit(tree[3], mon, ind)
        if k == "qbind":
            # `e?` in a function returning `Option`: `None` is a value (early return), not a panic
            if not mon:
                return f"{sp}Option.bind ({tree[2]}) fun {tree[1]} =>\n" + self.emit(tree[3], mon, ind)
            return (f"{sp}match {tree[2]} with\n{sp}| none => (some none)\n{sp}| some {tree[1]} => (\n" +
                    self.emit(tree[3], mon, ind + 1) + f"\n{sp}  )")
        if k == "ite":
            return (f"{sp}if {tree[1]} then (\n" + self.emit(tree[2], mon, ind + 1) + f"\n{sp}) else (\n" +
                    self.emit(tree[3], mon, ind + 1) + f"\n{sp})")
        if k == "match":
            arms = "".join(f"\n{sp}| {p} => (\n" + self.emit(t, mon, ind + 1) + f"\n{sp}  )" for p, t in tree[2])
            return f"{sp}match {tree[1]} with{arms}"
        if k == "join":
            first, names, body = tree[1], tree[2], tree[3]
            fm = Fn.panics(first)
            assert mon or not fm
            if len(names) == 1:
                binder, proj = names[0][0], ""
            else:
                binder = self.fresh("st")
                proj = ""
                for i, (n, ty) in enumerate(names):
                    path = ".2" * i + (".1" if i < len(names) - 1 else "")
                    proj += f"{sp}let {n} : {lean_type(ty)} := {binder}{path};\n"
            ty = names[0][1] if len(names) == 1 else ("tuple", [t for _, t in names])
            if fm:
                return f"{sp}Option.bind (\n" + self.emit(first, True, ind + 1) + f"\n{sp}) fun {binder} =>\n" + proj + self.emit(body, mon, ind)
            return f"{sp}let {binder} : {lean_type(ty)} := (\n" + self.emit(first, False, ind + 1) + f"\n{sp});\n" + proj + self.emit(body, mon, ind)
        raise AssertionError(k)

    # ---------------------------------------------------------------- statements (continuation-passing)
    def diverges(self, block):
        _, stmts, tail = block
        if tail is not None:
            return tail[0] in ("return", "continue") or (tail[0] == "if" and tail[3] is not None and self.diverges(tail[2]) and self.diverges(tail[3]))
        if not stmts: return False
        s = stmts[-1]
        if s[0] == "expr" and s[1][0] in ("return", "continue"): return True
        if s[0] == "expr" and s[1][0] == "if" and s[1][3] is not None:
            return self.diverges(s[1][2]) and self.diverges(s[1][3])
        return False

    def arm_diverges(self, body):
        return body[0] == "return" or (body[0] == "block" and self.diverges(body))

    def assigned(self, block, acc=None, local=None):
        acc = [] if acc is None else acc
        local = set() if local is None else set(local)
        _, stmts, tail = block
        for s in list(stmts) + ([("expr", tail)] if tail is not None else []):
            if s[0] == "let" and s[1][0] == "pbind": local.add(s[1][1])
            elif s[0] == "assign" and s[1][0] == "index" and s[1][1][0] == "path" and len(s[1][1][1]) == 1:
                if s[1][1][1][0] not in local and s[1][1][1][0] not in acc: acc.append(s[1][1][1][0])
            elif s[0] == "assign":
                if s[1][0] != "path" or len(s[1][1]) != 1: raise Unsupported("assignment to a place that is not a variable")
                if s[1][1][0] not in local and s[1][1][0] not in acc: acc.append(s[1][1][0])
            elif s[0] == "while":
                self.assigned(s[2], acc, local)
            elif s[0] == "expr" and s[1][0] == "call":
                # `f(&mut x, ..)`, `std::mem::replace(&mut x[i], v)`, `LittleEndian::write_u32(x, v)`: x is written
                tgts = []
                for a in s[1][2]:
                    if a[0] == "unary" and a[1] == "&mut":
                        t = a[2]
                        if t[0] == "index": t = t[1]
                        if t[0] == "path" and len(t[1]) == 1: tgts.append(t[1][0])
                if s[1][1][1][-2:] == ["LittleEndian", "write_u32"] and s[1][2]:
                    t = s[1][2][0]
                    while t[0] == "unary": t = t[2]
                    if t[0] == "path" and len(t[1]) == 1: tgts.append(t[1][0])
                for x in tgts:
                    if x not in local and x not in acc: acc.append(x)
            elif s[0] == "expr" and s[1][0] == "mcall" and s[1][1][0] == "path" and len(s[1][1][1]) == 1 and s[1][1][1][0] in getattr(getattr(self, "root", self), "obj_vars", ()):
                x = s[1][1][1][0]
                if x not in local and x not in acc: acc.append(x)
            elif s[0] == "expr" and s[1][0] == "mcall" and s[1][1][0] == "field" and s[1][1][1] == ("path", ["self"]):
                # `self.<field>.m(..);` as a statement (a setter of a record field, `insert` / `push` on a map / list field): the field of
                # the state is written (an over-approximation is harmless: the join returns the unchanged version)
                x = "self." + s[1][1][2]
                if x not in acc: acc.append(x)
            elif s[0] == "expr" and s[1][0] == "mcall" and s[1][1] == ("path", ["self"]) and s[1][2] in self.unit.spec.get("self_methods", {}):
                for f in getattr(getattr(self, "root", self), "state_fields", ()):
                    if "self." + f not in acc: acc.append("self." + f)
            elif s[0] == "expr" and s[1][0] == "if":
                self.assigned(s[1][2], acc, local)
                if s[1][3] is not None: self.assigned(s[1][3], acc, local)
            elif s[0] == "expr" and s[1][0] == "mcall" and s[1][1][0] == "macro" and s[1][1][1] == "write":
                tgt = s[1][1][2][0]
                if tgt[0] == "path" and tgt[1][0] not in local and tgt[1][0] not in acc: acc.append(tgt[1][0])
            elif s[0] == "expr" and s[1][0] == "block":
                self.assigned(s[1], acc, local)
            elif s[0] == "expr" and s[1][0] == "mcall" and s[1][2] in ("push", "push_str", "extend", "extend_from_slice") and s[1][1][0] == "path" and len(s[1][1][1]) == 1:
                x = s[1][1][1][0]
                if x not in local and x not in acc: acc.append(x)
            elif s[0] == "for":
                self.assigned(s[3], acc, local | set(self.pat_names(s[1])))
            elif s[0] == "expr" and s[1][0] == "match":
                for ap, _g, body in s[1][2]:
                    self.assigned(body if body[0] == "block" else ("block", [], body), acc, local | set(self.pat_names(ap)))
        return acc

    def pat_names(self, pat):
        if pat[0] == "pbind": return [pat[1]]
        if pat[0] in ("ptuple", "por"): return [n for q in pat[1] for n in self.pat_names(q)]
        if pat[0] == "ppath" and pat[2]: return [n for q in pat[2] for n in self.pat_names(q)]
        return []

    def free_vars(self, e, env):
        """names of `env` mentioned in an AST fragment (an over-approximation of its free variables), sorted"""
        out = set()
        def walk(x):
            if isinstance(x, tuple):
                if len(x) == 2 and x[0] == "path" and isinstance(x[1], list) and len(x[1]) == 1 and x[1][0] in env: out.add(x[1][0])
                if len(x) == 3 and x[0] == "field" and x[1] == ("path", ["self"]) and ("self." + x[2]) in env: out.add("self." + x[2])
                for y in x: walk(y)
            elif isinstance(x, list):
                for y in x: walk(y)
        walk(e)
        return sorted(n for n in out if not (isinstance(env[n][1], tuple) and env[n][1][0] == "opaque"))

    def lift(self, kind, params, body, env, k_of=None, state_ty=None):
        """lambda lifting: a closure / a loop body becomes an auxiliary definition `<fn>_<kind>_<n>` whose leading parameters are
        the variables it captures.  params: [(rust name, type)].  Returns (call prefix, result type or None, can panic)."""
        n = sum(1 for a in self.unit.aux if a["kind"] == kind and a["owner"] == self.name)
        name = f"{self.name}_{kind}_{n}"
        g = Fn(self.unit, self.src, name)
        g.consts = self.consts
        g.root = getattr(self, "root", self)
        cap = [x for x in self.free_vars(body, env) if x not in [p for p, _ in params]]
        env2, lparams = {}, []
        for x in list(cap):
            if env[x][1] == "int?":           # an inlined literal `let`
                env2[x] = env[x]; cap.remove(x); continue
            ln = g.fresh(x.replace("self.", "")); env2[x] = (ln, env[x][1]); lparams.append((ln, env[x][1]))
        for pn, pt in params:
            ln = g.fresh(pn); env2[pn] = (ln, pt); lparams.append((ln, pt))
        tys = []
        if k_of is None:
            def k(env3, v):
                if v is None: raise Unsupported("closure without a value")
                tys.append("i32" if v[1] == "int?" else v[1]); return ("ret", v[0])
        else:
            k = k_of(g)
        rec = {"kind": kind, "owner": self.name, "name": name, "fn": g, "params": lparams, "ret": None, "tree": None, "state_ty": state_ty}
        self.unit.aux.append(rec)          # registered first: numbering follows the order of appearance in the source
        g.depth = 1                        # no `return` / `?` out of a closure or a loop body
        g.depth_loop = 1
        tree = g.lower_block(body if body[0] == "block" else ("block", [], body), env2, k)
        rty = g.join_types(tys) if k_of is None else None
        rec["tree"], rec["ret"] = tree, rty
        call = f"{name}⟦X⟧" + "".join(" " + env[x][0] for x in cap)
        return call, rty, Fn.panics(tree)


    def lower_block(self, block, env, k):
        _, stmts, tail = block
        return self.lower_stmts(list(stmts), tail, dict(env), k)

    def lower_stmts(self, stmts, tail, env, k):
        if tail is not None and tail[0] == "if" and tail[3] is None:
            stmts, tail = list(stmts) + [("expr", tail)], None       # `if` without `else` has no value
        if not stmts:
            if tail is None: return k(env, None)
            if tail[0] == "return": return self.lower_return(tail, env)
            if tail[0] == "if" and tail[3] is not None:
                pre = []
                c = self.cond(tail[1], env, pre)
                return self.wrap(pre, ("ite", c, self.lower_block(tail[2], env, k), self.lower_block(tail[3], env, k)))
            if tail[0] == "block": return self.lower_block(tail, env, k)
            if tail[0] == "macro" and tail[1] in ("panic", "unreachable"): return ("panic",)
            if tail[0] == "match":
                pre = []
                scrut, arms = self.match_arms(tail, env, pre, k)
                return self.wrap(pre, ("match", scrut, arms))
            pre = []
            v = self.expr(tail, env, pre, self.ret_ty if self.depth == 0 else None)      # the tail of the function body has the return type
            return self.wrap(pre, k(env, v))
        s, rest = stmts[0], stmts[1:]
        kind = s[0]
        if kind == "let":
            _, pat, ty, e, _mut = s
            if e is None: raise Unsupported("let without initialiser")
            want = self.conv_type(ty) if ty is not None else None
            if want is None and pat[0] == "pbind" and pat[1] in self.unit.spec.get("local_types", {}):
                want = self.unit.spec["local_types"][pat[1]]      # an unsuffixed literal whose type Rust infers from later uses
            if e[0] == "match" and pat[0] == "pbind" and any(self.arm_diverges(b) for _, _, b in e[2]):
                # `let x = match s { P => v, Q => return r };`: the rest of the block continues in the arms that have a value
                if self.depth > 0: raise Unsupported("return inside a nested value block")
                pre = []
                sv, sty = self.expr(e[1], env, pre)
                arms = []
                for ap, guard, body in e[2]:
                    if guard is not None: raise Unsupported("match guard")
                    pt, env2 = self.pattern(ap, sty, env)
                    blk = body if body[0] == "block" else ("block", [], body)
                    if self.arm_diverges(body):
                        arms.append((pt, self.lower_block(blk, env2, lambda e3, _v: ("panic",))))
                    else:
                        def kk(env3, v, pat=pat, want=want):
                            if v is None: raise Unsupported("match arm without a value")
                            val, vt = self.coerce(v[0], v[1], want) if want is not None else v
                            if vt == "int?": vt = "i32"
                            n = self.fresh(pat[1])
                            env4 = dict(env); env4[pat[1]] = (n, vt)
                            return ("let", n, vt, val, self.lower_stmts(rest, tail, env4, k))
                        arms.append((pt, self.lower_block(blk, env2, kk)))
                return self.wrap(pre, ("match", sv, arms))
            if (self.unit.spec.get("inline_int_lets") and _mut and ty is None and pat[0] == "pbind" and e[0] == "int" and e[2] is None):
                # `let mut x = <unsuffixed literal>;`: the type is what the uses of `x` say.  The candidates are tried in turn (Rust's default
                # first); the lowering is strictly typed (no implicit conversion), so a wrong candidate fails on the first use
                root = getattr(self, "root", self)
                last, msgs = None, []
                for cand in ("i32", "usize", "u32", "u64"):
                    snap = (dict(self.counts), len(self.unit.aux), list(self.unit.extra_params), dict(root.draws))
                    try:
                        n = self.fresh(pat[1])
                        env2 = dict(env); env2[pat[1]] = (n, cand)
                        return ("let", n, cand, str(e[1]), self.lower_stmts(rest, tail, env2, k))
                    except Unsupported as ex:
                        last = ex; msgs.append(f"{cand}: {ex}")
                        self.counts = snap[0]; del self.unit.aux[snap[1]:]; self.unit.extra_params[:] = snap[2]; root.draws = snap[3]
                raise Unsupported(f"`let mut {pat[1]} = {e[1]}`: no integer type fits (" + "; ".join(msgs) + ")")
            if (self.unit.spec.get("inline_int_lets") and not _mut and ty is None and pat[0] == "pbind" and e[0] == "int" and e[2] is None):
                # `let x = <unsuffixed literal>;` (immutable): the literal takes its type at each use, as Rust's inference would give it
                env = dict(env); env[pat[1]] = (str(e[1]), "int?")
                return self.lower_stmts(rest, tail, env, k)
            pre = []
            v, vt = self.expr(e, env, pre, want)
            if want is not None: v, vt = self.coerce(v, vt, want)
            if vt == "int?": vt = "i32"            # an unsuffixed literal with no other constraint: Rust's default
            if pat[0] == "pbind":
                n = self.fresh(pat[1])
                pre.append(("let", n, vt, v))
                env = dict(env); env[pat[1]] = (n, vt)
            elif pat[0] == "pwild":
                pass
            elif pat[0] == "ptuple" and isinstance(vt, tuple) and vt[0] == "tuple" and all(p[0] in ("pbind", "pwild") for p in pat[1]):
                env = dict(env)
                for i, p in enumerate(pat[1]):
                    if p[0] == "pbind":
                        n = self.fresh(p[1])
                        proj = ".2" * i + (".1" if i < len(pat[1]) - 1 else "")
                        pre.append(("let", n, vt[1][i], f"({v}){proj}")); env[p[1]] = (n, vt[1][i])
            else:
                raise Unsupported("let pattern")
            return self.wrap(pre, self.lower_stmts(rest, tail, env, k))
        if kind == "const":
            _, name, ty, e = s
            pre = []
            want = self.conv_type(ty)
            v, vt = self.expr(e, env, pre, want)
            if pre: raise Unsupported("const with a panicking initialiser")
            v, vt = self.coerce(v, vt, want)
            self.consts[name] = (v, vt)
            return self.lower_stmts(rest, tail, env, k)
        if kind == "assign":
            _, lhs, op, rhs = s
            if lhs[0] == "index" and op == "=" and lhs[1][0] == "path" and len(lhs[1][1]) == 1 and lhs[1][1][0] in env:
                return self.lower_stmts([("expr", ("call", ("path", ["std", "mem", "replace"]), [("unary", "&mut", lhs), rhs]))] + rest, tail, env, k)
            if lhs[0] != "path" or len(lhs[1]) != 1 or lhs[1][0] not in env: raise Unsupported("assignment to a place that is not a local variable")
            x = lhs[1][0]
            if op != "=":
                rhs = ("binary", op[0], lhs, rhs)
            pre = []
            v, vt = self.expr(rhs, env, pre, env[x][1])
            v, vt = self.coerce(v, vt, env[x][1])
            n = self.fresh(x)
            pre.append(("let", n, vt, v))
            env = dict(env); env[x] = (n, vt)
            return self.wrap(pre, self.lower_stmts(rest, tail, env, k))
        if kind == "for":
            return self.lower_for(s, rest, tail, env, k)
        if kind == "while":
            return self.lower_while(s, rest, tail, env, k)
        if kind == "expr":
            e = s[1]
            if e[0] == "return": return self.lower_return(e, env)
            if e[0] == "continue":
                if not self.loop_k: raise Unsupported("continue outside a loop body")
                return self.loop_k[-1](env, None)
            if e[0] == "break": raise Unsupported("break")
            if e[0] == "mcall" and e[2] in ("push", "push_str") and e[1][0] == "path" and len(e[1][1]) == 1 and e[1][1][0] in env and len(e[4]) == 1:
                x = e[1][1][0]
                xt = env[x][1]
                pre = []
                if isinstance(xt, tuple) and xt[0] == "list" and e[2] == "push":
                    v, vt = self.expr(e[4][0], env, pre, xt[1]); v, vt = self.coerce(v, vt, xt[1]); new = f"({env[x][0]} ++ [{v}])"
                elif xt == "str" and e[2] == "push":
                    v, vt = self.expr(e[4][0], env, pre, "char")
                    if vt != "char": raise Unsupported("String::push argument")
                    new = f"({env[x][0]} ++ [{v}])"
                elif xt == "str" and e[2] == "push_str":
                    v, vt = self.expr(e[4][0], env, pre, "str")
                    if vt != "str": raise Unsupported("String::push_str argument")
                    new = f"({env[x][0]} ++ {v})"
                else:
                    raise Unsupported(f".{e[2]}() on {xt}")
                n = self.fresh(x)
                pre.append(("let", n, xt, new))
                env = dict(env); env[x] = (n, xt)
                return self.wrap(pre, self.lower_stmts(rest, tail, env, k))
            upd = self.mutation(e, env)
            if upd is not None:
                x, pre, new, mon = upd
                xt = env[x][1]
                n = self.fresh(x)
                pre.append(("bind", n, new) if mon else ("let", n, xt, new))
                env = dict(env); env[x] = (n, xt)
                return self.wrap(pre, self.lower_stmts(rest, tail, env, k))
            if e[0] == "mcall" and e[1][0] == "path" and len(e[1][1]) == 1 and e[1][1][0] in env and isinstance(env[e[1][1][0]][1], tuple) \
                    and env[e[1][1][0]][1][0] == "rec" and len(e[4]) == 1:
                # `x.set_f(v);` on a local record: a new version of `x` with the field replaced (the setter's body is checked)
                x = e[1][1][0]; xt = env[x][1]
                fld = self.unit.record_setter(xt[1], e[2])
                if fld is None: raise Unsupported(f"method {xt[1]}::{e[2]} is not a plain setter")
                ft = RECS[xt[1]]["fields"][fld]
                pre = []
                v, vt = self.expr(e[4][0], env, pre, ft); v, vt = self.coerce(v, vt, ft)
                n = self.fresh(x)
                pre.append(("let", n, xt, f"{{ {env[x][0]} with {fld} := {v} }}"))
                env = dict(env); env[x] = (n, xt)
                return self.wrap(pre, self.lower_stmts(rest, tail, env, k))
            if e[0] == "mcall" and e[1][0] == "field" and e[1][1] == ("path", ["self"]) and ("self." + e[1][2]) in env and self.state_fields:
                key = "self." + e[1][2]; mt = env[key][1]
                pre = []
                if isinstance(mt, tuple) and mt[0] == "rec" and len(e[4]) == 1:
                    # `self.<field>.set_f(v);` on a record field of the state: a new version of the field with `f` replaced (the setter's
                    # body is read from the record's own file: `self.f = value` or `self.f = Some(value)`)
                    fld = self.unit.record_setter(mt[1], e[2]); some = False
                    if fld is None: fld = self.unit.record_setter_some(mt[1], e[2]); some = True
                    if fld is None: raise Unsupported(f"method {mt[1]}::{e[2]} is not a plain setter")
                    ft = RECS[mt[1]]["fields"][fld]
                    if some: ft = ft[1]
                    v, vt = self.expr(e[4][0], env, pre, ft); v, vt = self.coerce(v, vt, ft)
                    new = f"{{ {env[key][0]} with {fld} := " + (f"some {v}" if some else v) + " }"
                elif isinstance(mt, tuple) and mt[0] == "rec" and len(e[4]) == 0:
                    # `self.<field>.remove_f();`: `self.f = None` in the record's own file
                    fld = self.unit.record_remover(mt[1], e[2])
                    if fld is None: raise Unsupported(f"method {mt[1]}::{e[2]} is not a plain remover")
                    new = f"{{ {env[key][0]} with {fld} := none }}"
                elif isinstance(mt, tuple) and mt[0] == "map" and e[2] == "insert" and len(e[4]) == 2:
                    a, at = self.expr(e[4][0], env, pre, mt[1]); a, at = self.coerce(a, at, mt[1])
                    b, bt = self.expr(e[4][1], env, pre, mt[2]); b, bt = self.coerce(b, bt, mt[2])
                    new = f"(rt_map_insert {env[key][0]} {a} {b})"
                elif isinstance(mt, tuple) and mt[0] == "list" and e[2] == "push" and len(e[4]) == 1:
                    a, at = self.expr(e[4][0], env, pre, mt[1]); a, at = self.coerce(a, at, mt[1])
                    new = f"({env[key][0]} ++ [{a}])"
                else:
                    raise Unsupported(f"self.{e[1][2]}.{e[2]}(..) as a statement")
                n = self.fresh(e[1][2])
                pre.append(("let", n, mt, new))
                env = dict(env); env[key] = (n, mt)
                return self.wrap(pre, self.lower_stmts(rest, tail, env, k))
            if e[0] == "mcall" and e[1] == ("path", ["self"]) and e[2] in self.unit.spec.get("self_methods", {}) and self.state_fields:
                # `self.m(args);` for a translated `&mut self` method `m` that returns nothing we use: state in, state out
                lean_name, ptys = self.unit.spec["self_methods"][e[2]]
                if len(ptys) != len(e[4]): raise Unsupported(f"call of self.{e[2]}: arity")
                if SIGS.get(lean_name, {}).get("plain") is not True: raise Unsupported(f"self.{e[2]}: the callee is not available as a plain state transformer")
                pre = []
                vs = [env["self." + f][0] for f in self.state_fields]
                for a, pt in zip(e[4], ptys):
                    v, vt = self.expr(a, env, pre, pt); v, vt = self.coerce(v, vt, pt); vs.append(v)
                env = dict(env)
                if len(self.state_fields) == 1:
                    f = self.state_fields[0]; n = self.fresh(f)
                    pre.append(("let", n, env["self." + f][1], f"({lean_name} " + " ".join(vs) + ")")); env["self." + f] = (n, env["self." + f][1])
                else:
                    st = self.fresh("self_st")
                    pre.append(("let", st, ("tuple", [env["self." + f][1] for f in self.state_fields]), f"({lean_name} " + " ".join(vs) + ")"))
                    for i, f in enumerate(self.state_fields):
                        n = self.fresh(f); proj = ".2" * i + (".1" if i < len(self.state_fields) - 1 else "")
                        pre.append(("let", n, env["self." + f][1], f"{st}{proj}")); env["self." + f] = (n, env["self." + f][1])
                return self.wrap(pre, self.lower_stmts(rest, tail, env, k))
            if e[0] == "match":
                # a `match` statement: like `if`, the outer variables its arms assign are its value
                if any(self.arm_diverges(b) or self.has_return(b) for _, _, b in e[2]):
                    # an arm leaves the function / the iteration (`match` / `if let` with `return` / `continue`, possibly nested in the arm):
                    # the rest of the block continues in every arm that falls through (with the versions of the variables that arm has produced)
                    if self.depth > self.depth_loop: raise Unsupported("return inside a nested value block")
                    outer = lambda env2, _v: self.lower_stmts(rest, tail, {x: env2[x] for x in env}, k)
                    pre = []
                    sv, arms = self.match_arms(e, env, pre, outer)
                    return self.wrap(pre, ("match", sv, arms))
                names = [x for x in self.assigned(("block", [("expr", e)], None)) if x in env]
                pre = []
                if not names:
                    sv, arms = self.match_arms(e, env, pre, lambda e2, _v: ("ret", "()"))
                    if any(self.panics(t) for _, t in arms):
                        return self.wrap(pre, ("join", ("match", sv, arms), [(self.fresh("u"), "unit")], self.lower_stmts(rest, tail, env, k)))
                    return self.wrap(pre, self.lower_stmts(rest, tail, env, k))
                tup = lambda e2, _v: ("ret", e2[names[0]][0] if len(names) == 1 else "(" + ", ".join(e2[x][0] for x in names) + ")")
                self.depth += 1
                sv, arms = self.match_arms(e, env, pre, tup)
                self.depth -= 1
                env2 = dict(env)
                new = []
                for x in names:
                    n = self.fresh(x); new.append((n, env[x][1])); env2[x] = (n, env[x][1])
                return self.wrap(pre, ("join", ("match", sv, arms), new, self.lower_stmts(rest, tail, env2, k)))
            if e[0] == "macro" and e[1] in ("panic", "unreachable"): return ("panic",)
            if e[0] == "macro" and e[1] == "assert":
                pre = []
                c = self.cond(e[2][0], env, pre)
                return self.wrap(pre, ("ite", c, self.lower_stmts(rest, tail, env, k), ("panic",)))
            if e[0] == "mcall" and e[2] == "unwrap" and e[1][0] == "macro" and e[1][1] == "write":
                args = e[1][2]
                if args[0][0] != "path" or args[0][1][0] not in env: raise Unsupported("write! target")
                return self.lower_stmts([("assign", args[0], "+=", ("macro", "format", args[1:]))] + rest, tail, env, k)
            if e[0] == "block":
                return self.lower_block(e, env, lambda env2, _v: self.lower_stmts(rest, tail, {x: env2[x] for x in env}, k))
            if e[0] == "if":
                _, c, then, els = e
                if els is None: els = ("block", [], None)
                pre = []
                ct = self.cond(c, env, pre)
                d1, d2 = self.diverges(then), self.diverges(els)
                outer = lambda env2, _v: self.lower_stmts(rest, tail, {x: env2[x] for x in env}, k)
                if d1 and d2:
                    return self.wrap(pre, ("ite", ct, self.lower_block(then, env, outer), self.lower_block(els, env, outer)))
                if d1 or d2:
                    # the continuation lives in the branch that falls through
                    return self.wrap(pre, ("ite", ct, self.lower_block(then, env, outer), self.lower_block(els, env, outer)))
                names = [x for x in self.assigned(("block", [("expr", e)], None)) if x in env]
                if not names:
                    # no effect on the state the fragment tracks: only panics could matter
                    t1 = self.lower_block(then, env, lambda e2, _v: ("ret", "()"))
                    t2 = self.lower_block(els, env, lambda e2, _v: ("ret", "()"))
                    if self.panics(t1) or self.panics(t2):
                        return self.wrap(pre, ("join", ("ite", ct, t1, t2), [(self.fresh("u"), "unit")], self.lower_stmts(rest, tail, env, k)))
                    return self.wrap(pre, self.lower_stmts(rest, tail, env, k))
                tup = lambda e2, _v: ("ret", e2[names[0]][0] if len(names) == 1 else "(" + ", ".join(e2[x][0] for x in names) + ")")
                self.depth += 1
                t1 = self.lower_block(then, env, tup)
                t2 = self.lower_block(els, env, tup)
                self.depth -= 1
                env2 = dict(env)
                new = []
                for x in names:
                    n = self.fresh(x); new.append((n, env[x][1])); env2[x] = (n, env[x][1])
                return self.wrap(pre, ("join", ("ite", ct, t1, t2), new, self.lower_stmts(rest, tail, env2, k)))
            # any other expression statement: evaluated for its panics only
            pre = []
            self.expr(e, env, pre)
            return self.wrap(pre, self.lower_stmts(rest, tail, env, k))
        raise Unsupported(f"statement {kind}")

    def iter_expr(self, it, env, pre):
        """the sequence a `for` runs over, as a Lean list: (term, element type)"""
        if it[0] == "range":
            a, at = self.expr(it[1], env, pre)
            b, bt = self.expr(it[2], env, pre, at if at != "int?" else None)
            if at == "int?": a, at = self.expr(it[1], env, [], bt)
            if at == "int?": at = bt = "i32"
            if at != bt or at not in UNSIGNED: raise Unsupported(f"range over {at} .. {bt}")
            if it[3]: b = f"({b} + 1)"
            return (f"(List.range {b})" if a == "0" else f"(rt_range {a} {b})"), at
        v, vt = self.expr(it, env, pre)
        if isinstance(vt, tuple) and vt[0] in ("iter", "list"): return v, vt[1]
        if isinstance(vt, tuple) and vt[0] == "map":
            self.iter_is_map = True          # a HashMap: the list stands for its entries in the (unspecified) iteration order
            return v, ("tuple", [vt[1], vt[2]])
        raise Unsupported(f"for over {vt}")

    @staticmethod
    def has_return(node):
        if isinstance(node, tuple):
            if len(node) == 2 and node[0] == "return": return True
            if node and node[0] == "closure": return False
            return any(Fn.has_return(x) for x in node)
        if isinstance(node, list): return any(Fn.has_return(x) for x in node)
        return False

    def check_order_insensitive(self, body):
        """the body of a loop over a HashMap (iteration order unspecified): only a search `if C { return E; }` and running maxima /
        minima `if x < e { x = e; }` are accepted; anything else could depend on the order"""
        _, stmts, tail = body
        if tail is not None: stmts = list(stmts) + [("expr", tail)]
        for st in stmts:
            ok = False
            if st[0] == "expr" and st[1][0] == "if" and st[1][3] is None:
                _, c, then, _ = st[1]
                ts = list(then[1]) + ([("expr", then[2])] if then[2] is not None else [])
                if len(ts) == 1 and ts[0][0] == "expr" and ts[0][1][0] == "return": ok = True
                strip = lambda e: strip(e[1]) if e[0] == "paren" else strip(e[2]) if e[0] == "unary" and e[1] in ("&", "*", "&mut") else e
                if len(ts) == 1 and ts[0][0] == "assign" and ts[0][2] == "=" and c[0] == "binary" and c[1] in ("<", ">", "<=", ">="):
                    x, y = strip(ts[0][1]), strip(ts[0][3])
                    a, b = strip(c[2]), strip(c[3])
                    if (a, b) in ((x, y), (y, x)): ok = True
            if not ok: raise Unsupported("iteration over a HashMap whose effect may depend on the (unspecified) order")

    def lower_for_ret(self, s, rest, tail, env, k, pre, seq, elt, names, lp, from_map):
        """a `for` loop with `return` in its body: the lifted body yields (Some(result) | None, state); the fold stops at the first
        `Some` (`rt_foldl_ret`), and the function returns that result or goes on with the final state"""
        _, pat, it, body = s
        if self.depth > 0 or self.loop_ret is not None: raise Unsupported("return out of a nested loop / value block")
        if from_map: self.check_order_insensitive(body)
        R = self.ret_ty
        state = lambda e3: "()" if not names else e3[names[0]][0] if len(names) == 1 else "(" + ", ".join(e3[x][0] for x in names) + ")"
        def k_of(g):
            def kb(env3, _v): return ("ret", f"(none, {state(env3)})")
            def kr(env3, e):
                if e[1] is None: raise Unsupported("return without a value out of a loop")
                pre2 = []
                v, vt = g.expr(e[1], env3, pre2, R); v, vt = g.coerce(v, vt, R)
                return g.wrap(pre2, ("ret", f"(some {v}, {state(env3)})"))
            g.loop_k = [kb]; g.loop_ret = kr; g.ret_ty = R
            return kb
        st_ty = "unit" if not names else env[names[0]][1] if len(names) == 1 else ("tuple", [env[x][1] for x in names])
        params = [(x, env[x][1]) for x in names] + lp
        call, _rty, mon = self.lift("loop", params, body, {x: v for x, v in env.items() if x not in names}, k_of, state_ty=("tuple", [("opt", R), st_ty]))
        if mon: raise Unsupported("early return from a loop whose body can panic")
        st_args = "" if not names else " st" if len(names) == 1 else "".join(" st" + ".2" * i + (".1" if i < len(names) - 1 else "") for i in range(len(names)))
        x_args = " x" if len(lp) == 1 else "".join(" x" + ".2" * i + (".1" if i < len(lp) - 1 else "") for i in range(len(lp)))
        call_txt = f"(fun (st : {lean_type(st_ty)}) x => {call}{st_args}{x_args})"
        lr = self.fresh("lr"); r = self.fresh("r")
        pre.append(("let", lr, ("tuple", [("opt", R), st_ty]), f"(rt_foldl_ret {call_txt} {state(env)} {seq})"))
        env2 = dict(env); post = []
        for i, x in enumerate(names):
            n = self.fresh(x)
            proj = f"{lr}.2" + ("" if len(names) == 1 else ".2" * i + (".1" if i < len(names) - 1 else ""))
            post.append(("let", n, env[x][1], proj)); env2[x] = (n, env[x][1])
        found = ("ret", self.pack(env, r))
        return self.wrap(pre, ("match", f"{lr}.1", [(f"some {r}", found), ("none", self.wrap(post, self.lower_stmts(rest, tail, env2, k)))]))

    def lower_for(self, s, rest, tail, env, k):
        """`for pat in seq { body }` = a left fold over the sequence; the state is the tuple of the outer variables the body assigns"""
        _, pat, it, body = s
        pre = []
        self.iter_is_map = False
        seq, elt = self.iter_expr(it, env, pre)
        from_map = self.iter_is_map
        names = [x for x in self.assigned(body, None, set(self.pat_names(pat))) if x in env]
        if pat[0] == "pbind": lp = [(pat[1], elt)]
        elif pat[0] == "pwild": lp = [("_x", elt)]
        elif pat[0] == "ptuple" and isinstance(elt, tuple) and elt[0] == "tuple" and len(elt[1]) == len(pat[1]) and all(q[0] in ("pbind", "pwild") for q in pat[1]):
            lp = [((q[1] if q[0] == "pbind" else f"_x{i}"), t) for i, (q, t) in enumerate(zip(pat[1], elt[1]))]
        else: raise Unsupported("for pattern")
        if self.has_return(body):
            return self.lower_for_ret(s, rest, tail, env, k, pre, seq, elt, names, lp, from_map)
        if from_map: self.check_order_insensitive(body)
        params = [(x, env[x][1]) for x in names] + lp
        def k_of(g):
            def kb(env3, _v):
                return ("ret", "()" if not names else env3[names[0]][0] if len(names) == 1 else "(" + ", ".join(env3[x][0] for x in names) + ")")
            g.loop_k = [kb]
            return kb
        sty = "unit" if not names else env[names[0]][1] if len(names) == 1 else ("tuple", [env[x][1] for x in names])
        call, _rty, mon = self.lift("loop", params, body, {x: v for x, v in env.items() if x not in names}, k_of, state_ty=sty)
        st_args = "" if not names else " st" if len(names) == 1 else "".join(" st" + ".2" * i + (".1" if i < len(names) - 1 else "") for i in range(len(names)))
        x_args = " x" if len(lp) == 1 else "".join(" x" + ".2" * i + (".1" if i < len(lp) - 1 else "") for i in range(len(lp)))
        init = "()" if not names else env[names[0]][0] if len(names) == 1 else "(" + ", ".join(env[x][0] for x in names) + ")"
        if not names: call_txt = f"(fun (st : Unit) x => {call}{x_args})"
        else: call_txt = f"(fun st x => {call}{st_args}{x_args})"
        env2 = dict(env)
        new = []
        for x in names:
            n = self.fresh(x); new.append((n, env[x][1])); env2[x] = (n, env[x][1])
        if not new: new = [(self.fresh("u"), "unit")]
        first = ("opt", f"rt_foldlM {call_txt} {init} {seq}") if mon else ("ret", f"(List.foldl {call_txt} {init} {seq})")
        if not names and not mon:
            return self.wrap(pre, self.lower_stmts(rest, tail, env, k))
        return self.wrap(pre, ("join", first, new, self.lower_stmts(rest, tail, env2, k)))

    def lower_while(self, s, rest, tail, env, k):
        """`while c { body }` = `rt_whileM cond body fuel state`: the state is the tuple of the outer variables the body assigns (in the
        order of their declaration); the fuel is the expression the target description gives (`while_fuel`, a bound on the number of
        iterations over the variables in scope); running out of fuel is `none`"""
        _, c, body = s
        from rustfrag import Parser, tokenize
        ftxt = self.unit.spec.get("while_fuel")
        if ftxt is None: raise Unsupported("while loop without a fuel expression in the target description")
        pre = []
        fuel, ft = self.expr(Parser(tokenize(ftxt)).expr(), env, pre, "usize")
        if ft not in UNSIGNED: raise Unsupported("while fuel type")
        asg = set(self.assigned(body))
        names = [x for x in env if x in asg]
        if not names: raise Unsupported("while loop that assigns no outer variable")
        params = [(x, env[x][1]) for x in names]
        outer_env = {x: v for x, v in env.items() if x not in names}
        ccall, cty, cmon = self.lift("cond", params, c, outer_env)
        if cty != "bool" or cmon: raise Unsupported("while condition")
        def k_of(g):
            def kb(env3, _v):
                return ("ret", env3[names[0]][0] if len(names) == 1 else "(" + ", ".join(env3[x][0] for x in names) + ")")
            g.loop_k = [kb]
            return kb
        sty = env[names[0]][1] if len(names) == 1 else ("tuple", [env[x][1] for x in names])
        bcall, _rty, mon = self.lift("while", params, body, outer_env, k_of, state_ty=sty)
        st_args = " st" if len(names) == 1 else "".join(" st" + ".2" * i + (".1" if i < len(names) - 1 else "") for i in range(len(names)))
        init = env[names[0]][0] if len(names) == 1 else "(" + ", ".join(env[x][0] for x in names) + ")"
        btxt = f"(fun st => {bcall}{st_args})" if mon else f"(fun st => some ({bcall}{st_args}))"
        env2 = dict(env)
        new = []
        for x in names:
            n = self.fresh(x); new.append((n, env[x][1])); env2[x] = (n, env[x][1])
        first = ("opt", f"rt_whileM (fun st => {ccall}{st_args}) {btxt} {fuel} {init}")
        return self.wrap(pre, ("join", first, new, self.lower_stmts(rest, tail, env2, k)))

    def obj_method(self, struct, m):
        """a setter of a struct named under `objects` in the target description, read from the struct's own file:
        `self.<field>.set_value(<param>); self` / `self.<field>.remove_value(); self` -> (operation, field)"""
        src = self.unit.sources(self.unit.spec["objects"][struct])
        decl = src.parse_fn(m, struct)
        ps = [p for p in decl["params"] if p[0] != "self"]
        stmts, tl = decl["body"][1], decl["body"][2]
        if len(stmts) != 1 or tl != ("path", ["self"]) or stmts[0][0] != "expr": raise Unsupported(f"{struct}::{m}: not a plain setter")
        e = stmts[0][1]
        if not (e[0] == "mcall" and e[1][0] == "field" and e[1][1] == ("path", ["self"])): raise Unsupported(f"{struct}::{m}: not a plain setter")
        field, op, args = e[1][2], e[2], e[4]
        fty = src.struct_fields(struct).get(field)
        kind = {"StringValue": ("Str", "str"), "UInt32Value": ("U32", "u32")}.get(fty[1] if fty and fty[0] == "named" else None)
        if kind is None: raise Unsupported(f"{struct}::{m}: field {field} of type {fty}")
        if op == "set_value" and len(ps) == 1 and args == [("path", [ps[0][0]])]: return ("set" + kind[0], field, kind[1])
        if op == "remove_value" and not ps and not args: return ("remove" + kind[0], field, None)
        raise Unsupported(f"{struct}::{m}: not a plain setter")

    def mutation(self, e, env):
        """an expression statement that updates one local variable in place: (variable, pre, new value, can panic) or None"""
        if e[0] == "mcall" and e[1][0] == "path" and len(e[1][1]) == 1 and e[1][1][0] in env:
            x, name, args = e[1][1][0], e[2], e[4]
            xt = env[x][1]
            if name in ("extend", "extend_from_slice") and isinstance(xt, tuple) and xt[0] == "list" and len(args) == 1:
                pre = []
                v, vt = self.expr(args[0], env, pre, xt)
                if not (isinstance(vt, tuple) and vt[0] in ("list", "iter") and vt[1] == xt[1]): raise Unsupported(f".{name}() of {vt} on {xt}")
                return x, pre, f"({env[x][0]} ++ {v})", False
            xm = self.unit.spec.get("extern_mut_methods", {}).get((xt if isinstance(xt, str) else xt[0], name))
            if xm is not None:
                pname, ptys = xm
                if len(args) != len(ptys): raise Unsupported(f"method .{name}(): arity")
                pre = []; vs = [env[x][0]]
                for a, pt in zip(args, ptys):
                    v, vt = self.expr(a, env, pre, pt); v, vt = self.coerce(v, vt, pt); vs.append(v)
                lt = " → ".join([lean_type(xt)] + [lean_type(t) for t in ptys] + [lean_type(xt)])
                if (pname, lt) not in self.unit.extra_params: self.unit.extra_params.append((pname, lt))
                return x, pre, "(" + " ".join([pname] + vs) + ")", False
            if (self.unit.spec.get("xml_writer") and name == "write_event" and len(args) == 1 and args[0][0] == "call" and args[0][1][1] == ["Event", "Decl"]
                    and len(args[0][2]) == 1 and args[0][2][0][0] == "call" and args[0][2][0][1][1] == ["BytesDecl", "new"] and len(args[0][2][0][2]) == 3):
                # `writer.write_event(Event::Decl(BytesDecl::new(version, encoding, standalone)))`
                pre = []; vs = [env[x][0]]
                ptys = ["str", ("opt", "str"), ("opt", "str")]
                for a, pt in zip(args[0][2][0][2], ptys):
                    v, vt = self.expr(a, env, pre, pt); v, vt = self.coerce(v, vt, pt); vs.append(v)
                lt = " → ".join([lean_type(xt)] + [lean_type(t) for t in ptys] + [lean_type(xt)])
                if ("xml_decl", lt) not in self.unit.extra_params: self.unit.extra_params.append(("xml_decl", lt))
                return x, pre, "(" + " ".join(["xml_decl"] + vs) + ")", False
            if isinstance(xt, tuple) and xt[0] == "obj":
                op, field, vty = self.obj_method(xt[1], name)
                pre = []
                if vty is None:
                    if args: raise Unsupported(f".{name}(): arity")
                    return x, pre, f"(rt_Obj.{op} {env[x][0]} \"{field}\")", False
                if len(args) != 1: raise Unsupported(f".{name}(): arity")
                v, vt = self.expr(args[0], env, pre, vty)
                v, vt = self.coerce(v, vt, vty)
                return x, pre, f"(rt_Obj.{op} {env[x][0]} \"{field}\" {v})", False
            return None
        if e[0] != "call": return None
        segs, args = e[1][1], e[2]
        def target(a):
            while a[0] == "unary": a = a[2]
            return a[1][0] if a[0] == "path" and len(a[1]) == 1 and a[1][0] in env else None
        if segs[-2:] == ["LittleEndian", "write_u32"] and len(args) == 2 and target(args[0]) and self.unit.spec.get("u8_bytes"):
            x = target(args[0]); pre = []
            if env[x][1] != ("list", "byte"): raise Unsupported("write_u32 target")
            v, vt = self.expr(args[1], env, pre, "u32")
            if vt != "u32": raise Unsupported("write_u32 value")
            return x, pre, f"rt_write_u32_le {env[x][0]} {v}", True
        if segs[-2:] == ["mem", "replace"] and len(args) == 2 and args[0][0] == "unary" and args[0][1] == "&mut" and args[0][2][0] == "index" and target(args[0][2][1]):
            x = target(args[0][2][1]); xt = env[x][1]; pre = []
            if not (isinstance(xt, tuple) and xt[0] == "list"): raise Unsupported("indexed store target")
            i, it = self.expr(args[0][2][2], env, pre, "usize")
            if it not in UNSIGNED: raise Unsupported("index type")
            v, vt = self.expr(args[1], env, pre, xt[1]); v, vt = self.coerce(v, vt, xt[1])
            return x, pre, f"rt_list_set {env[x][0]} {i} {v}", True
        xf = self.unit.spec.get("extern_mut_fns", {}).get(segs[0]) if len(segs) == 1 else None
        if xf is not None:
            # a function outside the fragment that updates its `&mut` argument #mi: `x' = f(.., x, ..)`
            pname, ptys, mi = xf
            if len(args) != len(ptys) or not target(args[mi]): raise Unsupported(f"call of {segs[0]}: the `&mut` argument")
            x = target(args[mi]); pre = []; vs = []
            for a, pt in zip(args, ptys):
                v, vt = self.expr(a, env, pre, pt); v, vt = self.coerce(v, vt, pt); vs.append(v)
            if env[x][1] != ptys[mi]: raise Unsupported(f"call of {segs[0]}: `&mut` argument of type {env[x][1]}")
            lt = " → ".join([lean_type(t) for t in ptys] + [lean_type(ptys[mi])])
            if (pname, lt) not in self.unit.extra_params: self.unit.extra_params.append((pname, lt))
            return x, pre, "(" + " ".join([pname] + vs) + ")", False
        dep = self.unit.spec.get("calls", {}).get(segs[0]) if len(segs) == 1 else None
        if dep is not None and len(dep) > 4 and dep[4] is not None:
            mi = dep[4]
            if len(args) != len(dep[1]) or not target(args[mi]): raise Unsupported(f"call of {segs[0]}: the `&mut` argument")
            x = target(args[mi]); pre = []
            v, vt, mon = self.unit.call(self, segs[0], args, env, pre, raw=True)
            if vt != env[x][1]: raise Unsupported(f"call of {segs[0]}: `&mut` argument of type {env[x][1]}")
            return x, pre, v, mon
        return None

    def pack(self, env, v):
        """the result of a state-passing method: the current versions of the fields of `self`, then the value"""
        if not self.state_fields: return v if v is not None else "()"
        parts = [env["self." + f][0] for f in self.state_fields] + ([v] if v is not None else [])
        return parts[0] if len(parts) == 1 else "(" + ", ".join(parts) + ")"

    def lower_return(self, e, env):
        if self.loop_ret is not None and self.depth == 1:
            return self.loop_ret(env, e)
        if self.depth > 0: raise Unsupported("return inside a nested value block")
        if getattr(self, "mutret", None) is not None:
            if e[1] is not None: raise Unsupported("return with a value in a function with a `&mut` parameter")
            return ("ret", env[self.mutret][0])
        if e[1] is None: return ("ret", self.pack(env, None))
        pre = []
        v, vt = self.expr(e[1], env, pre, self.ret_ty)
        v, vt = self.coerce(v, vt, self.ret_ty)
        return self.wrap(pre, ("ret", self.pack(env, v)))

    # ---------------------------------------------------------------- expressions
    def coerce(self, v, vt, want):
        if want is None or vt == want: return v, vt
        if vt == "int?" and want in INTS: return v, want
        if vt == "int?" and want == "byte": return f"({v} : UInt8)", want
        if isinstance(vt, tuple) and isinstance(want, tuple) and vt[0] == want[0] == "res" and (vt[1] == "?" or vt[1] == want[1]):
            return v, want
        if vt == "int?" and want == "f64":
            raise Unsupported("integer literal where f64 is expected")
        if isinstance(vt, tuple) and isinstance(want, tuple) and vt[0] == want[0] == "opt" and (vt[1] == "?" or vt[1] == want[1] or vt[1] == "int?"):
            return v, want
        if isinstance(vt, tuple) and isinstance(want, tuple) and vt[0] == want[0] == "list":
            iv, it = self.coerce("", vt[1], want[1])
            return v, ("list", it)
        if isinstance(vt, tuple) and isinstance(want, tuple) and vt[0] == "iter" and want[0] == "list" and vt[1] == want[1]:
            return v, want
        if isinstance(want, tuple) and want[0] == "opaque": return v, vt
        raise Unsupported(f"type mismatch: {vt} where {want} is expected")

    def cond(self, e, env, pre):
        v, vt = self.expr(e, env, pre, "bool")
        if vt != "bool": raise Unsupported(f"condition of type {vt}")
        return v

    def sub_block(self, block, env, pre, want=None, hint="v"):
        """a block in value position: its tree is bound to a fresh name"""
        tys = []
        def k(env2, v):
            if v is None: raise Unsupported("block without a value in value position")
            tys.append(v[1]); return ("ret", v[0])
        self.depth += 1
        tree = self.lower_block(block if block[0] == "block" else ("block", [], block), env, k)
        self.depth -= 1
        return tree, tys

    def join_types(self, tys, want=None):
        t = want
        for x in tys:
            if t is None or t == "int?" or (isinstance(t, tuple) and t[0] == "opt" and t[1] == "?"): t = x if not (x == "int?" and t is not None) else t
            elif x == "int?" and t in INTS: pass
            elif isinstance(x, tuple) and x[0] == "opt" and x[1] == "?" and isinstance(t, tuple) and t[0] == "opt": pass
            elif x != t: raise Unsupported(f"branches of different types: {t} / {x}")
        if t == "int?": t = "i32"
        return t

    def value_tree(self, tree, tys, pre, want, hint):
        ty = self.join_types(tys, want)
        # a tree of pure `ret`s under if / match is printed inline
        def inline(t):
            if t[0] == "ret": return t[1]
            if t[0] == "ite":
                a, b = inline(t[2]), inline(t[3])
                return None if a is None or b is None else f"(if {t[1]} then {a} else {b})"
            if t[0] == "match":
                arms = [(p, inline(x)) for p, x in t[2]]
                if any(x is None for _, x in arms): return None
                return f"(match {t[1]} with " + " ".join(f"| {p} => {x}" for p, x in arms) + ")"
            return None
        txt = inline(tree)
        if txt is not None: return txt, ty
        n = self.fresh(hint)
        pre.append(("sub", n, tree, ty))
        return n, ty

    def pattern(self, pat, sty, env):
        """Lean pattern text + extended env"""
        k = pat[0]
        if k == "pwild": return "_", env
        if k == "por":
            outs = []
            for p in pat[1]:
                t, e2 = self.pattern(p, sty, env)
                if e2 is not env and e2 != env: raise Unsupported("binder under `|`")
                outs.append(t)
            return " | ".join(outs), env
        if k == "plit":
            lit = pat[1]
            if lit[0] == "int" and (sty in INTS or sty == "int?"): return (str(lit[1]) if lit[1] >= 0 else f"({lit[1]})"), env
            if lit[0] == "str" and sty == "str": return ("[]" if lit[1] == "" else lean_str(lit[1])), env
            if lit[0] == "char" and sty == "char": return lean_char(lit[1]), env
            if lit[0] == "bool" and sty == "bool": return ("true" if lit[1] else "false"), env
            raise Unsupported(f"literal pattern {lit[0]} on {sty}")
        if k == "pbind":
            n = self.fresh(pat[1]); e2 = dict(env); e2[pat[1]] = (n, "i32" if sty == "int?" else sty)
            return n, e2
        if k == "ptuple" and isinstance(sty, tuple) and sty[0] == "tuple" and len(sty[1]) == len(pat[1]):
            outs, e2 = [], env
            for q, t in zip(pat[1], sty[1]):
                tx, e2 = self.pattern(q, t, e2); outs.append(tx)
            return "(" + ", ".join(outs) + ")", e2
        if k == "ppath":
            segs, subs = pat[1], pat[2]
            if segs == ["None"] and isinstance(sty, tuple) and sty[0] == "opt": return "none", env
            if segs == ["Some"] and isinstance(sty, tuple) and sty[0] == "opt" and subs is not None and len(subs) == 1:
                t, e2 = self.pattern(subs[0], sty[1], env)
                return f"some {t}", e2
            if segs == ["Err"] and isinstance(sty, tuple) and sty[0] == "res" and subs is not None and len(subs) == 1 and subs[0][0] == "pwild": return "none", env
            if segs == ["Ok"] and isinstance(sty, tuple) and sty[0] == "res" and subs is not None and len(subs) == 1:
                t, e2 = self.pattern(subs[0], sty[1], env)
                return f"some {t}", e2
            if sty == "ordering" and segs[0] == "Ordering" and len(segs) == 2 and subs is None and segs[1] in ("Less", "Equal", "Greater"):
                return {"Less": ".lt", "Equal": ".eq", "Greater": ".gt"}[segs[1]], env
            if isinstance(sty, tuple) and sty[0] == "enum" and len(segs) == 2 and segs[0] in ("Self", sty[1]):
                if segs[1] not in self.unit.enums[sty[1]]: raise Unsupported(f"unknown variant {segs[1]}")
                if subs is not None and any(s[0] not in ("pwild", "prest") for s in subs): raise Unsupported("payload binder in an enum pattern")
                return "." + segs[1], env
        raise Unsupported(f"pattern {k} on {sty}")

    def match_arms(self, e, env, pre, k):
        _, scrut, arms, _kind = e
        sv, sty = self.expr(scrut, env, pre)
        out = []
        for pat, guard, body in arms:
            if guard is not None: raise Unsupported("match guard")
            pt, env2 = self.pattern(pat, sty, env)
            out.append((pt, self.lower_block(body if body[0] == "block" else ("block", [], body), env2, k)))
        return sv, out

    def arith(self, op, a, at, b, bt, pre, b_lit):
        if at == "int?" and bt == "int?":
            raise Unsupported("arithmetic on two untyped literals")
        if at == "int?": at = bt
        if bt == "int?": bt = at
        if at == "datetime" and bt == "duration" and op == "+": return f"({a} + {b})", "datetime"
        if at != bt: raise Unsupported(f"`{op}` on {at} and {bt}")
        t = at
        sym = {"+": "+", "-": "-", "*": "*"}
        if t == "i32":
            if op in sym:
                n = self.fresh("t"); pre.append(("bind", n, f"i32c ({a} {op} {b})")); return n, t
            if op in ("/", "%"):
                if b_lit is None or b_lit in (0, -1): raise Unsupported("i32 division by a non-literal (or 0 / -1)")
                return (f"(Int.tdiv {a} {b})" if op == "/" else f"(Int.tmod {a} {b})"), t
        if t == "i64":
            if op in sym: return f"({a} {op} {b})", t
            if op in ("/", "%") and b_lit not in (None, 0): return (f"(Int.tdiv {a} {b})" if op == "/" else f"(Int.tmod {a} {b})"), t
        if t in UNSIGNED:
            if op in ("+", "*"): return f"({a} {op} {b})", t
            if op == "-":
                n = self.fresh("t"); pre.append(("bind", n, f"usub {a} {b}")); return n, t
            if op in ("/", "%") and b_lit not in (None, 0): return f"({a} {op} {b})", t
            if op in ("/", "%") and b_lit is None:          # division by a variable: by zero = panic
                n = self.fresh("t"); pre.append(("bind", n, f"{'rt_udiv' if op == '/' else 'rt_umod'} {a} {b}")); return n, t
        if t == "f64":
            self.needs_F = True
            f = {"+": "add", "-": "sub", "*": "mul", "/": "div"}.get(op)
            if f: return f"(RFloat.{f} {a} {b})", t
        if t == "str" and op == "+": return f"({a} ++ {b})", t
        raise Unsupported(f"`{op}` on {t}")

    def lit_of(self, e):
        while e[0] in ("paren",) or (e[0] == "unary" and e[1] in "&*"):
            e = e[1] if e[0] == "paren" else e[2]
        if e[0] == "int": return e[1]
        if e[0] == "unary" and e[1] == "-" and e[2][0] == "int": return -e[2][1]
        return None

    def to_text(self, v, vt):
        """a `{}` hole of `format!`"""
        if vt == "str": return v
        if vt == "char": return f"[{v}]"
        if vt in UNSIGNED: return f"(Umya.Dec.decDigits {v})"
        if vt == "i32": return f"(rt_i32_to_string {v})"
        raise Unsupported(f"Display of {vt}")

    def expr(self, e, env, pre, want=None):
        k = e[0]
        if k == "paren": return self.expr(e[1], env, pre, want)
        if k == "int":
            t = e[2] if e[2] else "int?"
            if t == "u8" and self.unit.spec.get("u8_bytes"): t = "byte"
            if t == "int?" and (want in INTS or want == "byte"): t = want
            if t == "byte": return (f"({e[1]} : UInt8)", t)
            return (str(e[1]), t)
        if k == "float":
            body = e[1]
            if not float(body).is_integer(): raise Unsupported(f"non-integral float literal {body}")
            self.needs_F = True
            return (f"(RFloat.ofInt {int(float(body))} : F)", "f64")
        if k == "str": return (lean_str(e[1]), "str")
        if k == "char": return (lean_char(e[1]), "char")
        if k == "bool": return ("true" if e[1] else "false", "bool")
        if k == "tuple":
            if not e[1]: return ("()", "unit")
            vs = [self.expr(x, env, pre) for x in e[1]]
            return ("(" + ", ".join(v for v, _ in vs) + ")", ("tuple", [("i32" if t == "int?" else t) for _, t in vs]))
        if k == "array":
            elt = want[1] if isinstance(want, tuple) and want[0] == "list" else None
            vs = [self.expr(x, env, pre, elt) for x in e[1]]
            ty = self.join_types([t for _, t in vs], elt)
            return ("[" + ", ".join(v for v, _ in vs) + "]", ("list", ty))
        if k == "path":
            segs = e[1]
            if len(segs) == 1:
                x = segs[0]
                if x in env: return env[x]
                if x == "None": return ("none", ("opt", "?"))
                if x in self.consts: return self.consts[x]
                c = self.unit.const_value(self, x)
                if c is not None: return c
                raise Unsupported(f"unknown identifier {x}")
            if len(segs) == 2 and segs[0] in self.unit.spec.get("enum_vals", ()):
                return self.enum_ctor(segs[0], segs[1], [], env, pre)
            if len(segs) == 2 and segs[0] in self.unit.spec.get("assoc_consts", ()):
                # `Type::CONST`: an associated constant of a type named in `assoc_consts` (looked up in the unit's file, then `const_files`)
                c = self.unit.const_value(self, segs[1])
                if c is not None: return c
            raise Unsupported("path expression " + "::".join(segs))
        if k == "field":
            if e[1] == ("path", ["self"]) and ("self." + e[2]) in env: return env["self." + e[2]]
            v, vt = self.expr(e[1], env, pre)
            if isinstance(vt, tuple) and vt[0] == "tuple" and e[2].isdigit():
                i = int(e[2]); n = len(vt[1])
                return (f"({v})" + ".2" * i + (".1" if i < n - 1 else ""), vt[1][i])
            raise Unsupported(f"field {e[2]}")
        if k == "unary":
            op = e[1]
            if op in ("&", "*", "&mut"): return self.expr(e[2], env, pre, want)
            if op == "!":
                v, vt = self.expr(e[2], env, pre, "bool")
                if vt != "bool": raise Unsupported("`!` on " + str(vt))
                return (f"(!{v})", "bool")
            if op == "-":
                if e[2][0] == "int": return (f"(-{e[2][1]})", e[2][2] or (want if want in SIGNED else "int?"))
                v, vt = self.expr(e[2], env, pre, want)
                if vt == "i32":
                    n = self.fresh("t"); pre.append(("bind", n, f"i32c (-{v})")); return (n, vt)
                if vt == "i64": return (f"(-{v})", vt)
                raise Unsupported("unary minus on " + str(vt))
        if k == "binary":
            op = e[1]
            if op in ("&&", "||"):
                a = self.cond(e[2], env, pre)
                pre2 = []
                b = self.cond(e[3], env, pre2)
                if any(p[0] != "let" for p in pre2): raise Unsupported("panicking operation on the right of a short-circuit operator")
                pre.extend(pre2)
                return (f"({a} {op} {b})", "bool")
            a, at = self.expr(e[2], env, pre)
            b, bt = self.expr(e[3], env, pre, at if at != "int?" else None)
            if at == "int?" and bt != "int?": a, at = self.expr(e[2], env, [], bt)
            if op in ("==", "!=", "<", ">", "<=", ">="):
                if at == "int?" and bt == "int?": at = bt = "i32"
                if at == "int?": at = bt
                if bt == "int?": bt = at
                if at != bt: raise Unsupported(f"comparison of {at} with {bt}")
                if at == "f64":
                    self.needs_F = True
                    if op == "<": return (f"(RFloat.lt {a} {b})", "bool")
                    if op == ">": return (f"(RFloat.lt {b} {a})", "bool")
                    raise Unsupported(f"`{op}` on f64")
                if at in INTS or at in ("str", "char", "datetime"):
                    if op in ("<", ">", "<=", ">=") and at in ("str",): raise Unsupported("ordering of strings")
                    if at == "char" and op not in ("==", "!="): raise Unsupported("ordering of chars")
                    sym = {"==": "=", "!=": "≠", "<": "<", ">": ">", "<=": "≤", ">=": "≥"}[op]
                    return (f"(decide ({a} {sym} {b}))", "bool")
                if at == "bool" and op in ("==", "!="): return (f"({a} {op} {b})", "bool")
                raise Unsupported(f"comparison on {at}")
            if at == "int?" and bt == "int?" and want in INTS:
                at = bt = want                       # two unsuffixed literals in a context of known integer type (`const X: u32 = 26 * 26`)
            return self.arith(op, a, at, b, bt, pre, self.lit_of(e[3]))
        if k == "cast":
            dst = self.conv_type(e[2])
            v, vt = self.expr(e[1], env, pre, dst if dst in INTS else None)
            if vt == dst: return (v, vt)
            if dst == "f64":
                self.needs_F = True
                if vt in SIGNED or vt == "int?": return (f"(RFloat.ofInt {v} : F)", "f64")
                if vt in UNSIGNED: return (f"(RFloat.ofInt (Int.ofNat {v}) : F)", "f64")
            if vt == "int?" and dst in BITS and v.isdigit() and int(v) >= 2 ** BITS[dst]: return (str(int(v) % 2 ** BITS[dst]), dst)   # `<wider literal> as uN`
            if vt == "int?" and dst in INTS: return (v, dst)
            if vt == "f64" and dst == "i64":
                self.needs_F = True
                return (f"(rt_f64_as_i64 {v})", "i64")
            if vt == "i32" and dst == "i64": return (v, dst)
            if vt in UNSIGNED and dst in UNSIGNED and UNSIGNED.index(vt) <= UNSIGNED.index(dst): return (v, dst)
            if vt == "usize" and dst == "u32" and self.unit.spec.get("narrowing_casts"): return (v, dst)   # truncation not modelled (as `+` overflow)
            if vt in UNSIGNED and dst in UNSIGNED: return (f"({v} % {2 ** BITS[dst]})", dst)       # truncating cast
            if vt == "char" and dst == "u16": return (f"(Char.toNat {v} % 65536)", dst)
            if vt in UNSIGNED and dst == "i64": return (f"(Int.ofNat {v})", dst)
            if vt == "char" and dst in ("u32", "u64", "usize"): return (f"(Char.toNat {v})", dst)
            raise Unsupported(f"cast {vt} as {dst}")
        if k == "index":
            r, rt = self.expr(e[1], env, pre)
            ix = e[2]
            if ix[0] == "range" and rt == "str" and not ix[3]:
                a, at = self.expr(ix[1], env, pre, "usize"); b, bt = self.expr(ix[2], env, pre, "usize")
                if at not in UNSIGNED or bt not in UNSIGNED: raise Unsupported("slice bounds")
                n = self.fresh("t"); pre.append(("bind", n, f"rt_slice {r} {a} {b}")); return (n, "str")
            if isinstance(rt, tuple) and rt[0] == "list" and ix[0] == "range" and not ix[3]:
                if ix[1] is None and ix[2] is None: return (r, rt)
                a, at = self.expr(ix[1], env, pre, "usize") if ix[1] is not None else ("0", "usize")
                b, bt = self.expr(ix[2], env, pre, "usize") if ix[2] is not None else (f"(List.length {r})", "usize")
                if at not in UNSIGNED or bt not in UNSIGNED: raise Unsupported("slice bounds")
                n = self.fresh("t"); pre.append(("bind", n, f"rt_bslice {r} {a} {b}")); return (n, rt)
            if isinstance(rt, tuple) and rt[0] == "list" and ix[0] != "range":
                i, it = self.expr(ix, env, pre, "usize")
                if it not in UNSIGNED: raise Unsupported("index type")
                n = self.fresh("t"); pre.append(("bind", n, f"rt_index {r} {i}")); return (n, rt[1])
            raise Unsupported("index expression")
        if k == "if":
            if e[3] is None: raise Unsupported("if without else in value position")
            c = self.cond(e[1], env, pre)
            t1, ty1 = self.sub_block(e[2], env, pre)
            t2, ty2 = self.sub_block(e[3], env, pre)
            return self.value_tree(("ite", c, t1, t2), ty1 + ty2, pre, want, "v")
        if k == "block":
            t, tys = self.sub_block(e, env, pre)
            return self.value_tree(t, tys, pre, want, "v")
        if k == "match":
            tys = []
            def kk(env2, v):
                if v is None: raise Unsupported("match arm without a value")
                tys.append(v[1]); return ("ret", v[0])
            self.depth += 1
            sv, arms = self.match_arms(e, env, pre, kk)
            self.depth -= 1
            return self.value_tree(("match", sv, arms), tys, pre, want, "v")
        if k == "matches":
            v, vt = self.expr(e[1], env, pre)
            alts = e[2][1] if e[2][0] == "por" else [e[2]]
            outs = []
            for p in alts:
                if p[0] != "plit": raise Unsupported("matches! on a non-literal pattern")
                lv, lt = self.expr(p[1], env, pre, vt if vt in INTS else None)
                if lt != vt and not (lt == "int?" and vt in INTS): raise Unsupported("matches! literal type")
                outs.append(f"{v} == {lv}")
            return ("(" + " || ".join(outs) + ")", "bool")
        if k == "macro":
            if e[1] == "format":
                if not e[2] or e[2][0][0] != "str": raise Unsupported("format! without a literal format string")
                fmt, args = e[2][0][1], list(e[2][1:])
                parts, cur, i = [], "", 0
                while i < len(fmt):
                    if fmt.startswith("{{", i): cur += "{"; i += 2
                    elif fmt.startswith("}}", i): cur += "}"; i += 2
                    elif fmt.startswith("{}", i):
                        if cur: parts.append(lean_str(cur)); cur = ""
                        if not args: raise Unsupported("format!: too few arguments")
                        v, vt = self.expr(args.pop(0), env, pre)
                        if vt == "int?": vt = "i32"
                        parts.append(self.to_text(v, vt)); i += 2
                    elif fmt[i] in "{}": raise Unsupported("format!: hole other than {}")
                    else: cur += fmt[i]; i += 1
                if cur: parts.append(lean_str(cur))
                if args: raise Unsupported("format!: too many arguments")
                if not parts: return ("([] : List Char)", "str")
                return ("(" + " ++ ".join(parts) + ")" if len(parts) > 1 else parts[0], "str")
            if e[1] == "vec": return self.expr(("array", e[2]), env, pre, want)
            if e[1] == "vec_repeat":
                elt = want[1] if isinstance(want, tuple) and want[0] == "list" else None
                a, at = self.expr(e[2][0], env, pre, elt)
                if at == "int?": raise Unsupported("vec![x; n] with an untyped element")
                n, nt = self.expr(e[2][1], env, pre, "usize")
                if nt not in UNSIGNED: raise Unsupported("vec![x; n]: length type")
                return (f"(List.replicate {n} {a})", ("list", at))
            raise Unsupported(f"macro {e[1]}! in value position")
        if k == "call":
            segs, args = e[1][1], e[2]
            if segs == ["Some"] and len(args) == 1:
                v, vt = self.expr(args[0], env, pre, want[1] if isinstance(want, tuple) and want[0] == "opt" and want[1] != "?" else None)
                if vt == "int?": vt = "i32"
                return (f"(some {v})", ("opt", vt))
            if segs == ["Ok"] and len(args) == 1:
                v, vt = self.expr(args[0], env, pre, want[1] if isinstance(want, tuple) and want[0] == "res" and want[1] != "?" else None)
                if vt == "int?": vt = "i32"
                return (f"(some {v})", ("res", vt))
            if segs == ["Err"] and len(args) == 1:
                self.expr(args[0], env, pre)            # the error value is not represented (`Result<T, E>` is `Option T`)
                return ("none", ("res", "?"))
            if segs == ["Vec", "with_capacity"] and len(args) == 1:
                if not (isinstance(want, tuple) and want[0] == "list"): raise Unsupported("Vec::with_capacity() without a type")
                self.expr(args[0], env, pre, "usize")
                return (f"([] : {lean_type(want)})", want)
            if len(segs) == 1 and segs[0] in self.unit.spec.get("extern_draws", {}) and not args:
                # a random draw: the k-th call (in source order) of the generator is the k-th element of an explicit stream
                if self.depth_loop > 0: raise Unsupported("random draw inside a loop")
                rty = self.unit.spec["extern_draws"][segs[0]]
                root = getattr(self, "root", self)
                k = root.draws.get(segs[0], 0); root.draws[segs[0]] = k + 1
                lt = "Nat → " + lean_type(rty)
                if (segs[0], lt) not in self.unit.extra_params: self.unit.extra_params.append((segs[0], lt))
                return (f"({segs[0]} {k})", rty)
            xc = self.unit.spec.get("extern_ctors", {}).get(tuple(segs))
            if xc is not None:
                # a constructor of a type outside the fragment (`Sha512::new()`, `Writer::new(..)`): a value parameter; its arguments are not represented
                pname, rty = xc
                if (pname, lean_type(rty)) not in self.unit.extra_params: self.unit.extra_params.append((pname, lean_type(rty)))
                return (pname, rty)
            if segs[-2:] == ["LittleEndian", "read_u32"] and len(args) == 1 and self.unit.spec.get("u8_bytes"):
                v, vt = self.expr(args[0], env, pre, ("list", "byte"))
                if vt != ("list", "byte"): raise Unsupported("read_u32 argument")
                n = self.fresh("t"); pre.append(("bind", n, f"rt_read_u32_le {v}")); return (n, "u32")
            if segs == ["String", "from"] and len(args) == 1: return self.expr(args[0], env, pre, "str")
            if segs in (["Cow", "Owned"], ["Cow", "Borrowed"]) and len(args) == 1: return self.expr(args[0], env, pre, want)
            if segs == ["Vec", "new"] and not args:
                if not (isinstance(want, tuple) and want[0] == "list"): raise Unsupported("Vec::new() without a type")
                return (f"([] : {lean_type(want)})", want)
            if segs == ["char", "from_u32"] and len(args) == 1:
                v, vt = self.expr(args[0], env, pre, "u32")
                if vt != "u32": raise Unsupported("char::from_u32 argument")
                return (f"(rt_char_from_u32 {v})", ("opt", "char"))
            if segs[-1] == "successors" and len(args) == 2 and args[1][0] == "closure":
                # `successors(first, step)` = a fuel-bounded unfold; fuel = the first value + 1 (measure: the value itself, which the
                # theorem about the definition shows to decrease strictly); running out of fuel is `none`, like a panic
                f0, ft = self.expr(args[0], env, pre)
                if not (isinstance(ft, tuple) and ft[0] == "opt" and ft[1] in UNSIGNED): raise Unsupported(f"successors over {ft}")
                params, app = self.closure_params(args[1], ft[1])
                call, cty, mon = self.lift("closure", params, args[1][2], env)
                if cty != ft and cty != ("opt", "?"): raise Unsupported(f"successors: step returns {cty}")
                step = f"(fun x => {call}{app})" if mon else f"(fun x => some ({call}{app}))"
                n = self.fresh("t"); pre.append(("bind", n, f"rt_successors {step} {f0}")); return (n, ("iter", ft[1]))
            if segs == ["String", "new"] and not args: return ("([] : List Char)", "str")
            if segs[0] == "Duration" and len(segs) == 2 and segs[1] in ("days", "hours", "minutes", "seconds") and len(args) == 1:
                v, vt = self.expr(args[0], env, pre, "i64")
                if vt != "i64": raise Unsupported("Duration argument")
                mul = {"days": 86400, "hours": 3600, "minutes": 60, "seconds": 1}[segs[1]]
                return (f"({v} * {mul})", "duration")
            if segs[0] in ("Duration", "TimeDelta") and len(segs) == 2 and segs[1] in ("try_days", "try_hours", "try_minutes", "try_seconds") and len(args) == 1:
                v, vt = self.expr(args[0], env, pre, "i64")
                if vt != "i64": raise Unsupported("Duration argument")
                mul = {"try_days": 86400, "try_hours": 3600, "try_minutes": 60, "try_seconds": 1}[segs[1]]
                return (f"(rt_try_units {mul} {v})", ("opt", "duration"))
            if len(segs) == 2 and segs[0] in self.unit.spec.get("enum_vals", ()):
                return self.enum_ctor(segs[0], segs[1], args, env, pre)
            xp = self.unit.spec.get("extern_paths", {}).get(tuple(segs))
            if xp is not None:
                pname, ptys, rty = xp
                if len(args) != len(ptys): raise Unsupported("call of " + "::".join(segs) + ": arity")
                vs = []
                for a, pt in zip(args, ptys):
                    v, vt = self.expr(a, env, pre, pt)
                    v, vt = self.coerce(v, vt, pt); vs.append(v)
                lt = " → ".join([lean_type(x) for x in ptys] + [lean_type(rty)])
                if (pname, lt) not in self.unit.extra_params: self.unit.extra_params.append((pname, lt))
                return (f"({pname} " + " ".join(vs) + ")", rty)
            if len(segs) == 1:
                return self.unit.call(self, segs[0], args, env, pre)
            raise Unsupported("call of " + "::".join(segs))
        if k == "mcall":
            return self.method(e, env, pre, want)
        if k == "closure": raise Unsupported("closure in value position")
        if k == "range": raise Unsupported("range in value position")
        if k == "try":
            if self.depth > 0: raise Unsupported("`?` inside a nested value block")
            if not (isinstance(self.ret_ty, tuple) and self.ret_ty[0] == "opt"): raise Unsupported("`?` in a function that does not return Option")
            v, vt = self.expr(e[1], env, pre)
            if not (isinstance(vt, tuple) and vt[0] == "opt" and vt[1] != "?"): raise Unsupported(f"`?` on {vt}")
            n = self.fresh("q"); pre.append(("qbind", n, v)); return (n, vt[1])
        if k == "return": raise Unsupported("return in value position")
        raise Unsupported(f"expression {k}")

    def enum_ctor(self, enum, variant, args, env, pre):
        """`Enum::Variant(args)` of an enum with payloads (generated inductive `<Enum>_val`)"""
        info = ENUMV.get(enum)
        if info is None: raise Unsupported(f"enum {enum}: no generated inductive")
        vs = dict(info["variants"])
        if variant not in vs: raise Unsupported(f"unknown variant {enum}::{variant}")
        tys = [conv_payload(self.unit, t) for t in vs[variant]]
        if len(tys) != len(args): raise Unsupported(f"{enum}::{variant}: arity")
        out = []
        for a, t in zip(args, tys):
            v, vt = self.expr(a, env, pre, t)
            v, vt = self.coerce(v, vt, t); out.append(v)
        return ("(" + " ".join([f"{enum}_val.{variant}"] + out) + ")", ("enumv", enum))

    def closure_params(self, clo, elt):
        """the parameters of a closure applied to elements of type `elt`: ([(name, type)], how the lifted definition is applied to `x`)"""
        pats = clo[1]
        if len(pats) != 1: raise Unsupported("closure arity")
        p0 = pats[0][0]
        if p0[0] == "pbind": return [(p0[1], elt)], " x"
        if p0[0] == "pwild": return [("_x", elt)], " x"
        if p0[0] == "ptuple" and isinstance(elt, tuple) and elt[0] == "tuple" and len(elt[1]) == len(p0[1]) and all(q[0] in ("pbind", "pwild") for q in p0[1]):
            n = len(p0[1])
            return ([((q[1] if q[0] == "pbind" else f"_x{i}"), t) for i, (q, t) in enumerate(zip(p0[1], elt[1]))],
                    "".join(" x" + ".2" * i + (".1" if i < n - 1 else "") for i in range(n)))
        raise Unsupported("closure parameter pattern")

    def method(self, e, env, pre, want):
        _, recv, name, turbofish, args = e
        ext = self.unit.extern_var_method(self, recv, name, args, env, pre)
        if ext is not None: return ext
        # <literal date>.unwrap()
        if name == "unwrap" and recv[0] == "call" and recv[1][1][-1] == "parse_from_str" and recv[1][1][0] == "NaiveDateTime":
            a = recv[2]
            if len(a) != 2 or a[0][0] != "str" or a[1] != ("str", "%Y-%m-%d %T"): raise Unsupported("parse_from_str on a non-literal")
            m = re.fullmatch(r"(\d{4})-(\d\d)-(\d\d) 00:00:00", a[0][1])
            if not m: raise Unsupported("date literal not at midnight")
            self.needs_C = True
            return (f"(Chrono.midnight C {int(m.group(1))} {int(m.group(2))} {int(m.group(3))})", "datetime")
        ext = self.unit.extern_method(self, recv, name, args)
        if ext is not None: return ext
        if (self.unit.spec.get("xml_writer") and name == "into_inner" and not args and recv[0] == "mcall" and recv[2] == "into_inner" and not recv[4]):
            # `writer.into_inner().into_inner()`: the bytes written so far
            w, wt = self.expr(recv[1], env, pre)
            if isinstance(wt, tuple) and wt[0] == "abs":
                lt = f"{lean_type(wt)} → {lean_type(('list', 'byte'))}"
                if ("xml_bytes", lt) not in self.unit.extra_params: self.unit.extra_params.append(("xml_bytes", lt))
                return (f"(xml_bytes {w})", ("list", "byte"))
        r, rt = self.expr(recv, env, pre)
        mkey = name + (f"::<{turbofish[0][1]}>" if turbofish and turbofish[0][0] == "named" else "")
        em = self.unit.spec.get("extern_methods", {}).get((rt if isinstance(rt, str) else rt[0], mkey))
        if em is not None:
            # a method of a type outside the fragment (chrono's `format`, `f64::to_string`): a parameter of the definition
            pname, ptys, rty, can_panic = em
            if len(args) != len(ptys): raise Unsupported(f"method .{name}(): arity")
            vs = [r]
            for a, pt in zip(args, ptys):
                v, vt = self.expr(a, env, pre, pt)
                v, vt = self.coerce(v, vt, pt); vs.append(v)
            lt = " → ".join([lean_type(rt)] + [lean_type(x) for x in ptys] + [f"Option ({lean_type(rty)})" if can_panic else lean_type(rty)])
            if (pname, lt) not in self.unit.extra_params: self.unit.extra_params.append((pname, lt))
            call = f"({pname} " + " ".join(vs) + ")"
            if can_panic:
                n = self.fresh("t"); pre.append(("bind", n, call)); return (n, rty)
            return (call, rty)
        if isinstance(rt, tuple) and rt[0] == "rec" and not args:
            fld = self.unit.record_getter(rt[1], name)
            if fld is not None: return (f"{r}.{fld}", RECS[rt[1]]["fields"][fld])
        if isinstance(rt, tuple) and rt[0] == "map":
            if name == "contains_key" and len(args) == 1:
                a, at = self.expr(args[0], env, pre, rt[1]); a, at = self.coerce(a, at, rt[1])
                return (f"(rt_map_contains {r} {a})", "bool")
            if name == "get" and len(args) == 1:
                a, at = self.expr(args[0], env, pre, rt[1]); a, at = self.coerce(a, at, rt[1])
                return (f"(rt_map_get {r} {a})", ("opt", rt[2]))
            if name == "iter" and not args: self.iter_is_map = True; return (r, ("miter", ("tuple", [rt[1], rt[2]])))
            if name == "values" and not args: return (f"(List.map Prod.snd {r})", ("miter", rt[2]))
            if name == "keys" and not args: return (f"(List.map Prod.fst {r})", ("miter", rt[1]))
            if name == "len" and not args: return (f"(List.length {r})", "usize")
        if isinstance(rt, tuple) and rt[0] in ("iter", "miter", "list") and len(args) == 1 and args[0][0] == "closure" and name in ("find", "filter", "any", "position"):
            # adapters with a predicate; on the entries of a HashMap (`miter`) `find` / `position` depend on the unspecified order only
            # when several entries satisfy the predicate: translated relative to the order the list stands for
            params, app = self.closure_params(args[0], rt[1])
            call, cty, mon = self.lift("closure", params, args[0][2], env)
            if mon or cty != "bool": raise Unsupported(f".{name}() with a closure that can panic / is not a predicate")
            if name == "find": return (f"(List.find? (fun x => {call}{app}) {r})", ("opt", rt[1]))
            if name == "filter": return (f"(List.filter (fun x => {call}{app}) {r})", (rt[0] if rt[0] != "list" else "iter", rt[1]))
            if name == "any": return (f"(List.any {r} (fun x => {call}{app}))", "bool")
            if name == "position":
                if rt[0] == "miter": raise Unsupported("position in a HashMap")
                return (f"(rt_position (fun x => {call}{app}) {r})", ("opt", "usize"))
        if isinstance(rt, tuple) and rt[0] in ("iter", "miter") and name == "count" and not args: return (f"(List.length {r})", "usize")
        if isinstance(rt, tuple) and rt[0] == "list" and name == "len" and not args: return (f"(List.length {r})", "usize")
        if name in self.unit.spec.get("transparent_methods", ()) and rt == "str" and not args: return (r, rt)
        is_seq = isinstance(rt, tuple) and rt[0] in ("iter", "list")
        if name == "chars" and rt == "str" and not args: return (r, ("iter", "char"))
        if name in ("iter", "into_iter") and is_seq and not args: return (r, ("iter", rt[1]))
        if name == "rev" and isinstance(rt, tuple) and rt[0] == "iter" and not args: return (f"(List.reverse {r})", rt)
        if name == "enumerate" and isinstance(rt, tuple) and rt[0] == "iter" and not args:
            return (f"(rt_enumerate {r})", ("iter", ("tuple", ["usize", rt[1]])))
        if name == "to_uppercase" and rt == "str" and not args: return (f"(rt_to_uppercase {r})", "str")
        if name == "map" and isinstance(rt, tuple) and rt[0] == "iter" and len(args) == 1 and args[0][0] == "closure":
            params, app = self.closure_params(args[0], rt[1])
            call, cty, mon = self.lift("closure", params, args[0][2], env)
            if mon:
                n = self.fresh("t"); pre.append(("bind", n, f"rt_mapM (fun x => {call}{app}) {r}")); return (n, ("iter", cty))
            return (f"(List.map (fun x => {call}{app}) {r})", ("iter", cty))
        if name == "map" and isinstance(rt, tuple) and rt[0] == "iter" and len(args) == 1 and args[0] == ("path", ["AsRef", "as_ref"]): return (r, rt)
        if name in ("copied", "cloned") and isinstance(rt, tuple) and rt[0] == "iter" and not args: return (r, rt)
        if name == "flat_map" and isinstance(rt, tuple) and rt[0] == "iter" and len(args) == 1 and args[0][0] == "closure":
            params, app = self.closure_params(args[0], rt[1])
            call, cty, mon = self.lift("closure", params, args[0][2], env)
            if not (isinstance(cty, tuple) and cty[0] in ("list", "iter")): raise Unsupported(f"flat_map: closure returns {cty}")
            if mon:
                n = self.fresh("t"); pre.append(("bind", n, f"rt_mapM (fun x => {call}{app}) {r}")); return (f"(List.flatten {n})", ("iter", cty[1]))
            return (f"(List.flatMap (fun x => {call}{app}) {r})", ("iter", cty[1]))
        if name == "len" and is_seq and not args: return (f"(List.length {r})", "usize")
        if name == "len" and rt == "str" and not args: return (f"(rt_utf8_len {r})", "usize")
        if name == "cmp" and rt in UNSIGNED and len(args) == 1:
            a, at = self.expr(args[0], env, pre, rt)
            if at != rt: raise Unsupported(f"cmp of {rt} with {at}")
            return (f"(compare {r} {a})", "ordering")
        if name in ("min", "max") and rt in UNSIGNED and len(args) == 1:
            a, at = self.expr(args[0], env, pre, rt)
            if at != rt: raise Unsupported(f"{name} of {rt} with {at}")
            return (f"(Nat.{name} {r} {a})", rt)
        if name == "unwrap_or" and isinstance(rt, tuple) and rt[0] == "opt" and rt[1] != "?" and len(args) == 1:
            a, at = self.expr(args[0], env, pre, rt[1])
            a, at = self.coerce(a, at, rt[1])
            return (f"(Option.getD {r} {a})", rt[1])
        if name == "encode_utf16" and rt == "str" and not args: return (f"(rt_encode_utf16 {r})", ("iter", "u16"))
        if name == "to_le_bytes" and rt in ("u16", "u32") and not args and self.unit.spec.get("u8_bytes"):
            return (f"(rt_{rt}_le_bytes {r})", ("list", "byte"))
        if name == "sum" and isinstance(rt, tuple) and rt[0] == "iter" and not args:
            t = self.conv_type(turbofish[0]) if turbofish else want
            if t not in UNSIGNED or rt[1] != t: raise Unsupported(f"sum::<{t}> over {rt[1]}")
            return (f"(List.sum {r})", t)
        if name == "collect" and isinstance(rt, tuple) and rt[0] == "iter" and not args:
            t = self.conv_type(turbofish[0]) if turbofish else want
            if t == "str" and rt[1] == "char": return (r, "str")
            if isinstance(t, tuple) and t[0] == "list" and (t[1] == rt[1] or t[1] == ("opaque", "_")): return (r, ("list", rt[1]))
            raise Unsupported(f"collect::<{t}> of {rt[1]}")
        if name in ("as_ref", "into", "to_owned", "clone", "as_str", "borrow", "to_vec", "into_owned") and not args: return (r, rt)
        if name == "to_string" and not args:
            if rt == "int?": rt = "i32"
            return (self.to_text(r, rt), "str")
        if name == "parse" and rt == "str" and turbofish and self.conv_type(turbofish[0]) == "i32":
            return (f"(rt_parse_i32 {r})", ("res", "i32"))
        if name in ("unwrap", "expect") and isinstance(rt, tuple) and rt[0] in ("opt", "res"):
            n = self.fresh("t"); pre.append(("bind", n, r)); return (n, rt[1])
        if name in ("unwrap_or", "unwrap_or_else") and isinstance(rt, tuple) and rt[0] == "opt" and rt[1] != "?" and len(args) == 1:
            # `o.unwrap_or(e)` (eager `e`: its checks come first, like any argument) / `o.unwrap_or_else(f)` for a translated `f`
            # without arguments that cannot panic (lazy: a panicking default could not be hoisted)
            if name == "unwrap_or":
                d, dt = self.expr(args[0], env, pre, rt[1])
            else:
                if not (args[0][0] == "path" and len(args[0][1]) == 1): raise Unsupported("unwrap_or_else with a closure")
                pre2 = []
                d, dt = self.unit.call(self, args[0][1][0], [], env, pre2)
                if pre2: raise Unsupported("unwrap_or_else with a default that can panic")
            d, dt = self.coerce(d, dt, rt[1])
            return (f"(match {r} with | some v => v | none => {d})", rt[1])
        if name == "checked_add_signed" and rt == "datetime" and len(args) == 1:
            a, at = self.expr(args[0], env, pre)
            if at != "duration": raise Unsupported("checked_add_signed argument")
            self.needs_C = True
            return (f"(rt_checked_add_signed C {r} {a})", ("opt", "datetime"))
        if name in ("floor", "round") and rt == "f64" and not args:
            self.needs_F = True
            return (f"(RFloat.{name} {r})", "f64")
        if name == "replace" and rt == "str" and len(args) == 2:
            a, at = self.expr(args[0], env, pre); b, bt = self.expr(args[1], env, pre)
            if bt != "str": raise Unsupported("replace: replacement type")
            if at == "str": return (f"(rt_replace_str {r} {a} {b})", "str")
            if at == "char": return (f"(rt_replace_char {r} {a} {b})", "str")
            raise Unsupported("replace: pattern type")
        if name == "repeat" and rt == "str" and len(args) == 1:
            a, at = self.expr(args[0], env, pre, "usize")
            if at not in UNSIGNED: raise Unsupported("repeat count")
            return (f"(rt_repeat {r} {a})", "str")
        if name == "trim" and rt == "str" and not args: return (f"(rt_trim {r})", "str")
        if name == "contains" and rt == "str" and len(args) == 1 and args[0][0] == "closure":
            params, body = args[0][1], args[0][2]
            if len(params) != 1 or params[0][0][0] != "pbind": raise Unsupported("closure parameters")
            c = self.fresh(params[0][0][1])
            env2 = dict(env); env2[params[0][0][1]] = (c, "char")
            pre2 = []
            b = self.cond(body, env2, pre2)
            if pre2: raise Unsupported("closure body with bindings")
            return (f"(List.any {r} (fun {c} => {b}))", "bool")
        if name in ("is_some", "is_none") and isinstance(rt, tuple) and rt[0] == "opt" and not args:
            return (f"(Option.{'isSome' if name == 'is_some' else 'isNone'} {r})", "bool")
        if name == "is_empty" and rt == "str" and not args: return (f"(List.isEmpty {r})", "bool")
        if name == "join" and rt == ("list", "str") and len(args) == 1:
            a, at = self.expr(args[0], env, pre)
            if at != "str": raise Unsupported("join separator")
            return (f"(rt_join {a} {r})", "str")
        if isinstance(rt, tuple) and rt[0] == "enum":
            return self.unit.enum_method(self, rt[1], name, r, args, pre)
        raise Unsupported(f"method .{name}() on {rt}")


class Unit:
    """one generated item (a definition, possibly with helper definitions in front)"""
    def __init__(self, spec, sources):
        self.spec = spec
        self.sources = sources
        self.src = sources(spec["file"])
        self.enums = {}
        self.str_generics = set(spec.get("str_generics", []))
        self.extra_params = []          # externs that became parameters: (lean name, lean type)
        self.aux = []                   # helper definitions (text)
        for en, ef in spec.get("enums", {}).items():
            self.enums[en] = sources(ef).enum_variants(en)

    # -- hooks used by Fn
    def const_value(self, fn, name):
        """a `const` of the file (or of the enclosing function) referenced by name: inlined"""
        try:
            c = self.src.parse_const(name, in_fn=self.spec.get("fn"))
        except Unsupported:
            try:
                c = self.src.parse_const(name)
            except Unsupported:
                c = None
                for cf in self.spec.get("const_files", ()):
                    try:
                        c = self.sources(cf).parse_const(name); break
                    except Unsupported:
                        pass
                if c is None: return None
        pre = []
        want = fn.conv_type(c[2])
        v, vt = fn.expr(c[3], {}, pre, want)
        if pre: raise Unsupported("const with a panicking initialiser")
        return fn.coerce(v, vt, want)

    def call(self, fn, name, args, env, pre, raw=False):
        ext = self.spec.get("extern_fns", {}).get(name)
        if ext is not None:
            ptys, rty, can_panic = ext
            vs = []
            for a, pt in zip(args, ptys):
                v, vt = fn.expr(a, env, pre, pt)
                v, vt = fn.coerce(v, vt, pt); vs.append(v)
            lt = " → ".join([lean_type(p) for p in ptys] + [f"Option ({lean_type(rty)})" if can_panic else lean_type(rty)])
            if (name, lt) not in self.extra_params: self.extra_params.append((name, lt))
            call = f"({name} " + " ".join(vs) + ")"
            if can_panic:
                n = fn.fresh("t"); pre.append(("bind", n, call)); return (n, rty)
            return (call, rty)
        dep = self.spec.get("calls", {}).get(name)
        if dep is not None:
            lean_name, ptys, rty, can_panic = dep[:4]
            mi = dep[4] if len(dep) > 4 else None
            if mi is not None and not raw: raise Unsupported(f"call of {name} (a function with a `&mut` parameter) in value position")
            if mi is not None: rty = ptys[mi]           # a function with a `&mut` parameter returns that parameter's final value
            if len(args) != len(ptys): raise Unsupported(f"call of {name}: arity")
            # the callee's implicit parameters / panic effect as compiled on this run (or as in the snapshot kept for it)
            sig = SIGS.get(lean_name, {})
            if sig.get("mon") is not None: can_panic = sig["mon"]
            vs = []
            if sig.get("F"): fn.needs_F = True; vs.append("F")
            if sig.get("C"): fn.needs_C = True; vs.append("C")
            for a in sig.get("abs", []):
                if a not in abstract_params(self): raise Unsupported(f"call of {name}: the caller does not declare the abstract type {a}")
                vs.append(a)
            # the externs the callee takes as parameters are parameters of the caller as well, passed on under the same names
            for n_lt in sorted(tuple(x) for x in sig.get("extra", [])):
                if n_lt not in self.extra_params: self.extra_params.append(n_lt)
                vs.append(n_lt[0])
            for a, pt in zip(args, ptys):
                v, vt = fn.expr(a, env, pre, pt)
                v, vt = fn.coerce(v, vt, pt); vs.append(v)
            call = f"({lean_name} " + " ".join(vs) + ")" if vs else lean_name
            if raw: return (call[1:-1] if vs and can_panic else call, rty, can_panic)
            if can_panic:
                n = fn.fresh("t"); pre.append(("bind", n, call)); return (n, rty)
            return (call, rty)
        raise Unsupported(f"call of {name}")

    def record_getter(self, struct, name):
        """`fn name(&self) -> &T { &self.f }` (possibly through `*` / `as_ref()` / `clone()`): the field `f`"""
        info = RECS.get(struct)
        if info is None: return None
        try:
            d = self.sources(info["file"]).parse_fn(name, struct)
        except Unsupported:
            return None
        if [p for p, _ in d["params"]] != ["self"] or d["body"][1]: return None
        e = d["body"][2]
        while e is not None and (e[0] == "paren" or (e[0] == "unary" and e[1] in ("&", "*", "&mut")) or (e[0] == "mcall" and e[2] in ("as_ref", "clone", "as_str") and not e[4])):
            e = e[1] if e[0] in ("paren", "mcall") else e[2]
        if e is not None and e[0] == "field" and e[1] == ("path", ["self"]) and e[2] in info["fields"]: return e[2]
        return None

    def record_setter(self, struct, name):
        """`fn name(&mut self, value: T) -> &mut Self { self.f = value; self }`: the field `f`"""
        info = RECS.get(struct)
        if info is None: return None
        try:
            d = self.sources(info["file"]).parse_fn(name, struct)
        except Unsupported:
            return None
        ps = [p for p, _ in d["params"]]
        if len(ps) != 2 or ps[0] != "self": return None
        st, tl = d["body"][1], d["body"][2]
        if len(st) == 1 and st[0][0] == "assign" and st[0][2] == "=" and st[0][1][0] == "field" and st[0][1][1] == ("path", ["self"]) \
                and st[0][3] == ("path", [ps[1]]) and tl in (None, ("path", ["self"])) and st[0][1][2] in info["fields"]:
            return st[0][1][2]
        return None

    def record_remover(self, struct, name):
        """`fn name(&mut self) -> &mut Self { self.f = None; self }`: the field `f`"""
        info = RECS.get(struct)
        if info is None: return None
        try:
            d = self.sources(info["file"]).parse_fn(name, struct)
        except Unsupported:
            return None
        ps = [p for p, _ in d["params"]]
        if ps != ["self"]: return None
        st, tl = d["body"][1], d["body"][2]
        if len(st) == 1 and st[0][0] == "assign" and st[0][2] == "=" and st[0][1][0] == "field" and st[0][1][1] == ("path", ["self"]) \
                and st[0][3] == ("path", ["None"]) and tl in (None, ("path", ["self"])) and st[0][1][2] in info["fields"] \
                and isinstance(info["fields"][st[0][1][2]], tuple) and info["fields"][st[0][1][2]][0] == "opt":
            return st[0][1][2]
        return None

    def record_setter_some(self, struct, name):
        """`fn name(&mut self, value: T) -> &mut Self { self.f = Some(value); self }` (the value holders `BooleanValue`, ..): the field `f`"""
        info = RECS.get(struct)
        if info is None: return None
        try:
            d = self.sources(info["file"]).parse_fn(name, struct)
        except Unsupported:
            return None
        ps = [p for p, _ in d["params"]]
        if len(ps) != 2 or ps[0] != "self": return None
        st, tl = d["body"][1], d["body"][2]
        if len(st) == 1 and st[0][0] == "assign" and st[0][2] == "=" and st[0][1][0] == "field" and st[0][1][1] == ("path", ["self"]) \
                and st[0][3] == ("call", ("path", ["Some"]), [("path", [ps[1]])]) and tl in (None, ("path", ["self"])) and st[0][1][2] in info["fields"] \
                and isinstance(info["fields"][st[0][1][2]], tuple) and info["fields"][st[0][1][2]][0] == "opt":
            return st[0][1][2]
        return None

    def extern_method(self, fn, recv, name, args):
        """`<param>.getter()` declared as an input of the fragment"""
        if recv[0] == "path" and len(recv[1]) == 1:
            g = self.spec.get("extern_getters", {}).get((recv[1][0], name))
            if g is not None and not args:
                return g
        return None

    def extern_var_method(self, fn, recv, name, args, env, pre):
        """`<variable>.method(args)` declared as an input of the fragment: a value (`extern_values`) or a function (`extern_var_fns`)
        that becomes a parameter of every definition of the unit"""
        if recv[0] == "mcall" and recv[1] == ("path", ["self"]) and not recv[4] and not args:
            # `self.<getter>().<getter>()` declared as one input of the fragment (key: ("self.<getter>", name))
            g = self.spec.get("extern_values", {}).get(("self." + recv[2], name))
            if g is None: return None
            if (g[0], lean_type(g[1])) not in self.extra_params: self.extra_params.append((g[0], lean_type(g[1])))
            return g
        if not (recv[0] == "path" and len(recv[1]) == 1): return None
        g = self.spec.get("extern_values", {}).get((recv[1][0], name))
        if g is not None and not args:
            if (g[0], lean_type(g[1])) not in self.extra_params: self.extra_params.append((g[0], lean_type(g[1])))
            return g
        f = self.spec.get("extern_var_fns", {}).get((recv[1][0], name))
        if f is not None:
            pname, ptys, rty = f
            if len(args) != len(ptys): raise Unsupported(f"method .{name}(): arity")
            vs = []
            for a, pt in zip(args, ptys):
                v, vt = fn.expr(a, env, pre, pt)
                v, vt = fn.coerce(v, vt, pt); vs.append(v)
            lt = " → ".join([lean_type(x) for x in ptys] + [lean_type(rty)])
            if (pname, lt) not in self.extra_params: self.extra_params.append((pname, lt))
            return (f"({pname} " + " ".join(vs) + ")", rty)
        return None

    def enum_method(self, fn, enum, name, recv, args, pre):
        dep = self.spec.get("enum_methods", {}).get((enum, name))
        if dep is None or args: raise Unsupported(f"method {enum}::{name}")
        lean_name, rty = dep
        return (f"({lean_name} {recv})", rty)


SIGS = {}        # lean name -> {"F": takes the float interface, "C": takes the calendar, "mon": can panic (None = unknown: snapshot)}


def abstract_params(unit):
    """type parameters of the definitions of a unit: the abstract types of its description and those of the payload enums it uses"""
    out = set(unit.spec.get("abstract_types", {}).values())
    for en in unit.spec.get("enum_vals", ()):
        out |= set(ENUMV.get(en, {}).get("params", []))
    return sorted(out)


def conv_payload(unit, ty):
    """payload type of an enum variant"""
    k = ty[0]
    if k == "named":
        name = ty[1]
        if name in ("Box", "Cow"): return conv_payload(unit, ty[2][-1])
        if name in ("String", "str"): return "str"
        if name == "bool": return "bool"
        if name in INTS or name == "char": return name
        ab = unit.spec.get("abstract_types", {}) if unit is not None else {}
        return ("abs", ab.get(name, "Num" if name == "f64" else name))
    raise Unsupported(f"payload type {ty}")


def fn_signature(fn, params, ret_ty, tree, extra, needs_F=None, needs_C=None):
    mon = Fn.panics(tree)
    ps = ""
    if fn.needs_F if needs_F is None else needs_F: ps += " (F : Type) [RFloat F]"
    if fn.needs_C if needs_C is None else needs_C: ps += " (C : Chrono)"
    for a in abstract_params(fn.unit): ps += f" ({a} : Type)"
    for n, lt in sorted(extra): ps += f" ({n} : {lt})"        # sorted: the order in which the source mentions them is irrelevant
    for n, t in params: ps += f" ({n} : {lean_type(t)})"
    rt = lean_type(ret_ty)
    return ps, (f"Option ({rt})" if mon else rt), mon


def compile_fn(unit, lean_name, decl, params_override=None, doc=""):
    """decl: {"params": [(name, ast type)], "ret": ast type, "body": block}"""
    fn = Fn(unit, unit.src, lean_name)
    env, params = {}, []
    fn.obj_vars = set()
    for pn, pt in decl["params"]:
        if pn == "self":
            owner = unit.spec.get("self_type")
            if owner in unit.enums:
                n = fn.fresh("self"); env["self"] = (n, ("enum", owner)); params.append((n, ("enum", owner)))
            else:
                for f, fty in unit.sources(unit.spec["file"]).struct_fields(owner).items():
                    t = fn.conv_type(fty)
                    if isinstance(t, tuple) and t[0] == "opt" and isinstance(t[1], tuple) and t[1][0] == "opaque": t = ("opt", "unit")
                    if isinstance(t, tuple) and t[0] == "opaque": continue
                    n = fn.fresh(f); env["self." + f] = (n, t); params.append((n, t))
            continue
        if pn in unit.spec.get("param_subst", {}):
            for sn, st_ in unit.spec["param_subst"][pn]:
                n = fn.fresh(sn); env[sn] = (n, st_); params.append((n, st_))
            continue
        t = pt if isinstance(pt, str) or pt[0] in ("list", "opt", "enum", "rec", "map") else fn.conv_type(pt)
        if isinstance(t, tuple) and t[0] == "opt" and t[1] == "str": pass
        n = fn.fresh(pn); env[pn] = (n, t); params.append((n, t))
        if isinstance(t, tuple) and t[0] == "obj": fn.obj_vars.add(pn)
    if unit.spec.get("mut_self"):
        fn.state_fields = [f for f in unit.sources(unit.spec["file"]).struct_fields(unit.spec["self_type"]) if ("self." + f) in env]
    fn.ret_ty = fn.conv_type(decl["ret"]) if decl.get("ast") else decl["ret"] if isinstance(decl["ret"], (str,)) or (isinstance(decl["ret"], tuple) and decl["ret"][0] in ("opt", "tuple", "list", "enum")) else fn.conv_type(decl["ret"])
    unit_ret = fn.ret_ty == "unit" or (isinstance(fn.ret_ty, tuple) and fn.ret_ty[0] == "opaque" and fn.ret_ty[1] == "Self")
    def k(env2, v):
        if v is None or (fn.state_fields and unit_ret): return ("ret", fn.pack(env2, None))
        t, ty = fn.coerce(v[0], v[1], fn.ret_ty)
        return ("ret", fn.pack(env2, t))
    mutrefs = decl.get("mutrefs") or []
    if mutrefs:
        # a function with one `&mut` parameter and no value: state passing, the result is the final value of that parameter
        if len(mutrefs) != 1 or fn.ret_ty != "unit": raise Unsupported("`&mut` parameters: only one, in a function without a value")
        fn.mutret = mutrefs[0]
        fn.ret_ty = env[fn.mutret][1]
        def k(env2, v):
            if v is not None: raise Unsupported("value at the end of a function with a `&mut` parameter")
            return ("ret", env2[fn.mutret][0])
    if fn.state_fields:
        if mutrefs: raise Unsupported("a `&mut self` method with another `&mut` parameter")
        env["self"] = ("()", ("opaque", "Self"))      # `self` as the tail of a builder-style method: no value
    first_aux = len(unit.aux)
    tree = fn.lower_block(decl["body"], env, k)
    auxs = unit.aux[first_aux:]
    # the float interface, the calendar and the externs are parameters of every definition of the unit (closures and loop bodies
    # lifted out of the function come first); `⟦X⟧` at a call of a lifted definition stands for exactly these arguments
    nF = fn.needs_F or any(a["fn"].needs_F for a in auxs)
    nC = fn.needs_C or any(a["fn"].needs_C for a in auxs)
    xargs = (" F" if nF else "") + (" C" if nC else "") + "".join(" " + a for a in abstract_params(unit)) + "".join(" " + n for n, _ in sorted(unit.extra_params))
    out = []
    def emit_aux(owner):
        for a in auxs:
            if a["owner"] != owner: continue
            emit_aux(a["name"])            # what it uses comes first
            aps, art, amon = fn_signature(a["fn"], a["params"], a["ret"] if a["ret"] is not None else a["state_ty"], a["tree"], unit.extra_params, nF, nC)
            what = {"closure": "closure", "cond": "condition of the `while` loop", "while": "body of the `while` loop"}.get(a["kind"], "body of the `for` loop")
            short = doc.split("`: ")[0] + "`" if "`: " in doc else doc
            out.append(f"/-- {short}: the {what} #{a['name'].rsplit('_', 1)[1]} of `{owner}` (captured variables first"
                       + (", then the loop state, then the loop variable" if a["kind"] == "loop" else ", then the loop state" if a["kind"] in ("cond", "while") else "") + f") -/\ndef {a['name']}{aps} : {art} :=\n"
                       + a["fn"].emit(a["tree"], amon, 1) + "\n\n")
    emit_aux(lean_name)
    out = "".join(out)
    full_ret = fn.ret_ty
    if fn.state_fields:
        tys = [env["self." + f][1] for f in fn.state_fields] + ([] if unit_ret else [fn.ret_ty])
        full_ret = tys[0] if len(tys) == 1 else ("tuple", tys)
    ps, rt, mon = fn_signature(fn, params, full_ret, tree, unit.extra_params, nF, nC)
    body = fn.emit(tree, mon, 1)
    SIGS[lean_name] = {"F": nF, "C": nC, "mon": mon, "extra": sorted(unit.extra_params), "abs": abstract_params(unit),
                       "plain": not (nF or nC or mon or unit.extra_params or abstract_params(unit))}
    sigline = ""
    if unit.spec.get("emit_sig"):
        sigline = "-- SIG " + json.dumps({"mon": mon, "extra": sorted(unit.extra_params), "abs": abstract_params(unit)}, ensure_ascii=False) + "\n"
    unfold = ""
    if unit.spec.get("emit_sig"):
        # proofs about the unit unfold it by this tactic, so that they do not depend on how many closures / loop bodies were lifted out of it
        names = [lean_name] + [a["name"] for a in auxs]
        unfold = f"\n/-- unfolds `{lean_name}` and the definitions lifted out of it -/\nmacro \"gen_unfold_{lean_name}\" : tactic => `(tactic| simp only [" + ", ".join(names) + "])\n"
    return (out + sigline + f"/-- {doc} -/\ndef {lean_name}{ps} : {rt} :=\n{body}\n" + unfold).replace("⟦X⟧", xargs)


# ------------------------------------------------------------------------------------------------ targets

def t_fn(lean_name, file, fn, **kw):
    def build(sources):
        spec = dict(kw, file=file, fn=fn)
        unit = Unit(spec, sources)
        decl = unit.src.parse_fn(fn, kw.get("self_type"))
        txt = compile_fn(unit, lean_name, decl, doc=f"translated from `{file}` fn `{(kw.get('self_type') + '::') if kw.get('self_type') else ''}{fn}`")
        return txt
    return (lean_name, build)


def t_enum(lean_name, file, enum):
    def build(sources):
        vs = sources(file).enum_variants(enum)
        return (f"/-- translated from `{file}` enum `{enum}`: the variant tags, in declaration order -/\n"
                f"inductive {lean_name} where\n" + "".join(f"  | {v}\n" for v in vs) + "  deriving DecidableEq, Repr\n")
    return (lean_name, build)


RECS = {}        # struct translated as a Lean structure -> {"file", "fields": {name: type}}


def t_record(struct, file):
    """a plain struct as a Lean structure `<struct>_rec` (field order of the declaration)"""
    lean_name = struct + "_rec"
    def build(sources):
        unit = Unit({"file": file}, sources)
        fn = Fn(unit, unit.src, lean_name)
        fields = {f: fn.conv_type(t) for f, t in sources(file).struct_fields(struct).items()}
        for f, t in fields.items():
            if isinstance(t, tuple) and t[0] == "opaque": raise Unsupported(f"field {f} of {struct}: type outside the fragment")
        RECS[struct] = {"file": file, "fields": fields}
        return (f"/-- translated from `{file}` struct `{struct}` -/\nstructure {lean_name} where\n"
                + "".join(f"  {f} : {lean_type(t)}\n" for f, t in fields.items()) + "  deriving DecidableEq, Repr\n")
    return (lean_name, build)


def t_enum_val(lean_name, file, enum):
    """an enum with tuple variants as a Lean inductive; payload types outside the fragment (`f64` ↦ `Num`, other named types under
    their own name) are type parameters"""
    def build(sources):
        vs = sources(file).enum_variants_typed(enum)
        params, ctors = [], []
        for v, tys in vs:
            args = []
            for i, t in enumerate(tys):
                ct = conv_payload(None, t)
                if isinstance(ct, tuple) and ct[0] == "abs" and ct[1] not in params: params.append(ct[1])
                args.append(f" (a{i if len(tys) > 1 else ''} : {lean_type(ct)})")
            ctors.append(f"  | {v}" + "".join(args) + "\n")
        params = sorted(params)
        ENUMV[enum] = {"params": params, "variants": vs}
        return (f"/-- translated from `{file}` enum `{enum}`: the variants with their payloads; payload types outside the fragment are parameters -/\n"
                f"inductive {lean_name}" + "".join(f" ({p} : Type)" for p in params) + " where\n" + "".join(ctors))
    return (lean_name, build)


def find_closure(expr, adapter, nth=0):
    """the closure passed to the `nth` occurrence (outermost last) of `.adapter(..)` / `adapter(..)` in an expression"""
    found = []
    def walk(e):
        if not isinstance(e, tuple): return
        if e and e[0] == "mcall":
            walk(e[1])
            if e[2] == adapter:
                for a in e[4]:
                    if a[0] == "closure": found.append(a)
            for a in e[4]: walk(a)
            return
        if e and e[0] == "call":
            if e[1][1][-1] == adapter:
                for a in e[2]:
                    if a[0] == "closure": found.append(a)
            for a in e[2]: walk(a)
            return
        for x in e:
            if isinstance(x, tuple): walk(x)
            elif isinstance(x, list):
                for y in x: walk(y)
    walk(expr)
    if len(found) <= nth: raise Unsupported(f"closure argument of {adapter} #{nth} not found")
    return found[nth]


def t_closure(lean_name, file, fn, adapter, nth, param_types, ret, **kw):
    def build(sources):
        spec = dict(kw, file=file, fn=fn)
        unit = Unit(spec, sources)
        decl = unit.src.parse_fn(fn)
        clo = find_closure(decl["body"], adapter, nth)
        params = []
        pats = clo[1]
        if len(pats) == 1 and pats[0][0][0] == "ptuple": pats = [(p, None) for p in pats[0][0][1]]
        if len(pats) != len(param_types): raise Unsupported("closure arity")
        for (p, _ty), t in zip(pats, param_types):
            if p[0] != "pbind": raise Unsupported("closure parameter pattern")
            params.append((p[1], t))
        # the constants of the enclosing function are in scope
        body = clo[2] if clo[2][0] == "block" else ("block", [], clo[2])
        consts = [s for s in decl["body"][1] if s[0] == "const"]
        body = ("block", consts + list(body[1]), body[2])
        return compile_fn(unit, lean_name, {"params": params, "ret": ret, "body": body},
                          doc=f"translated from `{file}` fn `{fn}`: the closure passed to `{adapter}` (#{nth})")
    return (lean_name, build)


def t_const(lean_name, file, const, in_fn=None, elem=None):
    def build(sources):
        src = sources(file)
        c = src.parse_const(const, in_fn=in_fn)
        unit = Unit({"file": file, "fn": in_fn}, sources)
        fn = Fn(unit, src, lean_name)
        want = fn.conv_type(c[2])
        pre = []
        v, vt = fn.expr(c[3], {}, pre, want)
        if pre: raise Unsupported("const with a panicking initialiser")
        v, vt = fn.coerce(v, vt, want)
        return (f"/-- translated from `{file}` const `{const}`" + (f" (in fn `{in_fn}`)" if in_fn else "") + f" -/\ndef {lean_name} : {lean_type(vt)} :=\n  {v}\n")
    return (lean_name, build)


def t_let_literals(lean_name, file, fns_vars):
    """literal `let` initialisers inside functions too large for the fragment: (fn, variable) -> one association list each for
    the integer and the string literals"""
    def build(sources):
        src = sources(file)
        ints, strs = [], []
        for fn, var in fns_vars:
            lits = src.let_literals(fn).get(var)
            if not lits or len(lits) != 1: raise Unsupported(f"{fn}: `let {var} = <literal>` not found exactly once")
            t = lits[0]
            if t.kind == "int": ints.append((f"{fn}.{var}", t.val[0]))
            else: strs.append((f"{fn}.{var}", t.val))
        out = (f"/-- translated from `{file}`: literal `let` initialisers (function.variable ↦ value) -/\n"
               f"def {lean_name}_ints : List (String × Nat) :=\n  [" + ", ".join(f'("{k}", {v})' for k, v in ints) + "]\n\n"
               f"/-- translated from `{file}`: literal `let` initialisers (function.variable ↦ text) -/\n"
               f"def {lean_name}_strs : List (String × String) :=\n  [" + ", ".join(f'("{k}", {json.dumps(v)})' for k, v in strs) + "]\n")
        return out
    return (lean_name, build)


def csv_fragment(kind):
    """the per-field pipeline / the per-row output inside the double loop of `write_writer`"""
    file = "src/writer/csv.rs"
    def build(sources):
        spec = {"file": file, "fn": "write_writer",
                "extern_getters": {("option", "get_do_trim"): ("do_trim", "bool"), ("option", "get_wrap_with_char"): ("wrap_with_char", "str")}}
        unit = Unit(spec, sources)
        decl = unit.src.parse_fn("write_writer")
        outer = [s for s in decl["body"][1] if s[0] == "for"]
        if len(outer) != 1: raise Unsupported("write_writer: the row loop")
        obody = outer[0][3]
        inner = [s for s in obody[1] if s[0] == "for"]
        if len(inner) != 1: raise Unsupported("write_writer: the column loop")
        if kind == "field":
            st = list(inner[0][3][1])
            if inner[0][3][2] is not None or len(st) < 2: raise Unsupported("column loop body")
            first, last = st[0], st[-1]
            if not (first[0] == "let" and first[1][0] == "pbind" and first[4]): raise Unsupported("column loop: the fetched value")
            var = first[1][1]
            if last != ("expr", ("mcall", ("path", ["row_vec"]), "push", None, [("path", [var])])): raise Unsupported("column loop: push")
            body = ("block", [("let", ("pbind", var), None, ("path", [var + "_in"]), True)] + st[1:-1], ("path", [var]))
            return compile_fn(unit, "csv_field", {"params": [("do_trim", "bool"), ("wrap_with_char", "str"), (var + "_in", "str")], "ret": "str", "body": body},
                              doc=f"translated from `{file}` fn `write_writer`: the statements of the column loop between the fetch of `{var}` and `row_vec.push({var})`")
        i = obody[1].index(inner[0])
        st = list(obody[1][i + 1:])
        if obody[2] is not None: raise Unsupported("row loop body")
        body = ("block", [("let", ("pbind", "data"), None, ("str", ""), True)] + st, ("path", ["data"]))
        return compile_fn(unit, "csv_row", {"params": [("row_vec", ("list", "str"))], "ret": "str", "body": body},
                          doc=f"translated from `{file}` fn `write_writer`: what one iteration of the row loop appends to `data` after the column loop")
    return ("csv_" + kind, build)


def date_guard_fragment():
    """the end of `format_as_date`: the checked conversion, the early return of the number's own text, chrono's rendering"""
    file = "src/helper/number_format/date_formater.rs"
    def build(sources):
        spec = {"file": file, "fn": "format_as_date",
                "calls": {"excel_to_date_time_object_checked": ("excel_to_date_time_object_checked", ["f64", ("opt", "str")], ("opt", "datetime"), False)},
                "extern_methods": {("f64", "to_string"): ("f64_to_string", [], "str", False),
                                   ("datetime", "format"): ("chrono_format", ["str"], "str", True)}}
        unit = Unit(spec, sources)
        decl = unit.src.parse_fn("format_as_date")
        stmts, tail = decl["body"][1], decl["body"][2]
        def mentions(e):
            if isinstance(e, (tuple, list)):
                return (len(e) == 2 and e[0] == "path" and e[1] == ["excel_to_date_time_object_checked"]) or any(mentions(x) for x in e)
            return False
        idx = [i for i, st in enumerate(stmts) if mentions(st)]
        if not idx and tail is not None and mentions(tail): body = ("block", [], tail)          # the conversion is the scrutinee of the tail expression
        elif len(idx) != 1 or mentions(tail): raise Unsupported("format_as_date: the statement that converts the serial")
        else: body = ("block", list(stmts[idx[0]:]), tail)
        return compile_fn(unit, "format_as_date_tail", {"params": [("value", "f64"), ("format", "str")], "ret": "str", "body": body},
                          doc=f"translated from `{file}` fn `format_as_date`: from the statement that calls `excel_to_date_time_object_checked` to the end "
                              "(`f64_to_string` = `f64::to_string`, `chrono_format` = `NaiveDateTime::format(..).to_string()`, `none` = it panics)")
    return ("format_as_date_tail", build)


def csv_text_fragment():
    """the double loop of `write_writer` as a whole: from `let mut data = String::new();` to the end of the row loop; value = `data`"""
    file = "src/writer/csv.rs"
    def build(sources):
        spec = {"file": file, "fn": "write_writer",
                "extern_values": {("option", "get_do_trim"): ("do_trim", "bool"), ("option", "get_wrap_with_char"): ("wrap_with_char", "str")},
                "extern_var_fns": {("worksheet", "get_cell"): ("get_cell", [("tuple", ["u32", "u32"])], ("opt", "str"))},
                "transparent_methods": ("get_cell_value", "get_value")}
        unit = Unit(spec, sources)
        decl = unit.src.parse_fn("write_writer")
        stmts = decl["body"][1]
        fors = [i for i, st in enumerate(stmts) if st[0] == "for"]
        if len(fors) != 1 or fors[0] == 0: raise Unsupported("write_writer: the row loop")
        init = stmts[fors[0] - 1]
        if not (init[0] == "let" and init[1] == ("pbind", "data")): raise Unsupported("write_writer: `let mut data` in front of the row loop")
        body = ("block", [init, stmts[fors[0]]], ("path", ["data"]))
        return compile_fn(unit, "csv_text", {"params": [("max_column", "u32"), ("max_row", "u32")], "ret": "str", "body": body},
                          doc=f"translated from `{file}` fn `write_writer`: `let mut data = String::new();` and the row loop (value: `data`); "
                              "`get_cell (column, row)` = `worksheet.get_cell((column, row))` followed by `get_cell_value().get_value()`, "
                              "`do_trim` / `wrap_with_char` = the getters of `option`")
    return ("csv_text", build)


DATE = "src/helper/date.rs"
COORD = "src/helper/coordinate.rs"
CRYPT = "src/helper/crypt.rs"
RAW = "src/structs/cell_raw_value.rs"
CV = "src/structs/cell_value.rs"
NFMT = "src/structs/numbering_format.rs"
NFMTS = "src/structs/numbering_formats.rs"

TARGETS = [
    # C18
    t_fn("convert_date_crate", DATE, "convert_date_crate"),
    t_fn("get_default_timezone", DATE, "get_default_timezone"),
    t_fn("excel_to_date_time_object_checked", DATE, "excel_to_date_time_object_checked",
         calls={"get_default_timezone": ("get_default_timezone", [], "str", False)}),
    t_fn("excel_to_date_time_object", DATE, "excel_to_date_time_object",
         calls={"get_default_timezone": ("get_default_timezone", [], "str", False),
                "excel_to_date_time_object_checked": ("excel_to_date_time_object_checked", ["f64", ("opt", "str")], ("opt", "datetime"), False)}),
    # C19
    date_guard_fragment(),
    # C01 / C02
    t_enum("CellRawValue_tag", RAW, "CellRawValue"),
    t_fn("raw_get_data_type", RAW, "get_data_type", self_type="CellRawValue", enums={"CellRawValue": RAW}),
    t_fn("get_data_type_crate", CV, "get_data_type_crate", self_type="CellValue", enums={"CellRawValue": RAW},
         enum_methods={("CellRawValue", "get_data_type"): ("raw_get_data_type", "str")}),
    # C19 (cell kinds)
    t_fn("cell_get_formatted_value", "src/structs/cell.rs", "get_formatted_value", self_type="Cell", abstract_types={"f64": "Num"},
         extern_values={("self", "get_value"): ("value_of_cell", "str"), ("self", "get_value_number"): ("value_number_of_cell", ("opt", ("abs", "Num"))),
                        ("self.get_style", "get_number_format"): ("format_code_of_style", ("opt", "str"))},
         transparent_methods=("get_format_code",), const_files=[NFMT], assoc_consts=("NumberingFormat",),
         extern_fns={"to_formatted_string": (["str", "str"], "str", True)}),
    # C03
    t_enum_val("CellRawValue_val", RAW, "CellRawValue"),
    t_fn("guess_typed_data", CV, "guess_typed_data", self_type="CellValue", enum_vals=("CellRawValue",),
         abstract_types={"f64": "Num"},
         extern_paths={("CellErrorType", "from_str"): ("error_from_str", ["str"], ("res", ("abs", "CellErrorType")))},
         extern_methods={("str", "parse::<f64>"): ("parse_f64", [], ("res", ("abs", "Num")), False)}),
    # C20
    csv_fragment("field"),
    csv_fragment("row"),
    csv_text_fragment(),
    # C17
    t_fn("coordinate_from_index", COORD, "coordinate_from_index", extern_fns={"string_from_column_index": (["u32"], "str", True)}),
    t_fn("coordinate_from_index_with_lock", COORD, "coordinate_from_index_with_lock", extern_fns={"string_from_column_index": (["u32"], "str", True)}),
    t_fn("column_index_from_string", COORD, "column_index_from_string", str_generics=["S"], extern_fns={"alpha_to_index": (["str"], "u32", True)}),
    t_fn("alpha_to_index", COORD, "alpha_to_index", str_generics=["S"]),
    t_fn("index_to_alpha", COORD, "index_to_alpha"),
    t_fn("string_from_column_index", COORD, "string_from_column_index", calls={"index_to_alpha": ("index_to_alpha", ["u32"], "str", True)}),
    t_const("alpha_to_index_base_char_code", COORD, "BASE_CHAR_CODE", in_fn="alpha_to_index"),
    t_const("alpha_to_index_positional_constants", COORD, "POSITIONAL_CONSTANTS", in_fn="alpha_to_index"),
    t_closure("alpha_to_index_term", COORD, "alpha_to_index", "map", 0, ["usize", "char"], "u32"),
    t_closure("index_to_alpha_step", COORD, "index_to_alpha", "successors", 0, ["u32"], ("opt", "u32")),
    t_closure("index_to_alpha_digit", COORD, "index_to_alpha", "map", 0, ["u32"], "u32"),
    # C14 / C15
    t_const("crypt_encryption_info_prefix", CRYPT, "ENCRYPTION_INFO_PREFIX"),
    t_const("crypt_package_encryption_chunk_size", CRYPT, "PACKAGE_ENCRYPTION_CHUNK_SIZE"),
    t_const("crypt_package_offset", CRYPT, "PACKAGE_OFFSET"),
    t_const("crypt_block_keys_data_integrity_hmac_key", CRYPT, "BLOCK_KEYS_DATA_INTEGRITY_HMAC_KEY"),
    t_const("crypt_block_keys_data_integrity_hmac_value", CRYPT, "BLOCK_KEYS_DATA_INTEGRITY_HMAC_VALUE"),
    t_const("crypt_block_keys_key", CRYPT, "BLOCK_KEYS_KEY"),
    t_const("crypt_block_verifier_hash_input", CRYPT, "BLOCK_VERIFIER_HASH_INPUT"),
    t_const("crypt_block_verifier_hash_value", CRYPT, "BLOCK_VERIFIER_HASH_VALUE"),
    t_let_literals("crypt_encrypt_literals", CRYPT, [("encrypt_parts", v) for v in
                   ("package_hash_algorithm", "package_hash_size", "package_block_size", "key_hash_algorithm", "key_hash_size", "key_block_size",
                    "key_spin_count", "key_key_bits", "package_cipher_algorithm", "package_cipher_chaining", "key_cipher_algorithm", "key_cipher_chaining")]),
    # C05: number-format id allocation (state passing for `&mut self`; the HashMap is the list of its entries in iteration order)
    t_record("NumberingFormat", NFMT),
    t_fn("numbering_formats_set_numbering_format", NFMTS, "set_numbering_format", self_type="NumberingFormats", mut_self=True,
         records={"NumberingFormat": NFMT}),
    t_fn("numbering_formats_set_style", NFMTS, "set_style", self_type="NumberingFormats", mut_self=True, records={"NumberingFormat": NFMT},
         param_subst={"style": [("style_numbering_format", ("opt", ("rec", "NumberingFormat")))]},
         extern_getters={("style", "get_numbering_format"): ("style_numbering_format", ("opt", ("rec", "NumberingFormat")))},
         extern_methods={("rec", "get_hash_code"): ("get_hash_code", [], "str", False)},
         self_methods={"set_numbering_format": ("numbering_formats_set_numbering_format", [("rec", "NumberingFormat")])},
         local_types={"id": "u32"}, narrowing_casts=True),
    t_let_literals("crypt_protection_literals", CRYPT, [(f, v) for f in ("encrypt_sheet_protection", "encrypt_workbook_protection", "encrypt_revisions_protection")
                                                        for v in ("key_hash_algorithm", "key_spin_count")]),
]

# C14 / C15: the functions of src/helper/crypt.rs.  Byte buffers (`Vec<u8>`, `&[u8]`) are `List UInt8`; `Result<T, E>` is `Option T` (the error
# value is not represented: every caller unwraps); a function with a `&mut` parameter returns that parameter's final value; `hash`, `crypt`,
# `hmac`, `build_encryption_info` and base64 are externs (parameters of the generated definitions: the abstract primitives of the hand
# model); the k-th call of `gen_random_N()` in a function is `gen_random_N k` (explicit randomness, in the order of the draws).
BYTES = ("list", "byte")
CK = dict(u8_bytes=True, inline_int_lets=True, emit_sig=True)
C_HASH = {"hash": ("crypt_hash", ["str", ("list", BYTES)], ("res", BYTES), False)}
DIGEST = ("abs", "(List UInt8)")          # the state of a `Sha512` hasher: not a type parameter, operated on by externs only
X_CRYPT = {"crypt": (["bool", "str", "str", BYTES, BYTES, BYTES], ("res", BYTES), False)}
X_HMAC = {"hmac": (["str", BYTES, ("list", BYTES)], ("res", BYTES), False)}
C_INFO = {"build_encryption_info": ("crypt_build_encryption_info", [BYTES, "usize", "usize", "usize", "str", "str", "str", BYTES, BYTES, "usize", BYTES,
                                     "usize", "usize", "usize", "str", "str", "str", BYTES, BYTES, BYTES], BYTES, False)}
XMLW = ("abs", "W")
ATTRS = ("list", ("tuple", ["str", "str"]))
C_SLICE = {"buffer_slice": ("crypt_buffer_slice", [BYTES, "usize", "usize"], BYTES, True)}
C_ALLOC = {"buffer_alloc": ("crypt_buffer_alloc", ["byte", "usize"], BYTES, False)}
C_CONCAT = {"buffer_concat": ("crypt_buffer_concat", [("list", BYTES)], BYTES, False)}
C_COPY = {"buffer_copy": ("crypt_buffer_copy", [BYTES, BYTES], "unit", True, 0)}
C_WRITE32 = {"buffer_write_u_int32_le": ("crypt_buffer_write_u_int32_le", [BYTES, "u32", "usize"], "unit", True, 0)}
C_READ32 = {"buffer_read_u_int32_le": ("crypt_buffer_read_u_int32_le", [BYTES, "usize"], "u32", True)}
C_LE32 = {"create_uint32_le_buffer": ("crypt_create_uint32_le_buffer", ["u32", ("opt", "usize")], BYTES, True)}
C_PWHASH = {"convert_password_to_hash": ("crypt_convert_password_to_hash", ["str", "str", BYTES, "usize"], BYTES, True)}
C_PWKEY = {"convert_password_to_key": ("crypt_convert_password_to_key", ["str", "str", BYTES, "usize", "usize", BYTES], BYTES, True)}
C_IV = {"create_iv": ("crypt_create_iv", ["str", BYTES, "usize", BYTES], BYTES, True)}
C_PACKAGE = {"crypt_package": ("crypt_crypt_package", ["bool", "str", "str", "str", "usize", BYTES, BYTES, BYTES], BYTES, True)}
PROT = {"SheetProtection": "src/structs/sheet_protection.rs", "WorkbookProtection": "src/structs/workbook_protection.rs"}
SETTER = dict(CK, calls=C_PWHASH, extern_draws={"gen_random_16": BYTES}, extern_var_fns={("STANDARD", "encode"): ("b64", [BYTES], "str")}, objects=PROT)

TARGETS += [
    t_fn("crypt_buffer_slice", CRYPT, "buffer_slice", **CK),
    t_fn("crypt_buffer_alloc", CRYPT, "buffer_alloc", **CK),
    t_fn("crypt_buffer_concat", CRYPT, "buffer_concat", **CK),
    t_fn("crypt_buffer_copy", CRYPT, "buffer_copy", **CK),
    t_fn("crypt_buffer_write_u_int32_le", CRYPT, "buffer_write_u_int32_le", **CK),
    t_fn("crypt_buffer_read_u_int32_le", CRYPT, "buffer_read_u_int32_le", **CK),
    t_fn("crypt_create_uint32_le_buffer", CRYPT, "create_uint32_le_buffer", calls=dict(C_ALLOC, **C_WRITE32), **CK),
    t_fn("crypt_hash", CRYPT, "hash", calls=C_CONCAT, extern_ctors={("Sha512", "new"): ("sha512_new", DIGEST)},
         extern_mut_methods={("abs", "update"): ("sha512_update", [BYTES])}, extern_methods={("abs", "finalize"): ("sha512_finalize", [], BYTES, False)}, **CK),
    t_fn("crypt_convert_password_to_hash", CRYPT, "convert_password_to_hash", calls=dict(C_LE32, **C_HASH), **CK),
    t_fn("crypt_encrypt_sheet_protection", CRYPT, "encrypt_sheet_protection", **SETTER),
    t_fn("crypt_encrypt_workbook_protection", CRYPT, "encrypt_workbook_protection", **SETTER),
    t_fn("crypt_encrypt_revisions_protection", CRYPT, "encrypt_revisions_protection", **SETTER),
    t_fn("crypt_convert_password_to_key", CRYPT, "convert_password_to_key", calls=dict(C_LE32, **C_ALLOC, **C_COPY, **C_SLICE, **C_HASH), **CK),
    t_fn("crypt_create_iv", CRYPT, "create_iv", calls=dict(C_ALLOC, **C_COPY, **C_SLICE, **C_HASH), **CK),
    t_fn("crypt_crypt_package", CRYPT, "crypt_package", calls=dict(C_SLICE, **C_ALLOC, **C_CONCAT, **C_LE32, **C_IV, **C_READ32), extern_fns=X_CRYPT,
         while_fuel="input.len() + 1", **CK),
    t_fn("crypt_build_encryption_info", CRYPT, "build_encryption_info", calls=C_CONCAT, abstract_types={"Writer": "W"}, xml_writer=True,
         extern_ctors={("Writer", "new"): ("xml_new", XMLW)},
         extern_mut_fns={"write_new_line": ("xml_new_line", [XMLW], 0), "write_start_tag": ("xml_start_tag", [XMLW, "str", ATTRS, "bool"], 0),
                         "write_end_tag": ("xml_end_tag", [XMLW, "str"], 0)},
         extern_var_fns={("STANDARD", "encode"): ("b64", [BYTES], "str")}, const_files=["src/helper/const_str.rs"], **CK),
    t_fn("crypt_encrypt_parts", CRYPT, "encrypt_parts", calls=dict(C_PACKAGE, **C_IV, **C_PWKEY, **C_HASH, **C_INFO), abstract_types={"Writer": "W"},
         extern_fns=dict(X_CRYPT, **X_HMAC),
         extern_draws={"gen_random_16": BYTES, "gen_random_32": BYTES, "gen_random_64": BYTES}, **CK),
]

# C17 / C15: object-level glue.  `Coordinate` = two records (number + lock flag) threaded as state; `index_from_coordinate` (regex-based, tied
# by C17_regex_matches_source / behaviour) and `coordinate_from_index_with_lock` (translated above) are parameters.  The protection structs:
# every field is a value holder (`StringValue` / `UInt32Value` / `BooleanValue` = a record with one `Option` field), all threaded as state,
# so that "touches its own field only" is visible in the generated definition.
COORDS = "src/structs/coordinate.rs"
COLREF = "src/structs/column_reference.rs"
ROWREF = "src/structs/row_reference.rs"
REFS = {"ColumnReference": COLREF, "RowReference": ROWREF}
OB, OU = ("opt", "bool"), ("opt", "u32")
SHEETP, BOOKP = "src/structs/sheet_protection.rs", "src/structs/workbook_protection.rs"
HOLDERS = {"StringValue": "src/structs/string_value.rs", "UInt32Value": "src/structs/u_int32_value.rs", "BooleanValue": "src/structs/boolean_value.rs"}
SHEET_FLAGS = ["sheet", "objects", "delete_rows", "insert_columns", "delete_columns", "insert_hyperlinks", "auto_filter", "scenarios", "format_cells",
               "format_columns", "insert_rows", "format_rows", "pivot_tables", "select_locked_cells", "select_unlocked_cells", "sort"]
BOOK_FLAGS = ["lock_revision", "lock_structure", "lock_windows"]

TARGETS += [
    t_record("ColumnReference", COLREF),
    t_record("RowReference", ROWREF),
    t_fn("coordinate_set_coordinate", COORDS, "set_coordinate", self_type="Coordinate", mut_self=True, records=REFS, str_generics=["S"],
         extern_fns={"index_from_coordinate": (["str"], ("tuple", [OU, OU, OB, OB]), False)}),
    t_fn("coordinate_get_coordinate", COORDS, "get_coordinate", self_type="Coordinate", records=REFS,
         extern_fns={"coordinate_from_index_with_lock": (["u32", "u32", "bool", "bool"], "str", True)}),
    t_record("StringValue", HOLDERS["StringValue"]),
    t_record("UInt32Value", HOLDERS["UInt32Value"]),
    t_record("BooleanValue", HOLDERS["BooleanValue"]),
] + [t_fn("sheet_protection_set_" + f, SHEETP, "set_" + f, self_type="SheetProtection", mut_self=True, records=HOLDERS) for f in SHEET_FLAGS] \
  + [t_fn("workbook_protection_set_" + f, BOOKP, "set_" + f, self_type="WorkbookProtection", mut_self=True, records=HOLDERS) for f in BOOK_FLAGS]

HEADER = ("/-\n  GENERATED by tools/extract_fns.py from the current source of /repo — do not edit.\n"
          "  Functions, closures, fragments and constants compiled from a first-order Rust fragment (see the tool's doc string).\n-/\n"
          "import Umya.Model.GenPrelude\nnamespace Umya.Gen\nset_option linter.unusedVariables false\n\n")


def main():
    old = open(OUT).read() if os.path.exists(OUT) else ""
    cache = {}
    def sources(path):
        if path not in cache:
            cache[path] = SourceFile(path, open(os.path.join(REPO, path)).read())
        return cache[path]
    parts, extracted, fallbacks = [], [], []
    for name, build in TARGETS:
        try:
            txt = build(sources)
            extracted.append(name)
        except Exception as ex:
            m = re.search(r"-- BEGIN " + re.escape(name) + r"\n(.*?)-- END " + re.escape(name) + r"\n", old, re.S)
            txt = m.group(1) if m else None
            if txt is not None:
                hd = re.search(r"^def " + re.escape(name) + r"\b([^\n]*)", txt, re.M)
                if hd: SIGS[name] = {"F": "[RFloat F]" in hd.group(1), "C": "(C : Chrono)" in hd.group(1), "mon": None,
                                     "plain": "[RFloat F]" not in hd.group(1) and "(C : Chrono)" not in hd.group(1) and "→" not in hd.group(1).split(" : ")[0] and ": Option" not in hd.group(1)}
                sg = re.search(r"^-- SIG (.*)$", txt, re.M)
                if hd and sg:
                    sj = json.loads(sg.group(1))
                    SIGS[name].update({"mon": sj["mon"], "extra": [tuple(x) for x in sj["extra"]], "abs": sj.get("abs", [])})
                    if sj["mon"] or sj["extra"] or sj.get("abs"): SIGS[name]["plain"] = False
            fallbacks.append({"function": name, "reason": (type(ex).__name__ + ": " + str(ex))[:200], "snapshot_kept": bool(m)})
        if txt is not None:
            parts.append(f"-- BEGIN {name}\n{txt}-- END {name}\n")
    text = HEADER + "\n".join(parts) + "\nend Umya.Gen\n"
    if text != old:
        os.makedirs(os.path.dirname(OUT), exist_ok=True)
        open(OUT, "w").write(text)
    print(json.dumps({"functions_extracted": extracted, "fallbacks": fallbacks, "changed": text != old}))


if __name__ == "__main__":
    main()
