#!/bin/bash
# re-runs the own check of every seeded change in scratch workspaces, LANES at a time (default 3): one line per change.
# usage: tools/rerun_seeded_ws.sh [LANES] [pattern]     (results: seeded/<name>/result.json)
LANES="${1:-3}"; PAT="${2:-C}"
cd /verif
ls -d seeded/${PAT}* | awk -v L=$LANES '{print (NR-1)%L, $0}' > /var/tmp/seed_lanes.txt
for l in $(seq 0 $((LANES-1))); do
  ( first=1
    for d in $(awk -v l=$l '$1==l {print $2}' /var/tmp/seed_lanes.txt); do
      # the workspace copy of /verif is refreshed once per lane (so that /verif may be edited while the lanes run)
      r=$(SEEDED_REFRESH=$first tools/run_seeded_ws.py $((92+l)) $d 2>&1 | tail -1 | cut -c1-200)
      first=0
      echo "$(basename $d): $r"
    done ) &
done
wait
