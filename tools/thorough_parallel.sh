export CARGO_TARGET_DIR=$PWD/.cache/target UMYA_TARGET=$PWD/.cache/target UMYA_REPO=$VP_RUN_REPO
sed -i "s#path = \"/repo\"#path = \"$VP_RUN_REPO\"#" harness/Cargo.toml
./check --setup >/dev/null 2>&1
run() { for id in "$@"; do ./check $id --tier thorough > thorough_$id.out 2>&1; echo "$id rc=$? $(tail -1 thorough_$id.out | cut -c1-200)"; grep -h "VIOLATION" thorough_$id.out | head -3; done; }
run C16 C19 C15 &
run C11 C13 C14 C02 C03 C04 C18 &
run C05 C06 C01 C07 C08 C09 C10 C12 C17 C20 &
wait
