/-
  One-off measurement (not part of ./check): how many worksheet parts of the C03 request stream satisfy the
  hypothesis `validSheetData` of theorem C03_sheet, and which conjunct fails otherwise.
  Usage: cd lean && lake env lean --run ../tools/oneoff/C03ValidCount.lean <ops.txt> [maxCases]
-/
import Umya.Thm.C03Sheet
import Umya.Driver.C03
open Umya.Spec.Xml Umya.Spec.Sml Umya.Reader Umya.Reader.Lemmas Umya.Thm.C03 Umya.Proto
open Umya.Driver.C02 (stripBom)

def conjuncts (sis rows : List Node) : String :=
  let a := rows.all (fun r => (r.kids "c").all (validCell sis))
  let b := validPositions (sis.map rstText) rows
  let c := groupsOk [] (specFilled (sis.map rstText) 0 rows)
  let d := mastersCarryRef rows
  s!"{if a then "" else "cells "}{if b then "" else "positions "}{if c then "" else "groups "}{if d then "" else "ref "}"

def main (args : List String) : IO Unit := do
  let path := args.head!
  let maxCases := (args.drop 1).head?.bind String.toNat? |>.getD 1000000
  let lines := (← IO.FS.readFile path).splitOn "\n"
  let mut parts : List (String × Node) := []
  let mut hdr := ""
  let mut cases := 0
  let mut sheets := 0
  let mut valid := 0
  let mut withGroups := 0
  let mut validWithGroups := 0
  let mut reasons : List String := []
  for l in lines do
    match l.splitOn " " with
    | "c03" :: "reset" :: rest =>
      hdr := " ".intercalate rest
      parts := []
      cases := cases + 1
      if cases > maxCases then break
    | ["c03", "part", nameHex, "1", dataHex] =>
      match decodeStr nameHex, hexDecodeBytes (if dataHex = "-" then "" else dataHex) with
      | some name, some bytes =>
        match String.fromUTF8? bytes with
        | some s => match parse (stripBom s.toList) with
          | some t => parts := parts ++ [(String.ofList name, t)]
          | none => pure ()
        | none => pure ()
      | _, _ => pure ()
    | ["c03", "decode"] =>
      let sis := ((parts.find? (fun p => localName p.2.name = "sst".toList)).map (·.2.kids "si")).getD []
      for (n, root) in parts do
        if localName root.name = "worksheet".toList then
          let rows := ((root.kid? "sheetData").map (·.kids "row")).getD []
          sheets := sheets + 1
          let g := (specFilled (sis.map rstText) 0 rows).any (·.shared.isSome)
          if g then withGroups := withGroups + 1
          if validSheetData sis rows then
            valid := valid + 1
            if g then validWithGroups := validWithGroups + 1
          else reasons := reasons ++ [s!"{hdr} {n}: {conjuncts sis rows}"]
    | _ => pure ()
  IO.println s!"cases={cases} sheets={sheets} validSheetData={valid} with-shared-groups={withGroups} valid-with-shared-groups={validWithGroups}"
  for r in reasons.take 60 do IO.println r
