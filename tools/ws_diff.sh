#!/bin/bash
# diff of a worker workspace against the /verif commit it was copied from (worktree /var/tmp/base):  ws_diff.sh <N> > patch
N="$1"
cd /var/tmp
diff -ruN --exclude=.git --exclude=.cache --exclude=.lake --exclude=replays --exclude=evidence --exclude=__pycache__ --exclude='*.pyc' \
  --exclude=DESIGN.md --exclude=MANIFEST.json --exclude=Cargo.lock --exclude=config.toml --exclude=Cargo.toml base w$N/verif \
  | sed -e "s#^--- base/#--- a/#" -e "s#^+++ w$N/verif/#+++ b/#" -e "s#^diff -ruN .* base/\(.*\) w$N/verif/.*#diff --git a/\1 b/\1#"
