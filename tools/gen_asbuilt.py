#!/usr/bin/env python3
"""Regenerates the tables of DESIGN.md section 0 (between the ASBUILT markers) from MANIFEST.json,
known_findings.json, evidence/*.json and seeded/*/{meta,result,cross}.json."""
import json, os, re, glob, subprocess
ROOT = os.path.dirname(os.path.dirname(os.path.abspath(__file__)))
j = lambda p: json.load(open(os.path.join(ROOT, p)))
man = j("MANIFEST.json")
known = j("known_findings.json")
out = []
w = out.append

def cell(s, n=400):
    s = re.sub(r"\s+", " ", str(s)).replace("|", "\\|")
    return s if len(s) <= n else s[: n - 1] + "…"

w("### 0.2 Per property: what decides it (generated)\n")
w("| id | level | theorems audited | requests compared (quick) | known findings | fixes in /repo |")
w("|---|---|---|---|---|---|")
for c in man["checks"]:
    pid = c["property_id"]
    ev = {}
    try:
        ev = j(f"evidence/{pid}.json")
    except Exception:
        pass
    cov = ev.get("coverage", {})
    kf = [f["id"] for f in known["findings"] if f["property"] == pid]
    fx = [f["commit"] for f in known["fixed"] if f["property"] == pid]
    w(f"| {pid} | {c['level_claimed']['category']} | {cov.get('discharged','?')}/{cov.get('obligations','?')} | {cov.get('evaluations','?')} ({ev.get('tier','?')}) | {', '.join(kf) or '–'} | {', '.join(fx) or '–'} |")
w("")
w("### 0.3 Genuine defects repaired in /repo (`fix:` commits; generated from known_findings.json)\n")
w("| property | commit | what failed before |")
w("|---|---|---|")
for f in known["fixed"]:
    w(f"| {f['property']} | {f['commit']} | {cell(f['what'], 300)} |")
w("")
w("### 0.4 Genuine defects recorded, not repaired (known findings; generated)\n")
w("| id | what fails | why not repaired |")
w("|---|---|---|")
for f in known["findings"]:
    w(f"| {f['id']} | {cell(f.get('what', ''), 320)} | {cell(f.get('why_not_fixed', f.get('why', '')), 240)} |")
w("")
w("### 0.5 Seeded changes: which checks catch which (generated)\n")
w("Each change was produced by a sub-agent that saw only the property text and a scratch worktree, and was confirmed by "
  "`tools/confirm_seeded.sh` (existing suite passes with it; its demonstration fails with it and passes without it). "
  "`own check` = the quick tier of the property's own check run with the change applied to /repo; `also caught by` = quick tiers of "
  "the other fast checks (C01–C10, C12, C17, C20) that exit 1 on it (`tools/cross_seeded.sh`).\n")
w("| change | what it breaks / what it needs | own check | also caught by |")
w("|---|---|---|---|")
for d in sorted(glob.glob(os.path.join(ROOT, "seeded", "C*"))):
    sid = os.path.basename(d)
    meta = json.load(open(os.path.join(d, "meta.json")))
    res = {}
    cross = {}
    if os.path.exists(os.path.join(d, "result.json")):
        res = json.load(open(os.path.join(d, "result.json")))["results"]
    if os.path.exists(os.path.join(d, "cross.json")):
        cross = json.load(open(os.path.join(d, "cross.json")))["results"]
    own = res.get(meta["property"], {})
    own_s = ("caught: " + cell(own.get("summary", ""), 120).split(":", 1)[-1].strip()) if own.get("caught") else "MISSED"
    if meta.get("strengthened"):
        own_s += " (after strengthening: " + cell(meta["strengthened"], 160) + ")"
    also = [k for k, v in cross.items() if v.get("caught")]
    w(f"| {sid} | {cell(meta.get('what_breaks',''), 260)} — needs: {cell(meta.get('needs_to_manifest',''), 200)} | {own_s} | {', '.join(also) or '–'} |")
w("")
w("### 0.5b Behaviour-preserving changes: which checks stay quiet (generated)\n")
w("Each set is six refactors by a sub-agent that saw only the crate (swapped branches, early returns, loops <-> iterator chains, "
  "hoisted locals, entry() API, commuted operands, literal spellings; files listed per change in `benign/<set>/meta.json`), confirmed "
  "against the crate's own suite; `tools/run_benign_ws.py` applies `all.diff` in a scratch workspace and runs the quick tier of ALL "
  "checks: every check is expected to exit 0.\n")
w("| set | files | checks quiet | alarms |")
w("|---|---|---|---|")
for d in sorted(glob.glob(os.path.join(ROOT, "benign", "*"))):
    if not os.path.exists(os.path.join(d, "result.json")):
        continue
    meta = json.load(open(os.path.join(d, "meta.json")))
    res = json.load(open(os.path.join(d, "result.json")))["results"]
    files = ", ".join(sorted({m.get("file", "?") for m in meta}))
    quiet = [k for k, v in res.items() if not v.get("alarm")]
    alarms = [k for k, v in res.items() if v.get("alarm")]
    w(f"| {os.path.basename(d)} | {cell(files, 300)} | {len(quiet)}/{len(res)} | {', '.join(alarms) or '–'} |")
w("")
text = "\n".join(out)
p = os.path.join(ROOT, "DESIGN.md")
s = open(p).read()
b, e = "<!-- ASBUILT:BEGIN -->", "<!-- ASBUILT:END -->"
if b in s and e in s:
    s = s[: s.index(b) + len(b)] + "\n" + text + "\n" + s[s.index(e):]
    open(p, "w").write(s)
    print("DESIGN.md tables regenerated")
else:
    print(text)
