#!/bin/bash
# runs the fast checks of every OTHER property against every seeded change (which checks catch which change);
# result in seeded/<ID>/cross.json. /repo must be clean; nothing else may run checks meanwhile.
cd /verif
FAST="C01 C02 C03 C04 C05 C06 C07 C08 C09 C10 C12 C17 C20"
for d in seeded/C*; do
  id=$(basename $d)
  others=$(for f in $FAST; do [ "$f" != "$id" ] && echo -n "$f "; done)
  SEEDED_OUT=cross.json tools/run_seeded.py $d $others 2>&1 | grep CAUGHT | awk -v m=$id '{printf "%s<-%s ", m, $1}'
  echo
done
