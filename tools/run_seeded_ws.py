#!/usr/bin/env python3
"""Run checks against one seeded change in a scratch workspace instead of /repo itself:
    tools/run_seeded_ws.py <N> <seeded-dir> [<check-id> ...]
Uses (and creates on first use, tools/mk_workspace.sh) /var/tmp/w<N>/{verif,repo}: a copy of the CURRENT /verif and a
git worktree of /repo's HEAD.  The change is applied to that worktree, the named checks (default: the property in
meta.json) run at the quick tier with UMYA_REPO / UMYA_TARGET pointing there, the worktree is restored, and the outcome
is recorded in <seeded-dir>/result.json.  /repo and /verif/evidence are never touched, so several of these (different N)
and the ordinary checks can run at the same time."""
import sys, os, json, subprocess, time
ROOT = os.path.dirname(os.path.dirname(os.path.abspath(__file__)))
n = sys.argv[1]
d = os.path.abspath(sys.argv[2])
meta = json.load(open(os.path.join(d, "meta.json")))
ids = sys.argv[3:] or [meta["property"]]
W = f"/var/tmp/w{n}"
fresh = os.environ.get("SEEDED_REFRESH", "1") == "1"
if fresh or not os.path.isdir(W + "/verif"):
    subprocess.run([os.path.join(ROOT, "tools", "mk_workspace.sh"), n], check=True, capture_output=True)
repo = W + "/repo"
subprocess.run(["git", "-C", repo, "checkout", "-q", "--detach", subprocess.run(["git", "-C", "/repo", "rev-parse", "HEAD"], capture_output=True, text=True).stdout.strip()])
subprocess.run(["git", "-C", repo, "checkout", "--", "."])
r = subprocess.run(["git", "-C", repo, "apply", os.path.join(d, "patch.diff")], capture_output=True, text=True)
if r.returncode != 0:
    sys.exit("patch does not apply: " + r.stderr[:500])
env = dict(os.environ, UMYA_REPO=repo, UMYA_TARGET=W + "/target", CARGO_NET_OFFLINE="true")
results = {}
try:
    for pid in ids:
        t0 = time.time()
        p = subprocess.run([W + "/verif/check", pid, "--tier", "quick"], cwd=W + "/verif", capture_output=True, text=True, env=env)
        lines = [l for l in p.stdout.splitlines() if l.startswith("VIOLATION") or l.startswith("KNOWN-FINDING")]
        results[pid] = {"exit": p.returncode, "caught": p.returncode == 1 and any(l.startswith("VIOLATION") for l in lines),
                        "lines": [l[:300] for l in lines][:6], "summary": p.stderr.strip().splitlines()[-1][:300] if p.stderr.strip() else "",
                        "wall_s": round(time.time() - t0, 1)}
finally:
    subprocess.run(["git", "-C", repo, "checkout", "--", "."])
json.dump({"ran": ids, "results": results, "at": time.strftime("%Y-%m-%dT%H:%M:%SZ", time.gmtime()), "where": "scratch workspace (tools/run_seeded_ws.py)"},
          open(os.path.join(d, os.environ.get("SEEDED_OUT", "result.json")), "w"), indent=1)
for pid, r in results.items():
    print(pid, "CAUGHT" if r["caught"] else "missed", r["exit"], r["summary"][:160])
