#!/bin/bash
# Creates an isolated workspace /var/tmp/w<N> for developing one property:
#   /var/tmp/wN/verif  — copy of /verif (no .git, own .cache)
#   /var/tmp/wN/repo   — git worktree of /repo (detached HEAD)
# The copy's harness points at the worktree; `UMYA_REPO` / `UMYA_TARGET` are baked into env.sh.
set -e
N="$1"; W=/var/tmp/w$N
rm -rf "$W/verif"; mkdir -p "$W"
if [ ! -d "$W/repo" ]; then git -C /repo worktree add --detach "$W/repo" HEAD >/dev/null; fi
rsync -a --exclude .git --exclude .cache --exclude replays /verif/ "$W/verif/"
mkdir -p "$W/verif/.cache"
sed -i "s#path = \"/repo\"#path = \"$W/repo\"#" "$W/verif/harness/Cargo.toml"
sed -i "s#target-dir = \"/verif/.cache/target\"#target-dir = \"$W/target\"#" "$W/verif/harness/.cargo/config.toml"
cat > "$W/env.sh" <<EOT
export UMYA_REPO=$W/repo
export UMYA_TARGET=$W/target
export CARGO_NET_OFFLINE=true
EOT
echo "$W"
