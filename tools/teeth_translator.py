#!/usr/bin/env python3
"""Robustness campaign for the translator obligations (the `…_match(es)_source` proofs).

Every patch `tools/benign_translator/<target>/<name>.diff` is a change of the Rust source in $UMYA_REPO:
    b<k>.diff    behaviour-preserving rewrite  -> the proof must still go through (or the function must fall back
                                                  to the snapshot with a reason); a FAILED proof is a false alarm
    s<k>.diff    semantic change               -> the proof must FAIL (teeth)
Lines in front of the first `diff --git` line are metadata (`# what: …`, `# modules: A B`, `# expect: pass|fallback|fail`).

For each patch: `git apply`, run the four extractors (extract.py, extract_tables.py, extract_fns.py [, optionally
`cargo check`]), `lake build <modules>`, record  pass / fallback / FAIL, `git apply -R`.  At the end the generated
files are regenerated from the unchanged tree.

    tools/teeth_translator.py --all                      every patch
    tools/teeth_translator.py --target translate_part    the patches of one target (prefix match)
    tools/teeth_translator.py --only translate_part/b2   one patch
    tools/teeth_translator.py --regen                    (re)write the .diff files from tools/benign_translator/specs.py
    tools/teeth_translator.py --report                   write tools/teeth_translator_report.md from results.json
    --cargo    also `cargo check` the patched crate (the rewrite is valid Rust)
Results accumulate in tools/benign_translator/results.json."""
import os, sys, json, subprocess, time, re, glob, importlib.util

ROOT = os.path.dirname(os.path.dirname(os.path.abspath(__file__)))
REPO = os.environ.get("UMYA_REPO", "/repo")
LEAN = os.path.join(ROOT, "lean")
BT = os.path.join(ROOT, "tools", "benign_translator")
RESULTS = os.path.join(BT, "results.json")
EXTRACTORS = ["extract.py", "extract_tables.py", "extract_fns.py"]


def sh(cmd, **kw):
    return subprocess.run(cmd, capture_output=True, text=True, **kw)


def run_extractors():
    """-> (fallbacks, seconds, errors)"""
    t0 = time.time()
    fallbacks, errors = [], []
    for x in EXTRACTORS:
        p = sh([sys.executable, os.path.join(ROOT, "tools", x)], env=dict(os.environ, UMYA_REPO=REPO))
        try:
            info = json.loads(p.stdout.strip().splitlines()[-1])
            for f in info.get("fallbacks", []):
                fallbacks.append({"name": f.get("function") or f.get("item"), "reason": f.get("reason", "")})
        except Exception:
            errors.append(f"{x}: {(p.stdout + p.stderr)[-400:]}")
    return fallbacks, round(time.time() - t0, 2), errors


def load_specs():
    spec = importlib.util.spec_from_file_location("bt_specs", os.path.join(BT, "specs.py"))
    m = importlib.util.module_from_spec(spec); spec.loader.exec_module(m)
    return m.SPECS


def clean_tree():
    return sh(["git", "-C", REPO, "status", "--porcelain", "--untracked-files=no"]).stdout.strip() == ""


def regen():
    """write the .diff files from the textual edits of specs.py"""
    if not clean_tree(): sys.exit("repo worktree is not clean")
    n = 0
    for s in load_specs():
        touched = []
        if s.get("patch_file"):
            d = open(os.path.join(ROOT, s["patch_file"])).read()
            s = dict(s, edits=[])
        try:
            for path, old, new in s["edits"]:
                full = os.path.join(REPO, path)
                txt = open(full).read()
                if txt.count(old) != 1:
                    raise SystemExit(f"{s['target']}/{s['name']}: edit text found {txt.count(old)} times in {path}: {old[:60]!r}")
                open(full, "w").write(txt.replace(old, new)); touched.append(path)
            if s["edits"]: d = sh(["git", "-C", REPO, "diff"]).stdout
        finally:
            for path in set(touched): sh(["git", "-C", REPO, "checkout", "--", path])
        os.makedirs(os.path.join(BT, s["target"]), exist_ok=True)
        kind = "semantic" if s["name"].startswith("s") else "benign"
        expect = s.get("expect", "fail" if kind == "semantic" else "pass")
        head = (f"# target: {s['target']}\n# kind: {kind}\n# what: {s['what']}\n"
                f"# modules: {' '.join(s['modules'])}\n# expect: {expect}\n")
        open(os.path.join(BT, s["target"], s["name"] + ".diff"), "w").write(head + d)
        n += 1
    print(f"{n} patch files written under {BT}")


def read_patch(path):
    meta = {}
    for line in open(path):
        if line.startswith("diff --git"): break
        m = re.match(r"# (\w+): (.*)", line)
        if m: meta[m.group(1)] = m.group(2).strip()
    meta["modules"] = meta.get("modules", "").split()
    return meta


def run_patch(path, cargo=False):
    meta = read_patch(path)
    rel = os.path.relpath(path, BT)[:-5]
    r = sh(["git", "-C", REPO, "apply", path])
    if r.returncode != 0:
        return {"patch": rel, "outcome": "patch-does-not-apply", "detail": r.stderr[-300:], **meta}
    try:
        fallbacks, t_x, errors = run_extractors()
        cargo_ok = None
        if cargo:
            c = sh(["cargo", "check", "--offline", "--quiet"], cwd=REPO, env=dict(os.environ, CARGO_TARGET_DIR=os.environ.get("UMYA_TARGET", "/tmp/tt-target") + "/tt"))
            cargo_ok = c.returncode == 0
            if not cargo_ok: errors.append("cargo check: " + c.stderr[-600:])
        t0 = time.time()
        b = sh(["lake", "build"] + meta["modules"], cwd=LEAN)
        t_b = round(time.time() - t0, 1)
        ok = b.returncode == 0
        err = ""
        if not ok:
            lines = [l for l in (b.stdout + b.stderr).splitlines() if "error" in l.lower()]
            err = " | ".join(lines[:3])[:500]
    finally:
        sh(["git", "-C", REPO, "apply", "-R", path])
        run_extractors()          # the generated files (= the snapshot a fallback keeps) are those of the unchanged tree again
    if ok and fallbacks: outcome = "fallback"
    elif ok: outcome = "pass"
    else: outcome = "FAIL"
    if cargo_ok is False: outcome = "invalid-rust"
    elif errors: outcome = "tool-error"
    return {"patch": rel, "outcome": outcome, "fallbacks": fallbacks, "extract_s": t_x, "build_s": t_b, "error": err,
            "tool_errors": errors, "cargo_ok": cargo_ok, **meta}


def verdict(r):
    exp, out = r.get("expect", "pass"), r["outcome"]
    if r.get("kind") == "semantic":
        return "teeth" if out == "FAIL" else ("fallback (tie rests on the correspondence stream)" if out == "fallback" else "NO-TEETH")
    if out == "pass": return "ok"
    if out == "fallback": return "ok (fallback)"
    return "FALSE-ALARM" if out == "FAIL" else out


def report():
    res = json.load(open(RESULTS))
    rows = sorted(res.values(), key=lambda r: r["patch"])
    out = ["# Translator obligations: robustness against behaviour-preserving rewrites, and teeth", "",
           "Generated by `tools/teeth_translator.py --report` from `tools/benign_translator/results.json`.",
           "`b*` = behaviour-preserving rewrite (proof must pass, or the item falls back to the snapshot); `s*` = semantic change (proof must FAIL).", "",
           "| target / patch | kind | what | outcome | fallbacks | build s | verdict |", "|---|---|---|---|---|---|---|"]
    for r in rows:
        fb = "; ".join(f"{f['name']}: {f['reason'][:60]}" for f in r.get("fallbacks", []))
        out.append(f"| {r['patch']} | {r.get('kind','')} | {r.get('what','')} | {r['outcome']} | {fb} | {r.get('build_s','')} | {verdict(r)} |")
    nb = [r for r in rows if r.get("kind") == "benign"]; ns = [r for r in rows if r.get("kind") == "semantic"]
    out += ["", f"benign: {len(nb)} ({sum(r['outcome']=='pass' for r in nb)} pass, {sum(r['outcome']=='fallback' for r in nb)} fallback, "
            f"{sum(r['outcome']=='FAIL' for r in nb)} false alarm); semantic: {len(ns)} ({sum(r['outcome']=='FAIL' for r in ns)} caught, "
            f"{sum(r['outcome']=='fallback' for r in ns)} fallback, {sum(r['outcome']=='pass' for r in ns)} missed)", ""]
    spec = importlib.util.spec_from_file_location("bt_specs", os.path.join(BT, "specs.py"))
    m = importlib.util.module_from_spec(spec); spec.loader.exec_module(m)
    out.append(getattr(m, "NOTES", ""))
    open(os.path.join(ROOT, "tools", "teeth_translator_report.md"), "w").write("\n".join(out))
    print("\n".join(out[-4:]))


def main():
    a = sys.argv[1:]
    if "--regen" in a: regen(); return
    if "--report" in a: report(); return
    cargo = "--cargo" in a
    patches = sorted(glob.glob(os.path.join(BT, "*", "*.diff")))
    if "--target" in a:
        t = a[a.index("--target") + 1]
        patches = [p for p in patches if os.path.basename(os.path.dirname(p)).startswith(t)]
    elif "--only" in a:
        t = a[a.index("--only") + 1]
        patches = [p for p in patches if os.path.relpath(p, BT)[:-5] == t]
    elif "--all" not in a:
        print(__doc__); return
    if not clean_tree(): sys.exit("repo worktree is not clean")
    res = json.load(open(RESULTS)) if os.path.exists(RESULTS) else {}
    bad = 0
    try:
        for p in patches:
            r = run_patch(p, cargo)
            res[r["patch"]] = r
            v = verdict(r)
            bad += v in ("FALSE-ALARM", "NO-TEETH") or r["outcome"] in ("patch-does-not-apply", "invalid-rust")
            print(f"{r['patch']:42s} {r['outcome']:9s} {v:14s} x={r.get('extract_s')}s b={r.get('build_s')}s  "
                  f"{'; '.join(f['name'] + ': ' + f['reason'][:70] for f in r.get('fallbacks', []))} {r.get('error', '')[:200]}", flush=True)
            json.dump(res, open(RESULTS, "w"), indent=1, sort_keys=True)
    finally:
        run_extractors()         # generated files back to the unchanged tree
    sys.exit(1 if bad else 0)


if __name__ == "__main__":
    main()
