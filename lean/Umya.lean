import Umya.Model.Coord
