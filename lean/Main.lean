import Umya.Driver.C17
import Umya.Driver.C10
import Umya.Driver.C07
import Umya.Driver.C20
import Umya.Driver.C12
import Umya.Driver.C16
import Umya.Driver.C18
import Umya.Driver.C13
import Umya.Driver.C19
import Umya.Driver.C09
import Umya.Driver.C08
import Umya.Driver.C14
import Umya.Driver.C15
import Umya.Driver.C02
import Umya.Driver.C02Sheet
import Umya.Driver.C02Pkg
import Umya.Driver.C05
import Umya.Driver.C11
import Umya.Driver.C03
import Umya.Driver.C06
import Umya.Driver.C01
import Umya.Driver.C04

structure DState where
  c10 : Umya.Driver.C10.St := {}
  c07 : Umya.Driver.C07.St := {}
  c20 : Umya.Driver.C20.State := {}
  c02 : Umya.Driver.C02.St := {}
  c05 : Umya.Driver.C05.St := {}
  c11 : Umya.Driver.C11.St := {}
  c03 : Umya.Driver.C03.St := {}
  c06 : Umya.Driver.C06.St := {}
  c01 : Umya.Driver.C01.St := {}

def dispatch (st : DState) (line : String) : DState × String :=
  match line.trimAscii.toString.splitOn " " with
  | "c17" :: args => (st, Umya.Driver.C17.handle args)
  | "c10" :: args => let (s, r) := Umya.Driver.C10.handle st.c10 args; ({ st with c10 := s }, r)
  | "c14" :: args => (st, Umya.Driver.C14.handle args)
  | "c15" :: args => (st, Umya.Driver.C15.handle args)
  | "c09" :: args => (st, Umya.Driver.C09.handle args)
  | "c08" :: args => (st, Umya.Driver.C08.handle args)
  | "c19" :: args => (st, Umya.Driver.C19.handle args)
  | "c13" :: args => (st, Umya.Driver.C13.handle args)
  | "c18" :: args => (st, Umya.Driver.C18.handle args)
  | "c16" :: args => (st, Umya.Driver.C16.handle args)
  | "c12" :: args => (st, Umya.Driver.C12.handle args)
  | "c20" :: args => let (s, r) := Umya.Driver.C20.handle st.c20 args; ({ st with c20 := s }, r)
  | "c04" :: args => (st, Umya.Driver.C04.handle args)
  | "c01" :: args => let (s, r) := Umya.Driver.C01.handle st.c01 args; ({ st with c01 := s }, r)
  | "c05" :: args => let (s, r) := Umya.Driver.C05.handle st.c05 args; ({ st with c05 := s }, r)
  | "c11" :: args => let (s, r) := Umya.Driver.C11.handle st.c11 args; ({ st with c11 := s }, r)
  | "c03" :: args => let (s, r) := Umya.Driver.C03.handle st.c03 args; ({ st with c03 := s }, r)
  | "c06" :: args => let (s, r) := Umya.Driver.C06.handle st.c06 args; ({ st with c06 := s }, r)
  | "c02" :: "sheetbridge" :: args => (st, Umya.Driver.C02Sheet.handle st.c02.parts args)
  | "c02" :: "pkgbridge" :: args => (st, Umya.Driver.C02Pkg.handle st.c02.parts args)
  | "c02" :: args => let (s, r) := Umya.Driver.C02.handle st.c02 args; ({ st with c02 := s }, r)
  | "c07" :: args => let (s, r) := Umya.Driver.C07.handle st.c07 args; ({ st with c07 := s }, r)
  | _ => (st, "bad-op")

partial def loop (hin : IO.FS.Stream) (hout : IO.FS.Stream) (st : DState) : IO Unit := do
  let line ← hin.getLine
  if line.isEmpty then return ()
  let (st', out) := dispatch st line
  hout.putStrLn out
  loop hin hout st'

def main : IO Unit := do
  let hin ← IO.getStdin
  let hout ← IO.getStdout
  loop hin hout {}
