import Umya.Driver.C17

def dispatch (line : String) : String :=
  match line.trimAscii.toString.splitOn " " with
  | "c17" :: args => Umya.Driver.C17.handle args
  | _ => "bad-op"

partial def loop (hin : IO.FS.Stream) (hout : IO.FS.Stream) : IO Unit := do
  let line ← hin.getLine
  if line.isEmpty then return ()
  hout.putStrLn (dispatch line)
  loop hin hout

def main : IO Unit := do
  let hin ← IO.getStdin
  let hout ← IO.getStdout
  loop hin hout
