/-
  An XML 1.0 (Fifth Edition) reader written from the W3C recommendation, independent of quick-xml
  and of the library's reader: character legality (production [2]), line-end normalisation (2.11),
  attribute-value normalisation (3.3.3), predefined entities and character references (4.1, 4.6),
  comments, processing instructions, CDATA sections, start/end/empty-element tags with
  well-formedness constraints (matching end tags, unique attributes, a single root element).
  Document type declarations and non-predefined entities are rejected (SpreadsheetML uses neither).

  The reader is a character state machine (`lexGo`, structural recursion on the input) producing
  tokens, followed by a stack machine (`build`) producing a tree.
-/
namespace Umya.Spec.Xml

abbrev Text := List Char

structure Attr where
  name : Text
  value : Text
  deriving Repr, DecidableEq, Inhabited

inductive Token where
  | open (name : Text) (attrs : List Attr) (empty : Bool)
  | close (name : Text)
  | text (s : Text)
  deriving Repr, DecidableEq, Inhabited

inductive Node where
  | elem (name : Text) (attrs : List Attr) (children : List Node)
  | text (s : Text)
  deriving Repr, Inhabited

/-- production [2] Char -/
def isXmlChar (c : Char) : Bool :=
  let n := c.toNat
  n = 0x9 || n = 0xA || n = 0xD || (0x20 ≤ n && n ≤ 0xD7FF) || (0xE000 ≤ n && n ≤ 0xFFFD) || (0x10000 ≤ n && n ≤ 0x10FFFF)

def isSpace (c : Char) : Bool := c = ' ' || c = '\t' || c = '\n' || c = '\r'

/-- NameStartChar (ASCII letters, `_`, `:` and everything ≥ U+00C0 except × ÷; a permissive reading) -/
def isNameStart (c : Char) : Bool :=
  c.isAlpha || c = '_' || c = ':' || (c.toNat ≥ 0xC0 && c.toNat ≠ 0xD7 && c.toNat ≠ 0xF7)

def isNameChar (c : Char) : Bool := isNameStart c || c.isDigit || c = '-' || c = '.' || c.toNat = 0xB7

def hexVal (c : Char) : Option Nat :=
  if '0' ≤ c ∧ c ≤ '9' then some (c.toNat - 48)
  else if 'a' ≤ c ∧ c ≤ 'f' then some (c.toNat - 87)
  else if 'A' ≤ c ∧ c ≤ 'F' then some (c.toNat - 55)
  else none

def parseNum (radix : Nat) (ds : List Char) : Option Nat :=
  if ds.isEmpty then none
  else ds.foldl (fun acc c => match acc, hexVal c with
    | some a, some d => if d < radix ∧ a < 0x110000 then some (a * radix + d) else none
    | _, _ => none) (some 0)

/-- Reference ::= EntityRef | CharRef: what stands between `&` and `;` -/
def resolveRef (pat : Text) : Option Text :=
  match pat with
  | '#' :: 'x' :: hex =>
    (parseNum 16 hex).bind fun n => if n.isValidChar ∧ isXmlChar (Char.ofNat n) then some [Char.ofNat n] else none
  | '#' :: dec =>
    (parseNum 10 dec).bind fun n => if n.isValidChar ∧ isXmlChar (Char.ofNat n) then some [Char.ofNat n] else none
  | _ =>
    if pat = "lt".toList then some ['<'] else if pat = "gt".toList then some ['>']
    else if pat = "amp".toList then some ['&'] else if pat = "apos".toList then some ['\'']
    else if pat = "quot".toList then some ['"'] else none

/-- expand references in character data / attribute values; `lit` says how a literal character
    is taken over (line-end and attribute-value normalisation apply to literals only) -/
def expandGo (lit : Char → Text) : Option Text → List Char → Option Text
  | none, [] => some []
  | some _, [] => none
  | none, c :: r => if c = '&' then expandGo lit (some []) r else (expandGo lit none r).map (lit c ++ ·)
  | some p, c :: r =>
    if c = ';' then (resolveRef p.reverse).bind fun v => (expandGo lit none r).map (v ++ ·)
    else if c = '&' ∨ c = '<' then none
    else expandGo lit (some (c :: p)) r

/-- 2.11: `\r\n` and lone `\r` become `\n` (done before anything else, on literal text) -/
def normalizeEol : List Char → List Char
  | '\r' :: '\n' :: r => '\n' :: normalizeEol r
  | '\r' :: r => '\n' :: normalizeEol r
  | c :: r => c :: normalizeEol r
  | [] => []

def textValue (raw : Text) : Option Text := expandGo (fun c => [c]) none (normalizeEol raw)

/-- 3.3.3 (CDATA attributes): literal white space becomes a space; referenced characters stay -/
def attrValue (raw : Text) : Option Text :=
  expandGo (fun c => if c = '\t' ∨ c = '\n' ∨ c = '\r' then [' '] else [c]) none (normalizeEol raw)

inductive Mode where
  | text (acc : Text)                                         -- reversed raw character data
  | lt                                                        -- just after `<`
  | startName (n : Text)
  | inTag (n : Text) (as : List Attr)                         -- between attributes
  | needSpace (n : Text) (as : List Attr)                     -- right after an attribute value
  | attrName (n : Text) (as : List Attr) (an : Text)
  | afterAttrName (n : Text) (as : List Attr) (an : Text)     -- spaces before `=`
  | beforeValue (n : Text) (as : List Attr) (an : Text)
  | attrVal (n : Text) (as : List Attr) (an : Text) (q : Char) (v : Text)
  | emptyClose (n : Text) (as : List Attr)                    -- saw `/`, need `>`
  | endName (n : Text)
  | endSpace (n : Text)
  | pi (q : Bool)                                             -- inside `<? … ?>`; q: previous char was `?`
  | bang (acc : Text)                                         -- after `<!`, deciding
  | comment (dashes : Nat)
  | cdata (acc : Text) (brackets : Nat)
  deriving Repr

def flushText (acc : Text) (rest : Option (List Token)) : Option (List Token) :=
  if acc.isEmpty then rest
  else match textValue acc.reverse, rest with
    | some t, some ts => some (Token.text t :: ts)
    | _, _ => none

def finishAttr (as : List Attr) (an v : Text) : Option (List Attr) :=
  if as.any (fun a => a.name = an.reverse) then none        -- WFC: unique attribute
  else match attrValue v.reverse with
    | some val => some (as ++ [⟨an.reverse, val⟩])
    | none => none

def lexGo : Mode → List Char → Option (List Token)
  | .text acc, [] => flushText acc (some [])
  | _, [] => none
  | m, c :: r =>
    if !isXmlChar c then none else
    match m with
    | .text acc =>
      if c = '<' then flushText acc (lexGo .lt r)
      else lexGo (.text (c :: acc)) r
    | .lt =>
      if c = '/' then lexGo (.endName []) r
      else if c = '?' then lexGo (.pi false) r
      else if c = '!' then lexGo (.bang []) r
      else if isNameStart c then lexGo (.startName [c]) r
      else none
    | .startName n =>
      if isNameChar c then lexGo (.startName (c :: n)) r
      else if isSpace c then lexGo (.inTag n.reverse []) r
      else if c = '>' then (lexGo (.text []) r).map (Token.open n.reverse [] false :: ·)
      else if c = '/' then lexGo (.emptyClose n.reverse []) r
      else none
    | .inTag n as =>
      if isSpace c then lexGo (.inTag n as) r
      else if c = '>' then (lexGo (.text []) r).map (Token.open n as false :: ·)
      else if c = '/' then lexGo (.emptyClose n as) r
      else if isNameStart c then lexGo (.attrName n as [c]) r
      else none
    | .needSpace n as =>
      if isSpace c then lexGo (.inTag n as) r
      else if c = '>' then (lexGo (.text []) r).map (Token.open n as false :: ·)
      else if c = '/' then lexGo (.emptyClose n as) r
      else none
    | .attrName n as an =>
      if isNameChar c then lexGo (.attrName n as (c :: an)) r
      else if c = '=' then lexGo (.beforeValue n as an) r
      else if isSpace c then lexGo (.afterAttrName n as an) r
      else none
    | .afterAttrName n as an =>
      if isSpace c then lexGo (.afterAttrName n as an) r
      else if c = '=' then lexGo (.beforeValue n as an) r
      else none
    | .beforeValue n as an =>
      if isSpace c then lexGo (.beforeValue n as an) r
      else if c = '"' ∨ c = '\'' then lexGo (.attrVal n as an c []) r
      else none
    | .attrVal n as an q v =>
      if c = q then
        match finishAttr as an v with
        | some as' => lexGo (.needSpace n as') r
        | none => none
      else if c = '<' then none
      else lexGo (.attrVal n as an q (c :: v)) r
    | .emptyClose n as =>
      if c = '>' then (lexGo (.text []) r).map (Token.open n as true :: ·) else none
    | .endName n =>
      if n.isEmpty then (if isNameStart c then lexGo (.endName [c]) r else none)
      else if isNameChar c then lexGo (.endName (c :: n)) r
      else if isSpace c then lexGo (.endSpace n.reverse) r
      else if c = '>' then (lexGo (.text []) r).map (Token.close n.reverse :: ·)
      else none
    | .endSpace n =>
      if isSpace c then lexGo (.endSpace n) r
      else if c = '>' then (lexGo (.text []) r).map (Token.close n :: ·)
      else none
    | .pi q =>
      if c = '>' ∧ q then lexGo (.text []) r
      else lexGo (.pi (c = '?')) r
    | .bang acc =>
      let acc' := c :: acc
      if acc'.reverse = "--".toList then lexGo (.comment 0) r
      else if acc'.reverse = "[CDATA[".toList then lexGo (.cdata [] 0) r
      else if acc'.length < 7 ∧ (("--".toList.take acc'.length = acc'.reverse) ∨ ("[CDATA[".toList.take acc'.length = acc'.reverse))
        then lexGo (.bang acc') r
      else none                                                -- DOCTYPE etc.: not accepted
    | .comment dashes =>
      if c = '-' then lexGo (.comment (dashes + 1)) r
      else if c = '>' ∧ dashes ≥ 2 then (if dashes = 2 then lexGo (.text []) r else none)   -- `--` inside a comment is an error
      else if dashes ≥ 2 then none
      else lexGo (.comment 0) r
    | .cdata acc br =>
      if c = ']' then lexGo (.cdata (c :: acc) (br + 1)) r
      else if c = '>' ∧ br ≥ 2 then
        -- the CDATA content is literal (no references); drop the two closing brackets
        let content := (acc.drop 2).reverse
        (lexGo (.text []) r).map (fun ts => if content.isEmpty then ts else Token.text (normalizeEol content) :: ts)
      else lexGo (.cdata (c :: acc) 0) r

def lex (s : List Char) : Option (List Token) := lexGo (.text []) s

/-! ## tokens → tree -/

structure Frame where
  name : Text
  attrs : List Attr
  kids : List Node            -- reversed
  deriving Inhabited

def isBlank (s : Text) : Bool := s.all isSpace

/-- adjacent text tokens (text + CDATA) are merged -/
def pushText (kids : List Node) (s : Text) : List Node :=
  match kids with
  | .text t :: rest => .text (t ++ s) :: rest
  | _ => .text s :: kids

def buildGo : List Frame → Option Node → List Token → Option Node
  | [], root, [] => root
  | _ :: _, _, [] => none
  | stack, root, tok :: rest =>
    match tok, stack with
    | .text s, [] => if isBlank s then buildGo [] root rest else none          -- only white space outside the root
    | .text s, f :: fs => buildGo ({ f with kids := pushText f.kids s } :: fs) root rest
    | .open n as true, [] =>
      (match root with | some _ => none | none => buildGo [] (some (.elem n as [])) rest)
    | .open n as true, f :: fs => buildGo ({ f with kids := .elem n as [] :: f.kids } :: fs) root rest
    | .open n as false, [] =>
      (match root with | some _ => none | none => buildGo [⟨n, as, []⟩] root rest)
    | .open n as false, fs => buildGo (⟨n, as, []⟩ :: fs) root rest
    | .close _, [] => none
    | .close n, f :: fs =>
      if f.name ≠ n then none
      else
        let node := Node.elem f.name f.attrs f.kids.reverse
        match fs with
        | [] => buildGo [] (some node) rest
        | g :: gs => buildGo ({ g with kids := node :: g.kids } :: gs) root rest

def parse (s : List Char) : Option Node := (lex s).bind (buildGo [] none)

/-! ## tree accessors -/

def localName (n : Text) : Text :=
  match n.dropWhile (· ≠ ':') with
  | [] => n
  | _ :: l => l

def Node.name : Node → Text
  | .elem n _ _ => n
  | .text _ => []

def Node.attrs : Node → List Attr
  | .elem _ as _ => as
  | .text _ => []

def Node.children : Node → List Node
  | .elem _ _ cs => cs
  | .text _ => []

def Node.attr? (n : Node) (name : Text) : Option Text := (n.attrs.find? (·.name = name)).map (·.value)

def Node.isElem : Node → Bool
  | .elem _ _ _ => true
  | .text _ => false

/-- child elements with the given local name -/
def Node.kids (n : Node) (name : String) : List Node :=
  n.children.filter (fun c => c.isElem && localName c.name = name.toList)

def Node.kid? (n : Node) (name : String) : Option Node := (n.kids name).head?

/-- concatenated character data directly inside the element -/
def Node.ownText (n : Node) : Text :=
  n.children.flatMap (fun c => match c with | .text s => s | .elem _ _ _ => [])

end Umya.Spec.Xml
