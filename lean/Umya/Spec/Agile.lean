/-
  C14 — the agile-encryption DECRYPTOR and verifier, written from [MS-OFFCRYPTO] §2.3.4.10–2.3.4.15
  (ECMA-376 agile encryption), NOT from the Rust:

  §2.3.4.10  EncryptionInfo stream: version 4.4, flags 0x00000040, XML descriptor
             (keyData, dataIntegrity, keyEncryptors/keyEncryptor/p:encryptedKey).
  §2.3.4.11  key derivation: H₀ = H(salt ‖ password as UTF-16LE); Hₙ = H(iterator ‖ Hₙ₋₁), iterator an
             unsigned 32-bit little-endian value starting at 0, spinCount iterations;
             H_final = H(Hₙ ‖ blockKey); the key is H_final cut to keyBits, or padded with 0x36.
  §2.3.4.12  IV: H(KeySalt ‖ blockKey) cut / 0x36-padded to blockSize; without a blockKey the IV is the
             salt itself.
  §2.3.4.13  password key encryptor: encryptedVerifierHashInput (blockKey fe a7 d2 76 3b 4b 9e 79),
             encryptedVerifierHashValue (d7 aa 0f 6d 30 61 34 4e), encryptedKeyValue
             (14 6e 0b e7 ab ac d0 d6), all with IV = the encryptor's saltValue; a password verifies when
             H(decrypted verifier input) equals the decrypted verifier hash value.
  §2.3.4.14  data integrity: the HMAC key (blockKey 5f b2 ad 01 0c b9 e1 f6) and HMAC value
             (a0 67 7f 02 b2 2c 84 33) are encrypted with the package key and IVs derived from
             keyData.saltValue; the HMAC covers the ENTIRE EncryptedPackage stream including StreamSize.
  §2.3.4.15  data: StreamSize (8 bytes, little-endian) then 4096-byte segments, segment i encrypted
             with IV = H(keyData.saltValue ‖ LE32(i)) cut to blockSize, the final segment padded to
             the block size; the plaintext is the concatenation cut to StreamSize.

  Only the parameter set this library can meet is accepted (AES-256, CBC, SHA-512, block 16, hash 64).
  The primitives are the abstract `Prims`.

  The EncryptionInfo stream is read by `parseInfo`: the 8-byte version / flags header, then the XML descriptor
  through the XML 1.0 reader of `Umya/Spec/XmlLex.lean` (written from the W3C recommendation) and a walk over
  the element tree with namespace names resolved from the `xmlns` declarations in scope
  (`encryption` / `keyData` / `dataIntegrity` / `keyEncryptors` / `keyEncryptor` in the encryption namespace,
  `encryptedKey` in the password key-encryptor namespace, the `keyEncryptor` whose `uri` is that namespace).
  Its round trip with the model of `build_encryption_info` is a theorem (`Thm/C14Info.lean`: `C14_info_parses`).
  `scanInfo` is the older small text scanner (kept as a second reader: the driver runs both and requires the
  same record).
-/
import Umya.Model.Prims
import Umya.Model.AgileInfo
import Umya.Spec.PwHash
import Umya.Spec.XmlLex
namespace Umya.Spec.Agile
open Umya.Crypto (Prims Bytes)
open Umya.Agile
open Umya.Spec.PwHash (leBytes utf16le)

def blkVerifierInput : Bytes := [0xfe, 0xa7, 0xd2, 0x76, 0x3b, 0x4b, 0x9e, 0x79]
def blkVerifierValue : Bytes := [0xd7, 0xaa, 0x0f, 0x6d, 0x30, 0x61, 0x34, 0x4e]
def blkKeyValue : Bytes := [0x14, 0x6e, 0x0b, 0xe7, 0xab, 0xac, 0xd0, 0xd6]
def blkHmacKey : Bytes := [0x5f, 0xb2, 0xad, 0x01, 0x0c, 0xb9, 0xe1, 0xf6]
def blkHmacValue : Bytes := [0xa0, 0x67, 0x7f, 0x02, 0xb2, 0x2c, 0x84, 0x33]

/-- cut to `n` bytes, or pad by appending 0x36 -/
def fitTo (n : Nat) (x : Bytes) : Bytes :=
  x.take n ++ List.replicate (n - x.length) 0x36

/-- §2.3.4.11, the iterated part: `Hₙ` for `n = spin` -/
def deriveHn (P : Prims) (pw : List Char) (salt : Bytes) (spin : Nat) : Bytes :=
  (List.range spin).foldl (fun h i => P.sha512 (leBytes 4 i ++ h)) (P.sha512 (salt ++ utf16le pw))

/-- §2.3.4.11, the final step for one block key -/
def deriveKey (P : Prims) (hn blockKey : Bytes) (keyBits : Nat) : Bytes :=
  fitTo (keyBits / 8) (P.sha512 (hn ++ blockKey))

/-- §2.3.4.12 -/
def ivOf (P : Prims) (salt blockKey : Bytes) (blockSize : Nat) : Bytes :=
  fitTo blockSize (P.sha512 (salt ++ blockKey))

/-- value of a little-endian byte string -/
def leValue : Bytes → Nat
  | [] => 0
  | b :: r => b.toNat + 256 * leValue r

def paramsOk (k : KeyData) : Bool :=
  k.cipherAlgorithm == ['A', 'E', 'S'] &&
  k.cipherChaining == ['C', 'h', 'a', 'i', 'n', 'i', 'n', 'g', 'M', 'o', 'd', 'e', 'C', 'B', 'C'] &&
  k.hashAlgorithm == ['S', 'H', 'A', '5', '1', '2'] && k.keyBits == 256 && k.blockSize == 16 && k.hashSize == 64

/-- §2.3.4.13: returns `Hₙ` of the password when the verifier matches -/
def verifyPassword (P : Prims) (info : Info) (pw : List Char) : Option Bytes :=
  if !(paramsOk info.keyData && paramsOk info.key) then none else
  match P.unb64 info.key.saltValue, P.unb64 info.encryptedVerifierHashInput,
        P.unb64 info.encryptedVerifierHashValue with
  | some salt, some encIn, some encVal =>
    if salt.length ≠ info.key.saltSize then none else
    let hn := deriveHn P pw salt info.spinCount
    let vin := (P.aesCbcDec (deriveKey P hn blkVerifierInput info.key.keyBits) salt encIn).take info.key.saltSize
    let vval := (P.aesCbcDec (deriveKey P hn blkVerifierValue info.key.keyBits) salt encVal).take info.key.hashSize
    if P.sha512 vin = vval then some hn else none
  | _, _, _ => none

/-- §2.3.4.13: the package ("intermediate") key -/
def packageKey (P : Prims) (info : Info) (hn : Bytes) : Option Bytes :=
  match P.unb64 info.key.saltValue, P.unb64 info.encryptedKeyValue with
  | some salt, some enc =>
    some ((P.aesCbcDec (deriveKey P hn blkKeyValue info.key.keyBits) salt enc).take (info.keyData.keyBits / 8))
  | _, _ => none

/-- §2.3.4.14: HMAC over the whole EncryptedPackage stream -/
def integrityOk (P : Prims) (info : Info) (pkgKey stream : Bytes) : Bool :=
  match P.unb64 info.keyData.saltValue, P.unb64 info.encryptedHmacKey, P.unb64 info.encryptedHmacValue with
  | some salt, some encK, some encV =>
    let hk := (P.aesCbcDec pkgKey (ivOf P salt blkHmacKey info.keyData.blockSize) encK).take info.keyData.hashSize
    let hv := (P.aesCbcDec pkgKey (ivOf P salt blkHmacValue info.keyData.blockSize) encV).take info.keyData.hashSize
    salt.length == info.keyData.saltSize && P.hmac hk stream == hv
  | _, _, _ => false

/-- StreamSize: the first eight bytes, little-endian -/
def declaredSize (stream : Bytes) : Nat := leValue (stream.take 8)

/-- 4096-byte segments of the stream body -/
def segments (body : Bytes) : List Bytes :=
  if body.length = 0 then [] else body.take 4096 :: segments (body.drop 4096)
termination_by body.length
decreasing_by simp [List.length_drop]; omega

/-- §2.3.4.15: segment `i, i+1, …` decrypted with its own IV -/
def decryptSegments (P : Prims) (pkgKey salt : Bytes) (blockSize : Nat) : Nat → List Bytes → List Bytes
  | _, [] => []
  | i, s :: r => P.aesCbcDec pkgKey (ivOf P salt (leBytes 4 i) blockSize) s ::
      decryptSegments P pkgKey salt blockSize (i + 1) r

def decryptData (P : Prims) (info : Info) (pkgKey stream : Bytes) : Option Bytes :=
  match P.unb64 info.keyData.saltValue with
  | none => none
  | some salt =>
    if stream.length < 8 then none else
    let body := stream.drop 8
    if body.length % 16 ≠ 0 then none else
    let plain := (decryptSegments P pkgKey salt info.keyData.blockSize 0 (segments body)).flatten
    if declaredSize stream > plain.length then none else some (plain.take (declaredSize stream))

/-- the whole decryptor: verifier, key unwrap, integrity, data -/
def decrypt (P : Prims) (info : Info) (stream : Bytes) (pw : List Char) : Option Bytes :=
  match verifyPassword P info pw with
  | none => none
  | some hn =>
    match packageKey P info hn with
    | none => none
    | some pk => if integrityOk P info pk stream then decryptData P info pk stream else none

/-! ## A small scanner for the EncryptionInfo stream (§2.3.4.10) -/

def isWs (c : Char) : Bool := c == ' ' || c == '\t' || c == '\r' || c == '\n'

/-- attributes `name="value"` up to the end of a start tag -/
def scanAttrs (fuel : Nat) (s : List Char) (acc : List (List Char × List Char)) : List (List Char × List Char) :=
  match fuel with
  | 0 => acc.reverse
  | fuel + 1 =>
    let s := s.dropWhile isWs
    match s with
    | [] => acc.reverse
    | '>' :: _ => acc.reverse
    | '/' :: _ => acc.reverse
    | _ =>
      let name := s.takeWhile (fun c => c != '=' && !isWs c)
      let rest := (s.dropWhile (fun c => c != '=')).drop 1
      let rest := rest.dropWhile isWs
      match rest with
      | q :: r =>
        let v := r.takeWhile (· != q)
        scanAttrs fuel ((r.dropWhile (· != q)).drop 1) ((name, v) :: acc)
      | [] => acc.reverse

/-- the text after the first occurrence of `pat` that is followed by a delimiter -/
def findTag (fuel : Nat) (pat : List Char) (s : List Char) : Option (List Char) :=
  match fuel with
  | 0 => none
  | fuel + 1 =>
    match s with
    | [] => none
    | _ :: t =>
      if pat.isPrefixOf s then
        let after := s.drop pat.length
        match after with
        | c :: _ => if isWs c || c == '/' || c == '>' then some after else findTag fuel pat t
        | [] => none
      else findTag fuel pat t

def tagAttrs (xml : List Char) (tag : String) : Option (List (List Char × List Char)) :=
  (findTag (xml.length + 1) ('<' :: tag.toList) xml).map fun s => scanAttrs (s.length + 1) s []

def lookup (a : List (List Char × List Char)) (n : String) : Option (List Char) :=
  (a.find? (fun p => p.1 == n.toList)).map (·.2)

def natOf (s : List Char) : Option Nat :=
  if s.isEmpty || !s.all Char.isDigit then none else some (s.foldl (fun a c => 10 * a + (c.toNat - 48)) 0)

def keyDataOf (a : List (List Char × List Char)) : Option KeyData := do
  let saltSize ← (lookup a "saltSize").bind natOf
  let blockSize ← (lookup a "blockSize").bind natOf
  let keyBits ← (lookup a "keyBits").bind natOf
  let hashSize ← (lookup a "hashSize").bind natOf
  let ca ← lookup a "cipherAlgorithm"
  let cc ← lookup a "cipherChaining"
  let ha ← lookup a "hashAlgorithm"
  let sv ← lookup a "saltValue"
  pure ⟨saltSize, blockSize, keyBits, hashSize, ca, cc, ha, sv⟩

/-- the scanner's reading of the stream: version 4.4, flags 0x40, then the XML descriptor taken bytewise -/
def scanInfo (stream : Bytes) : Option Info :=
  if stream.take 8 ≠ [4, 0, 4, 0, 0x40, 0, 0, 0] then none else
  let xml := (stream.drop 8).map fun b => Char.ofNat b.toNat
  do
    let kd ← tagAttrs xml "keyData"
    let di ← tagAttrs xml "dataIntegrity"
    let ek ← tagAttrs xml "p:encryptedKey"
    let keyData ← keyDataOf kd
    let key ← keyDataOf ek
    let hk ← lookup di "encryptedHmacKey"
    let hv ← lookup di "encryptedHmacValue"
    let spin ← (lookup ek "spinCount").bind natOf
    let vi ← lookup ek "encryptedVerifierHashInput"
    let vv ← lookup ek "encryptedVerifierHashValue"
    let kv ← lookup ek "encryptedKeyValue"
    pure ⟨keyData, hk, hv, spin, key, vi, vv, kv⟩

/-! ## The EncryptionInfo stream through an XML 1.0 reader (§2.3.4.10) -/

open Umya.Spec.Xml (Node Attr)

/-- namespace names of [MS-OFFCRYPTO] §2.3.4.10 -/
def encryptionNs : List Char := "http://schemas.microsoft.com/office/2006/encryption".toList
def passwordNs : List Char := "http://schemas.microsoft.com/office/2006/keyEncryptor/password".toList

/-- the attribute that declares the prefix of a qualified name: `xmlns` without a prefix, `xmlns:p` for `p:…` -/
def nsDeclName (qname : List Char) : List Char :=
  match qname.dropWhile (· ≠ ':') with
  | [] => "xmlns".toList
  | _ :: _ => "xmlns:".toList ++ qname.takeWhile (· ≠ ':')

/-- namespace name of an element under the declarations in scope (innermost element's attributes first) -/
def nsOf (scope : List Attr) (qname : List Char) : Option (List Char) :=
  (scope.find? (·.name = nsDeclName qname)).map (·.value)

/-- is `n` an element `{ns}local`, given the declarations in scope outside it? -/
def isElemOf (scope : List Attr) (ns : List Char) (loc : String) (n : Node) : Bool :=
  n.isElem && Umya.Spec.Xml.localName n.name == loc.toList && nsOf (n.attrs ++ scope) n.name == some ns

/-- first child element `{ns}local`, with the declarations in scope inside it -/
def childOf (scope : List Attr) (ns : List Char) (loc : String) (n : Node) : Option (Node × List Attr) :=
  (n.children.find? (isElemOf scope ns loc)).map fun c => (c, c.attrs ++ scope)

def keyDataOfNode (n : Node) : Option KeyData := do
  let saltSize ← (n.attr? "saltSize".toList).bind natOf
  let blockSize ← (n.attr? "blockSize".toList).bind natOf
  let keyBits ← (n.attr? "keyBits".toList).bind natOf
  let hashSize ← (n.attr? "hashSize".toList).bind natOf
  let ca ← n.attr? "cipherAlgorithm".toList
  let cc ← n.attr? "cipherChaining".toList
  let ha ← n.attr? "hashAlgorithm".toList
  let sv ← n.attr? "saltValue".toList
  pure ⟨saltSize, blockSize, keyBits, hashSize, ca, cc, ha, sv⟩

/-- the descriptor of an `<encryption>` document element -/
def infoOfTree (root : Node) : Option Info :=
  if !isElemOf [] encryptionNs "encryption" root then none else
  let s0 := root.attrs
  do
    let (kd, _) ← childOf s0 encryptionNs "keyData" root
    let (di, _) ← childOf s0 encryptionNs "dataIntegrity" root
    let (kes, s1) ← childOf s0 encryptionNs "keyEncryptors" root
    -- the password key encryptor: `uri` = the password key-encryptor namespace
    let ke ← kes.children.find? fun c => isElemOf s1 encryptionNs "keyEncryptor" c && c.attr? "uri".toList == some passwordNs
    let (ek, _) ← childOf (ke.attrs ++ s1) passwordNs "encryptedKey" ke
    let keyData ← keyDataOfNode kd
    let key ← keyDataOfNode ek
    let hk ← di.attr? "encryptedHmacKey".toList
    let hv ← di.attr? "encryptedHmacValue".toList
    let spin ← (ek.attr? "spinCount".toList).bind natOf
    let vi ← ek.attr? "encryptedVerifierHashInput".toList
    let vv ← ek.attr? "encryptedVerifierHashValue".toList
    let kv ← ek.attr? "encryptedKeyValue".toList
    pure ⟨keyData, hk, hv, spin, key, vi, vv, kv⟩

/-- §2.3.4.10: version 4.4, flags 0x40, then the XML descriptor (ASCII / Latin-1 taken bytewise; every
    character of a descriptor is ASCII: names, decimal numbers, base64) -/
def parseInfo (stream : Bytes) : Option Info :=
  if stream.take 8 ≠ [4, 0, 4, 0, 0x40, 0, 0, 0] then none else
  match Umya.Spec.Xml.parse ((stream.drop 8).map fun b => Char.ofNat b.toNat) with
  | none => none
  | some root => infoOfTree root

/-- the whole reader of a protected file's two streams: descriptor, then `decrypt` -/
def decryptFile (P : Prims) (infoStream pkgStream : Bytes) (pw : List Char) : Option Bytes :=
  match parseInfo infoStream with
  | none => none
  | some info => decrypt P info pkgStream pw

/-- … and the verifier alone -/
def verifyFile (P : Prims) (infoStream : Bytes) (pw : List Char) : Option Bytes :=
  match parseInfo infoStream with
  | none => none
  | some info => verifyPassword P info pw

end Umya.Spec.Agile
