/-
  Reference semantics for C19, written from the property text (NOT from the Rust):
  exact decimal rounding, half away from zero, as integer arithmetic, and the rendering of the
  rounded magnitude by division and remainder.  No digit-list surgery here.

  A non-negative decimal magnitude is given as `N / 10^k` (`N k : Nat`).  Rounded to `n` decimals,
  half away from zero (on magnitudes: half up), it is `R / 10^n` with

      R = ⌊ N·10ⁿ / 10ᵏ + 1/2 ⌋ = (2·N·10ⁿ + 10ᵏ) / (2·10ᵏ)        (natural-number division)

  The sign is carried separately (sign-magnitude), which is what "half away from zero" means.
-/
import Umya.Model.Dec
namespace Umya.Spec
open Umya.Dec

/-- `roundHalfAway N k n`: the magnitude `N / 10^k` rounded half away from zero to `n` decimals,
    as the integer `R` with result `R / 10^n`. -/
def roundHalfAway (N k n : Nat) : Nat := (2 * N * 10 ^ n + 10 ^ k) / (2 * 10 ^ k)

/-- exactly `n` decimal digits of `v mod 10^n`, most significant first (zero padded on the left) -/
def padLeft : Nat → Nat → List Char
  | 0, _ => []
  | n + 1, v => padLeft n (v / 10) ++ [digitChar (v % 10)]

/-- decimal text of `m` with a comma before every complete group of three digits:
    `m < 1000` as it is, otherwise the grouped text of `m / 1000`, a comma, and the three digits of `m % 1000` -/
def groupNat (m : Nat) : List Char :=
  if m < 1000 then decDigits m else groupNat (m / 1000) ++ ',' :: padLeft 3 (m % 1000)
termination_by m
decreasing_by omega

/-- text of the integer part -/
def intText (m : Nat) (thousands : Bool) : List Char :=
  if thousands then groupNat m else decDigits m

/-- Rendering of the signed value `± R / 10^n` with exactly `n` decimals:
    sign, integer part `R / 10^n` (grouped in threes when asked), and, when `n > 0`, a point and the
    `n` digits of `R % 10^n`.  The sign is shown whenever `neg` is set, also when `R = 0`
    (sign rule of C19: the sign of the number's decimal text is kept; `-0.001` under `0.00` is `-0.00`). -/
def render (neg : Bool) (R n : Nat) (thousands : Bool) : List Char :=
  (if neg then ['-'] else []) ++ intText (R / 10 ^ n) thousands ++
    (if n = 0 then [] else '.' :: padLeft n (R % 10 ^ n))

end Umya.Spec
