/-
  A reader for RFC-4180-style text whose quote is a STRING `w` (one or more characters) and in which
  every field is an escaped field:

      file    = record *(CRLF record) [CRLF]          ; the empty text has no records
      record  = escaped *(COMMA escaped)
      escaped = W *(any text in which every W is written W W) W

  Inside an escaped field the reader looks, at every position, first for `w ++ w` (the escaped
  quote: one `w` of field text), then for `w` (the closing quote), otherwise it takes one character.
  After the closing quote only `,`, CRLF or the end of input may follow.  This is the reading rule of
  `Umya/Spec/Rfc4180.lean` (`quoted`/`closing` modes) with the one-character quote replaced by a
  string; non-escaped fields are NOT accepted (the writer under test wraps every field).
  Written from that grammar, not from the Rust writer.  Core Lean only.
-/
import Umya.Spec.Rfc4180
namespace Umya.Rfc4180

inductive ModeW
  | start    -- a field must begin here (with `w`), or the input ends
  | quoted   -- inside an escaped field
  | after    -- after the closing quote
  | cr       -- after a CR outside quotes
  deriving DecidableEq, Repr

/-- One pass over the characters; `k` = characters of an already recognised `w` / `w w` still to skip. -/
def runW (w : List Char) : ModeW → Nat → List Char → Record → List Record → List Char → Option (List Record)
  | _, _ + 1, _, _, _, [] => none
  | m, k + 1, fld, rec, out, _ :: cs => runW w m k fld rec out cs
  | .start, 0, _, rec, out, [] => if rec.isEmpty then some out else none
  | .quoted, 0, _, _, _, [] => none
  | .after, 0, fld, rec, out, [] => some (out ++ [rec ++ [fld]])
  | .cr, 0, _, _, _, [] => none
  | .start, 0, _, rec, out, c :: cs =>
    if w.isPrefixOf (c :: cs) then runW w .quoted (w.length - 1) [] rec out cs else none
  | .quoted, 0, fld, rec, out, c :: cs =>
    if (w ++ w).isPrefixOf (c :: cs) then runW w .quoted (w.length + w.length - 1) (fld ++ w) rec out cs
    else if w.isPrefixOf (c :: cs) then runW w .after (w.length - 1) fld rec out cs
    else runW w .quoted 0 (fld ++ [c]) rec out cs
  | .after, 0, fld, rec, out, c :: cs =>
    if c = ',' then runW w .start 0 [] (rec ++ [fld]) out cs
    else if c = '\r' then runW w .cr 0 fld rec out cs
    else none
  | .cr, 0, fld, rec, out, c :: cs =>
    if c = '\n' then runW w .start 0 [] [] (out ++ [rec ++ [fld]]) cs else none

/-- Parse a text in which every field is wrapped in the non-empty string `w`. -/
def parseW (w : List Char) (s : List Char) : Option (List Record) :=
  if w.isEmpty then none else runW w .start 0 [] [] [] s

end Umya.Rfc4180
