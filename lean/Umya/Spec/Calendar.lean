/-
  Proleptic Gregorian calendar: reference semantics for property C18.

  Written from the calendar's definition (leap rule, month lengths) and from H. Hinnant's
  public-domain `days_from_civil` / `civil_from_days` ("chrono-compatible low-level date
  algorithms"), NOT from the Rust under test.  Day 0 is 1970-01-01.

  Two layers, deliberately independent of each other:
    * the *naive* layer: `isLeap`, `daysInMonth`, `ValidDate`, `nextDay` (what a calendar is);
    * the *closed-form* layer: `daysFromCivil`, `civilFromDays` (how one counts days fast).
  `Umya/Thm/C18.lean` proves that the closed forms are mutually inverse (for every integer day
  number / every `ValidDate`), that `civilFromDays` only produces `ValidDate`s (so the closed form
  agrees with the naive leap rule and month table), and that `daysFromCivil` is strictly
  increasing in calendar order.  (`nextDay` is provided for harness-style stepping; the statement
  `daysFromCivil (nextDay date) = daysFromCivil date + 1` is NOT proved yet.)

  Core Lean only.  `/` and `%` on `Int` are Euclidean (floor for positive divisors), which is
  what Hinnant's era computation `(y >= 0 ? y : y-399) / 400` implements with truncating division.
-/
namespace Umya.Spec.Calendar

/-- Gregorian leap rule. -/
def isLeap (y : Int) : Bool := y % 4 == 0 && (y % 100 != 0 || y % 400 == 0)

/-- Month lengths; 0 for a month number outside 1..12 (so no date is valid there). -/
def daysInMonth (y m : Int) : Int :=
  if m = 1 ∨ m = 3 ∨ m = 5 ∨ m = 7 ∨ m = 8 ∨ m = 10 ∨ m = 12 then 31
  else if m = 4 ∨ m = 6 ∨ m = 9 ∨ m = 11 then 30
  else if m = 2 then (if isLeap y then 29 else 28)
  else 0

/-- A civil date that exists in the proleptic Gregorian calendar. -/
def ValidDate (y m d : Int) : Prop := 1 ≤ m ∧ m ≤ 12 ∧ 1 ≤ d ∧ d ≤ daysInMonth y m

instance (y m d : Int) : Decidable (ValidDate y m d) := by unfold ValidDate; infer_instance

/-- Lexicographic order on (year, month, day). -/
def dateLt (a b : Int × Int × Int) : Prop :=
  a.1 < b.1 ∨ (a.1 = b.1 ∧ (a.2.1 < b.2.1 ∨ (a.2.1 = b.2.1 ∧ a.2.2 < b.2.2)))

instance (a b : Int × Int × Int) : Decidable (dateLt a b) := by unfold dateLt; infer_instance

def dateLe (a b : Int × Int × Int) : Prop := a = b ∨ dateLt a b

instance (a b : Int × Int × Int) : Decidable (dateLe a b) := by unfold dateLe; infer_instance

/-- The day after a valid date (naive: month table and leap rule only). -/
def nextDay (y m d : Int) : Int × Int × Int :=
  if d < daysInMonth y m then (y, m, d + 1)
  else if m < 12 then (y, m + 1, 1)
  else (y + 1, 1, 1)

/-- Hinnant `days_from_civil`: days since 1970-01-01 of the civil date `y-m-d`. -/
def daysFromCivil (y m d : Int) : Int :=
  let y' := if m ≤ 2 then y - 1 else y
  let era := y' / 400
  let yoe := y' - era * 400                                   -- [0, 399]
  let mp := if m > 2 then m - 3 else m + 9                     -- March = 0 … February = 11
  let doy := (153 * mp + 2) / 5 + d - 1                       -- [0, 365]
  let doe := yoe * 365 + yoe / 4 - yoe / 100 + doy            -- [0, 146096]
  era * 146097 + doe - 719468

/-- Hinnant `civil_from_days`: the civil date of day number `z` (0 = 1970-01-01). -/
def civilFromDays (z : Int) : Int × Int × Int :=
  let z := z + 719468
  let era := z / 146097
  let doe := z - era * 146097                                  -- [0, 146096]
  let yoe := (doe - doe / 1460 + doe / 36524 - doe / 146096) / 365   -- [0, 399]
  let y := yoe + era * 400
  let doy := doe - (365 * yoe + yoe / 4 - yoe / 100)           -- [0, 365]
  let mp := (5 * doy + 2) / 153                                -- [0, 11]
  let d := doy - (153 * mp + 2) / 5 + 1                        -- [1, 31]
  let m := if mp < 10 then mp + 3 else mp - 9                  -- [1, 12]
  (if m ≤ 2 then y + 1 else y, m, d)

/-- Day number of 1899-12-30, the day that has serial 0 in the (post-February-1900) 1900 system. -/
def excelEpoch : Int := daysFromCivil 1899 12 30

end Umya.Spec.Calendar
