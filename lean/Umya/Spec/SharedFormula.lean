/-
  What a shared formula means for a cell other than its master (ECMA-376 Part 1 §18.3.1.40 `f`,
  `t="shared"`): the master's formula as if it had been copied to the cell, i.e. every relative
  part of every cell / area reference moves by the distance between the two cells and every `$`
  part stays (Part 1 §18.17.2 cell references).  Written from that text, independent of the library's
  tokenizer: a scanner splits the formula text into string literals, quoted sheet names, bracket
  groups, "words" and symbols; the words that are A1 references (and `A:B`, `1:2` pairs) are read
  into `Umya.Spec.Area`, translated by `Umya.Spec.trArea` and printed again; everything else is
  copied character by character.  A reference that leaves the grid becomes `#REF!` (as in
  `Spec.translateRef`; generated files never contain such a block).

  What counts as a reference: an upper-case word `[$]COL[$]ROW` (column ≤ XFD, row 1..1048576 written
  without leading zero) that is not followed by `(` (then it is a function name, e.g. `LOG10(`) nor
  by `!` (then it is a sheet name); and `word:word` where both sides are such cells, both columns or
  both rows.  Nothing inside `"…"`, `'…'` or `[…]` is a reference.
-/
import Umya.Spec.Refs
namespace Umya.Spec.SharedF
open Umya.Coord Umya.Dec Umya.Spec

inductive Piece where
  | lit (raw : List Char)                  -- copied as is
  | word (w : List Char)
  | sym (c : Char)
  | area (a : Area)
  | qarea (q : List Char) (a : Area)       -- qualifier text (without `!`) and area
  deriving Repr

def isWordChar (c : Char) : Bool :=
  c.isAlphanum || c = '_' || c = '.' || c = '$' || c = '\\' || c = '?' || c.toNat ≥ 0x80

inductive M where
  | normal
  | word (acc : List Char)
  | dq (acc : List Char)          -- inside "…"
  | dqEnd (acc : List Char)       -- just saw a `"` inside "…": doubled or the end
  | sq (acc : List Char)
  | sqEnd (acc : List Char)
  | br (acc : List Char) (depth : Nat)

def openMode (c : Char) : Option M :=
  if c = '"' then some (.dq [c]) else if c = '\'' then some (.sq [c]) else if c = '[' then some (.br [c] 0)
  else if isWordChar c then some (.word [c]) else none

def scanGo : M → List Char → List Piece
  | .normal, [] => []
  | .word a, [] => [.word a.reverse]
  | .dq a, [] => [.lit a.reverse]
  | .dqEnd a, [] => [.lit a.reverse]
  | .sq a, [] => [.lit a.reverse]
  | .sqEnd a, [] => [.lit a.reverse]
  | .br a _, [] => [.lit a.reverse]
  | .normal, c :: r =>
    (match openMode c with | some m => scanGo m r | none => .sym c :: scanGo .normal r)
  | .word a, c :: r =>
    if isWordChar c then scanGo (.word (c :: a)) r
    else .word a.reverse :: (match openMode c with | some m => scanGo m r | none => .sym c :: scanGo .normal r)
  | .dq a, c :: r => if c = '"' then scanGo (.dqEnd (c :: a)) r else scanGo (.dq (c :: a)) r
  | .dqEnd a, c :: r =>
    if c = '"' then scanGo (.dq (c :: a)) r
    else .lit a.reverse :: (match openMode c with | some m => scanGo m r | none => .sym c :: scanGo .normal r)
  | .sq a, c :: r => if c = '\'' then scanGo (.sqEnd (c :: a)) r else scanGo (.sq (c :: a)) r
  | .sqEnd a, c :: r =>
    if c = '\'' then scanGo (.sq (c :: a)) r
    else .lit a.reverse :: (match openMode c with | some m => scanGo m r | none => .sym c :: scanGo .normal r)
  | .br a d, c :: r =>
    if c = '[' then scanGo (.br (c :: a) (d + 1)) r
    else if c = ']' then (match d with | 0 => .lit (c :: a).reverse :: scanGo .normal r | d' + 1 => scanGo (.br (c :: a) d') r)
    else scanGo (.br (c :: a) d) r

def scan (s : List Char) : List Piece := scanGo .normal s

/-! ## words that are corners -/

def colNum (ls : List Char) : Nat := ls.foldl (fun a c => 26 * a + (c.toNat - 64)) 0

def decNum (ds : List Char) : Nat := ds.foldl (fun a c => 10 * a + (c.toNat - 48)) 0

def isUp (c : Char) : Bool := 'A' ≤ c && c ≤ 'Z'

/-- `[$]LETTERS` at the front: `(lock, column, rest)` -/
def takeCol (w : List Char) : Option (Ref × List Char) :=
  let (lock, w1) := match w with | '$' :: r => (true, r) | _ => (false, w)
  let ls := w1.takeWhile isUp
  let rest := w1.dropWhile isUp
  if ls.isEmpty ∨ ls.length > 3 then none
  else
    let n := colNum ls
    if 1 ≤ n ∧ n ≤ maxCol then some (⟨n, lock⟩, rest) else none

/-- `[$]DIGITS` making up the whole of `w` -/
def takeRow (w : List Char) : Option Ref :=
  let (lock, w1) := match w with | '$' :: r => (true, r) | _ => (false, w)
  match w1 with
  | [] => none
  | d :: _ =>
    if d = '0' ∨ !(w1.all Char.isDigit) ∨ w1.length > 7 then none
    else
      let n := decNum w1
      if 1 ≤ n ∧ n ≤ maxRow then some ⟨n, lock⟩ else none

/-- a word as a corner: cell, column only, or row only -/
def cornerOf (w : List Char) : Option Corner :=
  match takeRow w with
  | some r => some ⟨none, some r⟩
  | none =>
    match takeCol w with
    | none => none
    | some (c, rest) =>
      if rest.isEmpty then some ⟨some c, none⟩
      else (takeRow rest).map fun r => ⟨some c, some r⟩

def isCell (k : Corner) : Bool := k.col.isSome && k.row.isSome

def sameShape (a b : Corner) : Bool := (a.col.isSome == b.col.isSome) && (a.row.isSome == b.row.isSome)

/-! ## passes -/

/-- a word followed by `(` is a function name -/
def markCalls : List Piece → List Piece
  | .word w :: (t@(.sym '(' :: _)) => .lit w :: markCalls t
  | p :: t => p :: markCalls t
  | [] => []

def wordAlone (w : List Char) : Piece :=
  match cornerOf w with
  | some k => if isCell k then .area (.one k) else .word w
  | none => .word w

def startsWithBang : List Piece → Bool
  | .sym '!' :: _ => true
  | _ => false

/-- what `a` in `a:b…` becomes, and whether `:b` is consumed with it -/
def pairOf (a b : List Char) (bang : Bool) : Piece × Bool :=
  match cornerOf a, cornerOf b with
  | some ka, some kb =>
    if !bang && sameShape ka kb then (.area (.two ka kb), true) else (wordAlone a, false)
  | _, _ => (wordAlone a, false)

/-- `a:b` and single cells become areas; a word followed by `!` is left for the next pass -/
def markAreas : List Piece → List Piece
  | .word a :: .sym ':' :: .word b :: rest =>
    let pr := pairOf a b (startsWithBang rest)
    if pr.2 then pr.1 :: markAreas rest
    else pr.1 :: .sym ':' :: markAreas (.word b :: rest)
  | .word a :: .sym '!' :: t => .word a :: .sym '!' :: markAreas t
  | .word a :: t => wordAlone a :: markAreas t
  | p :: t => p :: markAreas t
  | [] => []
termination_by l => l.length

def isQualLit (raw : List Char) : Bool := raw.head? = some '\''

/-- `name!area` and `'quoted name'!area` -/
def markQuals : List Piece → List Piece
  | .word q :: .sym '!' :: .area a :: rest => .qarea q a :: markQuals rest
  | .lit q :: (t@(.sym '!' :: .area a :: rest)) =>
    if isQualLit q then .qarea q a :: markQuals rest else .lit q :: markQuals t
  | p :: t => p :: markQuals t
  | [] => []

def refError : List Char := ['#', 'R', 'E', 'F', '!']

def renderPiece (dc dr : Int) : Piece → List Char
  | .lit r => r
  | .word w => w
  | .sym c => [c]
  | .area a => (match trArea a dc dr with | some a' => a'.text | none => refError)
  | .qarea q a => (match trArea a dc dr with | some a' => q ++ '!' :: a'.text | none => refError)

def pieces (s : List Char) : List Piece := markQuals (markAreas (markCalls (scan s)))

/-- the master's formula text as it reads in a cell `dc` columns and `dr` rows away -/
def translateText (s : List Char) (dc dr : Int) : List Char := (pieces s).flatMap (renderPiece dc dr)

end Umya.Spec.SharedF
