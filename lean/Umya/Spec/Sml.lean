/-
  An independent reader of OPC / SpreadsheetML packages, written from ECMA-376 Part 1 §18
  (SpreadsheetML) and Part 2 (Open Packaging Conventions) on top of `Umya.Spec.Xml`; it shares no
  code with the library's reader or with the model of it.

  `check` returns the list of well-formedness violations of a package; `view` returns what the file
  means: sheet list, and per sheet the cells (value text, kind, formula), merged ranges,
  hyperlinks (resolved through the relationships part) and the defined names.
-/
import Umya.Spec.XmlLex
import Umya.Spec.SharedFormula
namespace Umya.Spec.Sml
open Umya.Spec.Xml

structure Part where
  name : String                 -- without leading '/'
  xml : Option Node             -- parsed when it is an XML part that parses
  isXml : Bool
  deriving Inhabited

abbrev Package := List Part

def str (t : Text) : String := String.ofList t

def Package.part? (p : Package) (name : String) : Option Part := p.find? (·.name = name)

/-! ## paths and relationships

  Part names are taken apart on their CHARACTERS (`String.toList`), with structurally recursive functions, so
  that the path rules below can be reasoned about for symbolic names (`xl/worksheets/sheetK.xml` for every K):
  the library's `String.splitOn` is defined by recursion on byte positions and does not unfold.  The rules are
  those of Part 2: segments are separated by `/`, empty segments are dropped, `.` and `..` are resolved
  against the directory of the base part (§8.3), the relationships part of `a/b` is `a/_rels/b.rels` (§8.5). -/

/-- the pieces of `l` between occurrences of `c`: first piece, remaining pieces -/
def splitGo (c : Char) : List Char → List Char × List (List Char)
  | [] => ([], [])
  | x :: r => let p := splitGo c r; if x = c then ([], p.1 :: p.2) else (x :: p.1, p.2)

/-- `"a/b//c"` at `/` is `a`, `b`, the empty piece, `c`; the empty text is one empty piece -/
def splitOnChar (c : Char) (l : List Char) : List (List Char) := (splitGo c l).1 :: (splitGo c l).2

/-- the non-empty segments of a path -/
def segsOf (l : List Char) : List (List Char) := (splitOnChar '/' l).filter (· ≠ [])

def joinSegs (segs : List (List Char)) : List Char := ['/'].intercalate segs

def splitPath (s : String) : List String := (segsOf s.toList).map String.ofList

def resolveSegs : List (List Char) → List (List Char) → List (List Char)
  | acc, [] => acc
  | acc, x :: r =>
    if x = ['.', '.'] then resolveSegs acc.dropLast r
    else if x = ['.'] then resolveSegs acc r
    else resolveSegs (acc ++ [x]) r

def resolveTargetL (base target : List Char) : List Char :=
  if target.head? = some '/' then joinSegs (segsOf target)
  else joinSegs (resolveSegs (segsOf base).dropLast (segsOf target))

/-- resolve `target` relative to the directory of `base` (Part 2 §8.3: relative references) -/
def resolveTarget (base target : String) : String := String.ofList (resolveTargetL base.toList target.toList)

def relsNameOfL (part : List Char) : List Char :=
  match (segsOf part).reverse with
  | [] => ['_', 'r', 'e', 'l', 's', '/', '.', 'r', 'e', 'l', 's']
  | f :: d => joinSegs (d.reverse ++ [['_', 'r', 'e', 'l', 's'], f ++ ['.', 'r', 'e', 'l', 's']])

def relsNameOf (part : String) : String := String.ofList (relsNameOfL part.toList)

/-- is this the name of a relationships part (`….rels`)? -/
def isRelsNameL (name : List Char) : Bool := ['.', 'r', 'e', 'l', 's'].isSuffixOf name

/-- the source part of the relationships part `a/_rels/b.rels` is `a/b` (of `_rels/.rels`: the package, ``) -/
def relsSourceL (name : List Char) : List Char :=
  match (segsOf name).reverse with
  | f :: _ :: d => joinSegs (d.reverse ++ [f.take (f.length - 5)])
  | _ => []

structure Rel where
  id : String
  type : String
  target : String
  external : Bool
  deriving Repr, Inhabited

def relsOf (p : Package) (part : String) : List Rel :=
  match (p.part? (relsNameOf part)).bind (·.xml) with
  | none => []
  | some root =>
    (root.kids "Relationship").map fun r =>
      { id := str ((r.attr? "Id".toList).getD []), type := str ((r.attr? "Type".toList).getD []),
        target := str ((r.attr? "Target".toList).getD []),
        external := (r.attr? "TargetMode".toList) = some "External".toList }

/-! ## content types -/

def extOfL (name : List Char) : List Char := ((splitOnChar '.' name).getLast?).getD []

def extOf (name : String) : String := String.ofList (extOfL name.toList)

def contentTypeOf (p : Package) (name : String) : Option String :=
  match (p.part? "[Content_Types].xml").bind (·.xml) with
  | none => none
  | some root =>
    let ov := (root.kids "Override").find? (fun o => (o.attr? "PartName".toList) = some ("/" ++ name).toList)
    match ov with
    | some o => (o.attr? "ContentType".toList).map str
    | none =>
      ((root.kids "Default").find? (fun d => ((d.attr? "Extension".toList).map (fun e => (str e).toLower)) = some (extOf name).toLower)).bind
        fun d => (d.attr? "ContentType".toList).map str

/-! ## shared strings, cells -/

/-- text of a CT_Rst: `t` plus the `t` of every run `r` (phonetic runs `rPh` are not part of the value) -/
def rstText (si : Node) : Text :=
  ((si.kids "t").flatMap (·.ownText)) ++ ((si.kids "r").flatMap (fun r => (r.kids "t").flatMap (·.ownText)))

def sharedStrings (p : Package) (path : String) : List Text :=
  match (p.part? path).bind (·.xml) with
  | none => []
  | some root => (root.kids "si").map rstText

structure CellV where
  ref : Text
  kind : String            -- s (text), n, b, e, or "" (no value)
  value : Text
  formula : Option Text
  style : Nat
  shared : Option Nat := none      -- `si` of an `f t="shared"`
  sharedChild : Bool := false      -- a later `f` of an `si` already seen (set by `expandShared`)
  deriving Repr, Inhabited

/-- an unsigned decimal number (xsd:unsignedInt lexical form without sign) -/
def natOf (t : Text) : Option Nat :=
  if t ≠ [] ∧ t.all Char.isDigit then some (t.foldl (fun a c => 10 * a + (c.toNat - 48)) 0) else none

/-- §18.3.1.4 `c`: decode one cell given the shared-string table -/
def decodeCell (sst : List Text) (c : Node) : CellV × List String :=
  let ref := (c.attr? "r".toList).getD []
  let t := str ((c.attr? "t".toList).getD "n".toList)
  let style := ((c.attr? "s".toList).bind natOf).getD 0
  let v := (c.kid? "v").map (·.ownText)
  let f := (c.kid? "f").map (·.ownText)
  let shared := (c.kid? "f").bind fun fe =>
    if fe.attr? "t".toList = some "shared".toList then (fe.attr? "si".toList).bind natOf else none
  let (kind, value, errs) : String × Text × List String :=
    match t with
    | "s" =>
      (match v.bind natOf with
       | some i => (match sst[i]? with
          | some s => ("s", s, [])
          | none => ("s", [], [s!"cell {str ref}: shared string index {i} outside the table of {sst.length}"]))
       | none => ("", [], if v.isSome then [s!"cell {str ref}: t=s without a numeric v"] else []))
    | "inlineStr" => ("s", ((c.kid? "is").map rstText).getD [], [])
    | "str" => (if v.isSome then "s" else "", v.getD [], [])
    | "b" => (if v.isSome then "b" else "",
        (if v = some ['1'] ∨ v = some "true".toList then "TRUE".toList
         else if v = some ['0'] ∨ v = some "false".toList then "FALSE".toList else v.getD []), [])
    | "e" => (if v.isSome then "e" else "", v.getD [], [])
    | "n" => (if v.isSome then "n" else "", v.getD [], [])
    | other => ("", [], [s!"cell {str ref}: unknown cell type {other}"])
  ({ ref := ref, kind := kind, value := value, formula := f, style := style, shared := shared }, errs)

/-! ## A1 references (for ordering checks) -/

def colOf (ref : Text) : Nat := (ref.takeWhile Char.isAlpha).foldl (fun a c => 26 * a + (c.toUpper.toNat - 64)) 0
def rowOf (ref : Text) : Nat := ((natOf (ref.dropWhile Char.isAlpha)).getD 0)

/-- CT_Worksheet child order (§18.3.1.99) -/
def worksheetOrder : List String :=
  ["sheetPr", "dimension", "sheetViews", "sheetFormatPr", "cols", "sheetData", "sheetCalcPr", "sheetProtection",
   "protectedRanges", "scenarios", "autoFilter", "sortState", "dataConsolidate", "customSheetViews", "mergeCells",
   "phoneticPr", "conditionalFormatting", "dataValidations", "hyperlinks", "printOptions", "pageMargins", "pageSetup",
   "headerFooter", "rowBreaks", "colBreaks", "customProperties", "cellWatches", "ignoredErrors", "smartTags", "drawing",
   "legacyDrawing", "legacyDrawingHF", "drawingHF", "picture", "oleObjects", "controls", "webPublishItems", "tableParts", "extLst"]

def indexIn (l : List String) (x : String) : Option Nat :=
  let rec go (i : Nat) : List String → Option Nat
    | [] => none
    | y :: ys => if y = x then some i else go (i + 1) ys
  go 0 l

def ascending (l : List Nat) : Bool :=
  match l with
  | [] => true
  | x :: xs => (xs.foldl (fun (acc : Bool × Nat) y => (acc.1 && acc.2 < y, y)) (true, x)).1

def nonDecreasing (l : List Nat) : Bool :=
  match l with
  | [] => true
  | x :: xs => (xs.foldl (fun (acc : Bool × Nat) y => (acc.1 && acc.2 ≤ y, y)) (true, x)).1

/-! ## positions of cells that carry no `r` (§18.3.1.73 / §18.3.1.4: both `r` are optional):
     a row without `r` is the row after the previous one, a cell without `r` the column after the
     previous cell of its row (the first one column A) -/

def colLetters (n : Nat) : Text := Umya.Coord.indexToAlpha n

def refText (col row : Nat) : Text := colLetters col ++ (toString row).toList

/-- fill in missing cell references of one row; `prev` = column of the previous cell -/
def fillRefs (rn : Nat) : Nat → List CellV → List CellV
  | _, [] => []
  | prev, c :: rest =>
    if c.ref.isEmpty then { c with ref := refText (prev + 1) rn } :: fillRefs rn (prev + 1) rest
    else c :: fillRefs rn (colOf c.ref) rest

/-! ## shared formulas (§18.3.1.40): the first `f t="shared"` of an `si` in document order is the
     master and carries the text; a later `f` of the same `si` without text of its own stands for
     the master's formula translated by the distance between the two cells -/

structure Master where
  si : Nat
  col : Nat
  row : Nat
  text : Text

def expandShared : List Master → List CellV → List CellV
  | _, [] => []
  | ms, c :: rest =>
    match c.shared with
    | none => c :: expandShared ms rest
    | some si =>
      match ms.find? (·.si = si) with
      | none =>
        -- the master: its own text
        c :: expandShared (⟨si, colOf c.ref, rowOf c.ref, c.formula.getD []⟩ :: ms) rest
      | some m =>
        if (c.formula.getD []).isEmpty then
          let dc : Int := (colOf c.ref : Int) - m.col
          let dr : Int := (rowOf c.ref : Int) - m.row
          { c with formula := some (SharedF.translateText m.text dc dr), sharedChild := true } :: expandShared ms rest
        else { c with sharedChild := true } :: expandShared ms rest

/-! ## one worksheet -/

structure Link where
  ref : Text
  external : Bool
  target : Text
  location : Option Text := none     -- `location` when the link also has a relationship
  tooltip : Option Text := none
  display : Option Text := none
  deriving Repr, Inhabited

/-- one `<col>` element -/
structure ColV where
  min : Nat
  max : Nat
  width : Option Text
  hidden : Bool
  style : Nat
  deriving Repr, Inhabited

structure RowV where
  num : Nat
  height : Option Text
  hidden : Bool
  style : Option Nat          -- `s`, meaningful when `customFormat` is set
  deriving Repr, Inhabited

structure TableV where
  name : Text
  displayName : Text
  ref : Text
  columns : List Text
  deriving Repr, Inhabited

structure SheetV where
  name : Text
  state : String
  cells : List CellV
  merges : List Text
  links : List Link
  cols : List ColV := []
  rows : List RowV := []
  tables : List TableV := []
  noR : Bool := false            -- some row or cell carries no `r` (positions are implied)
  deriving Repr, Inhabited

def boolAttr (n : Node) (name : String) : Bool :=
  match n.attr? name.toList with
  | some v => v = ['1'] ∨ v = "true".toList
  | none => false

/-- row numbers: explicit `r`, else the previous row + 1 -/
def rowNumbers : Nat → List Node → List Nat
  | _, [] => []
  | prev, r :: rest =>
    let n := ((r.attr? "r".toList).bind natOf).getD (prev + 1)
    n :: rowNumbers n rest

/-- the positions of the cells of one `<row>` whose number is `rn`, as (column, row) pairs: exactly
    what `decodeSheet` below computes per row (`fillRefs rn 0` over the decoded cells) -/
def specRowPositions (sst : List Text) (rn : Nat) (row : Node) : List (Nat × Nat) :=
  (fillRefs rn 0 (((row.kids "c").map (decodeCell sst)).map (·.1))).map fun c => (colOf c.ref, rowOf c.ref)

/-- the positions of a `<sheetData>`: per row its number (`rowNumbers`) and the positions of its cells -/
def specPositions (sst : List Text) (prev : Nat) (rows : List Node) : List (Nat × List (Nat × Nat)) :=
  (rows.zip (rowNumbers prev rows)).map fun p => (p.2, specRowPositions sst p.2 p.1)

structure SheetBody where
  cells : List CellV := []
  merges : List Text := []
  links : List Link := []
  cols : List ColV := []
  rows : List RowV := []
  tables : List TableV := []
  noR : Bool := false

def decodeTable (p : Package) (path : String) : Option TableV :=
  ((p.part? path).bind (·.xml)).map fun t =>
    { name := (t.attr? "name".toList).getD [], displayName := (t.attr? "displayName".toList).getD [],
      ref := (t.attr? "ref".toList).getD [],
      columns := (((t.kid? "tableColumns").map (·.kids "tableColumn")).getD []).map (fun c => (c.attr? "name".toList).getD []) }

def decodeSheet (p : Package) (path : String) (sst : List Text) (nXf nDxf : Nat) : SheetBody × List String :=
  match (p.part? path).bind (·.xml) with
  | none => ({}, [s!"sheet part {path} is missing or not well-formed"])
  | some root =>
    let rels : List Rel := relsOf p path
    -- child order
    -- (markup-compatibility wrappers, Part 3, may stand anywhere and are not interpreted)
    let kidsNames := ((root.children.filter (·.isElem)).map (fun k => str (localName k.name))).filter (· ≠ "AlternateContent")
    let idxs := kidsNames.filterMap (indexIn worksheetOrder)
    let e1 := if nonDecreasing idxs then [] else [s!"{path}: worksheet children out of schema order: {kidsNames}"]
    let e1b := (kidsNames.filter (fun k => (indexIn worksheetOrder k).isNone)).map (fun k => s!"{path}: unknown worksheet child {k}")
    -- rows and cells
    let rows := ((root.kid? "sheetData").map (·.kids "row")).getD []
    let rowNums := rowNumbers 0 rows
    let e2 := if ascending rowNums then [] else [s!"{path}: rows not strictly ascending"]
    let e2b := if rowNums.all (fun r => 1 ≤ r ∧ r ≤ 1048576) then [] else [s!"{path}: row number outside 1..1048576"]
    let perRow : List (List CellV × List String) := (rows.zip rowNums).map fun (r, rn) =>
      let cs0 : List (CellV × List String) := (r.kids "c").map (decodeCell sst)
      let cells : List CellV := fillRefs rn 0 (cs0.map (·.1))
      let cols := cells.map (fun c => colOf c.ref)
      let errs := (cs0.flatMap (·.2)) ++
        (if ascending cols then [] else [s!"{path}: cells of row {rn} not strictly ascending"]) ++
        (if cells.all (fun c => rowOf c.ref = rn ∧ 1 ≤ colOf c.ref ∧ colOf c.ref ≤ 16384) then []
         else [s!"{path}: a cell of row {rn} has a reference outside its row or the grid"]) ++
        (if cells.all (fun c => c.style < nXf) then [] else [s!"{path}: a cell style index of row {rn} is outside cellXfs ({nXf})"])
      (cells, errs)
    let cells := expandShared [] (perRow.flatMap (·.1))
    let e3 := perRow.flatMap (·.2)
    let rowVs := (rows.zip rowNums).map fun (r, rn) =>
      { num := rn, height := r.attr? "ht".toList, hidden := boolAttr r "hidden",
        style := if boolAttr r "customFormat" then (r.attr? "s".toList).bind natOf else none : RowV }
    -- columns
    let colVs := (((root.kid? "cols").map (·.kids "col")).getD []).map fun c =>
      { min := ((c.attr? "min".toList).bind natOf).getD 0, max := ((c.attr? "max".toList).bind natOf).getD 0,
        width := c.attr? "width".toList, hidden := boolAttr c "hidden",
        style := ((c.attr? "style".toList).bind natOf).getD 0 : ColV }
    let e3b := if colVs.all (fun c => 1 ≤ c.min ∧ c.min ≤ c.max ∧ c.max ≤ 16384 ∧ c.style < nXf) then [] else [s!"{path}: a col element is outside the grid, inverted or has a style outside cellXfs"]
    -- merges
    let merges := ((root.kid? "mergeCells").map (·.kids "mergeCell")).getD [] |>.filterMap (·.attr? "ref".toList)
    -- hyperlinks through the relationships part
    let hl := ((root.kid? "hyperlinks").map (·.kids "hyperlink")).getD []
    let linksE := hl.map fun h =>
      let ref := (h.attr? "ref".toList).getD []
      let tip := h.attr? "tooltip".toList
      let disp := h.attr? "display".toList
      match h.attr? "r:id".toList with
      | some rid =>
        (match rels.find? (fun (r : Rel) => r.id = str rid) with
         | some r => ({ ref := ref, external := true, target := r.target.toList, location := h.attr? "location".toList, tooltip := tip, display := disp : Link }, ([] : List String))
         | none => ({ ref := ref, external := true, target := [], tooltip := tip, display := disp : Link }, [s!"{path}: hyperlink {str ref} refers to relationship {str rid} which does not exist"]))
      | none => ({ ref := ref, external := false, target := (h.attr? "location".toList).getD [], tooltip := tip, display := disp : Link }, [])
    -- other r:id users must resolve too
    let ridUsers := (root.children.filter (·.isElem)).filter (fun k => (k.attr? "r:id".toList).isSome)
    let e5 := ridUsers.filterMap fun k =>
      match k.attr? "r:id".toList with
      | some rid => if rels.any (fun (r : Rel) => r.id = str rid) then none else some s!"{path}: <{str k.name}> refers to relationship {str rid} which does not exist"
      | none => none
    -- differential format ids of conditional-formatting rules
    let dxfIds := (root.kids "conditionalFormatting").flatMap (fun cf => (cf.kids "cfRule").filterMap (fun r => (r.attr? "dxfId".toList).bind natOf))
    let e6 := if dxfIds.all (· < nDxf) then [] else [s!"{path}: a dxfId is outside dxfs ({nDxf})"]
    -- tables through the relationships part
    let tps := ((root.kid? "tableParts").map (·.kids "tablePart")).getD []
    let tables := tps.filterMap fun tp =>
      ((tp.attr? "r:id".toList).bind (fun rid => rels.find? (fun (r : Rel) => r.id = str rid))).bind fun r =>
        decodeTable p (resolveTarget path r.target)
    let noR := rows.any (fun r => (r.attr? "r".toList).isNone ∨ (r.kids "c").any (fun c => (c.attr? "r".toList).isNone))
    ({ cells := cells, merges := merges, links := linksE.map (·.1), cols := colVs, rows := rowVs, tables := tables, noR := noR },
     e1 ++ e1b ++ e2 ++ e2b ++ e3 ++ e3b ++ linksE.flatMap (·.2) ++ e5 ++ e6)

/-! ## styles (§18.8): what a cell's `s` index means, through `cellXfs` -/

/-- CT_Color (18.8.3 / 18.8.19): `rgb`, `theme`, `indexed`, `tint` (`auto` is not part of the view) -/
structure ColorV where
  rgb : Option Text := none
  theme : Option Nat := none
  indexed : Option Nat := none
  tint : Option Text := none
  deriving Repr, Inhabited, DecidableEq

/-- CT_Font (18.8.22), the facts the property names: `none` = the child element is absent -/
structure FontV where
  name : Option Text := none
  size : Option Text := none          -- `sz/@val` as written (a decimal number)
  bold : Bool := false
  italic : Bool := false
  strike : Bool := false
  underline : Text := "none".toList   -- `u/@val`, `single` when `<u/>` carries no `val`, `none` without `<u>`
  color : ColorV := {}
  deriving Repr, Inhabited, DecidableEq

/-- CT_Fill with a CT_PatternFill (18.8.20, 18.8.32) -/
structure FillV where
  pattern : Text := "none".toList
  fg : Option ColorV := none
  bg : Option ColorV := none
  deriving Repr, Inhabited, DecidableEq

/-- CT_BorderPr (18.8.4 ff.): `style` defaults to `none` -/
structure EdgeV where
  style : Text := "none".toList
  color : ColorV := {}
  deriving Repr, Inhabited, DecidableEq

structure BorderV where
  left : EdgeV := {}
  right : EdgeV := {}
  top : EdgeV := {}
  bottom : EdgeV := {}
  diagonal : EdgeV := {}
  diagonalUp : Bool := false
  diagonalDown : Bool := false
  deriving Repr, Inhabited, DecidableEq

/-- CT_CellAlignment (18.8.1), the four attributes of the view; `none` = the attribute is absent -/
structure AlignV where
  horizontal : Option Text := none
  vertical : Option Text := none
  wrapText : Option Bool := none
  textRotation : Option Nat := none
  deriving Repr, Inhabited, DecidableEq

/-- CT_CellProtection (18.8.33) -/
structure ProtV where
  locked : Option Bool := none
  hidden : Option Bool := none
  deriving Repr, Inhabited, DecidableEq

/-- what one `<xf>` of `cellXfs` means (18.8.45): each component "specified for this xf" is part of the
    cell's formatting when the corresponding `apply*` attribute says so; an absent `apply*` attribute
    (the schema gives no default) is read as "applied".  `none` = not applied (or, for alignment /
    protection, no such child). -/
structure XfV where
  numFmtId : Nat                  -- 0 (General) when the number format is not applied
  formatCode : Option Text        -- from `numFmts` when the id is defined there
  bold : Bool
  fillPattern : Text              -- `none` when the fill has no patternFill / no patternType
  fillFg : Text                   -- `rgb:AARRGGBB`, `theme:n`, `indexed:n` or empty
  numFmtApplied : Bool := true
  font : Option FontV := none
  fill : Option FillV := none
  border : Option BorderV := none
  alignment : Option AlignV := none
  protection : Option ProtV := none
  deriving Repr, Inhabited

/-- xsd:boolean lexical forms that mean true -/
def xsdTrue (v : Text) : Bool := v = ['1'] ∨ v = "true".toList

/-- a CT_BooleanProperty child such as `<b/>`: present means true unless `val` says otherwise -/
def boolProp (parent : Node) (name : String) : Bool :=
  match parent.kid? name with
  | none => false
  | some e => match e.attr? "val".toList with
    | none => true
    | some v => v = ['1'] ∨ v = "true".toList

def colorText (c : Node) : Text :=
  match c.attr? "rgb".toList, c.attr? "theme".toList, c.attr? "indexed".toList with
  | some v, _, _ => "rgb:".toList ++ v
  | none, some t, _ => "theme:".toList ++ t
  | none, none, some i => "indexed:".toList ++ i
  | none, none, none => []

def colorV (c : Node) : ColorV :=
  { rgb := c.attr? "rgb".toList, theme := (c.attr? "theme".toList).bind natOf,
    indexed := (c.attr? "indexed".toList).bind natOf, tint := c.attr? "tint".toList }

/-- the `val` of the child `name` -/
def valOf (parent : Node) (name : String) : Option Text := (parent.kid? name).bind (·.attr? "val".toList)

def fontV (f : Node) : FontV :=
  { name := valOf f "name", size := valOf f "sz", bold := boolProp f "b", italic := boolProp f "i",
    strike := boolProp f "strike",
    underline := match f.kid? "u" with
      | none => "none".toList
      | some u => (u.attr? "val".toList).getD "single".toList,
    color := ((f.kid? "color").map colorV).getD {} }

def fillV (f : Node) : FillV :=
  match f.kid? "patternFill" with
  | none => {}
  | some pf =>
    { pattern := (pf.attr? "patternType".toList).getD "none".toList,
      fg := (pf.kid? "fgColor").map colorV, bg := (pf.kid? "bgColor").map colorV }

def edgeV (b : Node) (name : String) : EdgeV :=
  match b.kid? name with
  | none => {}
  | some e => { style := (e.attr? "style".toList).getD "none".toList, color := ((e.kid? "color").map colorV).getD {} }

def borderV (b : Node) : BorderV :=
  { left := edgeV b "left", right := edgeV b "right", top := edgeV b "top", bottom := edgeV b "bottom",
    diagonal := edgeV b "diagonal",
    diagonalUp := ((b.attr? "diagonalUp".toList).map xsdTrue).getD false,
    diagonalDown := ((b.attr? "diagonalDown".toList).map xsdTrue).getD false }

def alignV (a : Node) : AlignV :=
  { horizontal := a.attr? "horizontal".toList, vertical := a.attr? "vertical".toList,
    wrapText := (a.attr? "wrapText".toList).map xsdTrue,
    textRotation := (a.attr? "textRotation".toList).bind natOf }

def protV (p : Node) : ProtV :=
  { locked := (p.attr? "locked".toList).map xsdTrue, hidden := (p.attr? "hidden".toList).map xsdTrue }

/-- an `apply*` attribute of an `<xf>`: absent = applied -/
def applied (xf : Node) (name : String) : Bool := ((xf.attr? name.toList).map xsdTrue).getD true

/-- the custom number formats of `<numFmts>` -/
def numFmtTable (sr : Node) : List (Nat × Text) :=
  (((sr.kid? "numFmts").map (·.kids "numFmt")).getD []).filterMap fun n =>
    match (n.attr? "numFmtId".toList).bind natOf, n.attr? "formatCode".toList with
    | some i, some c => some (i, c)
    | _, _ => none

/-- one `<xf>` of `cellXfs` against the component tables -/
def xfV (numFmts : List (Nat × Text)) (fonts fills borders : List Node) (xf : Node) : XfV :=
  let nfA := applied xf "applyNumberFormat"
  let nf := if nfA then ((xf.attr? "numFmtId".toList).bind natOf).getD 0 else 0
  let fontId := ((xf.attr? "fontId".toList).bind natOf).getD 0
  let fillId := ((xf.attr? "fillId".toList).bind natOf).getD 0
  let borderId := ((xf.attr? "borderId".toList).bind natOf).getD 0
  let fontN := if applied xf "applyFont" then fonts[fontId]? else none
  let fillN := if applied xf "applyFill" then fills[fillId]? else none
  let borderN := if applied xf "applyBorder" then borders[borderId]? else none
  let bold := match fontN with | some f => boolProp f "b" | none => false
  let pf := fillN.bind (·.kid? "patternFill")
  let pat := (pf.bind (·.attr? "patternType".toList)).getD "none".toList
  let fg := ((pf.bind (·.kid? "fgColor")).map colorText).getD []
  { numFmtId := nf, formatCode := if nfA then (numFmts.find? (·.1 = nf)).map (·.2) else none,
    bold := bold, fillPattern := pat, fillFg := fg,
    numFmtApplied := nfA, font := fontN.map fontV, fill := fillN.map fillV, border := borderN.map borderV,
    alignment := if applied xf "applyAlignment" then (xf.kid? "alignment").map alignV else none,
    protection := if applied xf "applyProtection" then (xf.kid? "protection").map protV else none }

def styleTable (sr : Node) : List XfV :=
  let fonts := ((sr.kid? "fonts").map (·.kids "font")).getD []
  let fills := ((sr.kid? "fills").map (·.kids "fill")).getD []
  let borders := ((sr.kid? "borders").map (·.kids "border")).getD []
  let xfs := ((sr.kid? "cellXfs").map (·.kids "xf")).getD []
  xfs.map (xfV (numFmtTable sr) fonts fills borders)

/-! ## the workbook -/

structure NameV where
  name : Text
  scope : Option Nat
  text : Text
  deriving Repr, Inhabited

structure BookV where
  sheets : List SheetV
  active : Nat
  names : List NameV
  xfs : List XfV := []
  deriving Repr, Inhabited

def decode (p : Package) : Option BookV × List String :=
  -- every part needs a content type; every XML part must be well-formed
  let e0 := p.filterMap fun part =>
    if part.name = "[Content_Types].xml" then none
    else if (contentTypeOf p part.name).isNone then some s!"part {part.name} has no content type" else none
  let e0b := p.filterMap fun part => if part.isXml ∧ part.xml.isNone then some s!"part {part.name} is not well-formed XML" else none
  -- relationship parts: unique ids, internal targets exist
  let e0c := p.flatMap fun part =>
    if isRelsNameL part.name.toList then
      -- the source part of `a/_rels/b.rels` is `a/b`
      let src := String.ofList (relsSourceL part.name.toList)
      let rs := relsOf p src
      let ids := rs.map (·.id)
      (if ids.eraseDups.length = ids.length then [] else [s!"{part.name}: duplicate relationship ids"]) ++
      rs.filterMap fun r =>
        if r.external then none
        else
          let t := resolveTarget src r.target
          if (p.part? t).isSome then none else some s!"{part.name}: relationship {r.id} targets {t} which is not in the package"
    else []
  let mainRel := (relsOf p "").find? (fun r => r.type.endsWith "/officeDocument")
  match mainRel with
  | none => (none, e0 ++ e0b ++ e0c ++ ["no officeDocument relationship in _rels/.rels"])
  | some mr =>
    let wbPath := resolveTarget "" mr.target
    match (p.part? wbPath).bind (·.xml) with
    | none => (none, e0 ++ e0b ++ e0c ++ [s!"workbook part {wbPath} missing or malformed"])
    | some wb =>
      let wrels := relsOf p wbPath
      let sstPath := (wrels.find? (fun r => r.type.endsWith "/sharedStrings")).map (fun r => resolveTarget wbPath r.target)
      let sst := match sstPath with | some sp => sharedStrings p sp | none => []
      let stylesPath := (wrels.find? (fun r => r.type.endsWith "/styles")).map (fun r => resolveTarget wbPath r.target)
      let stylesRoot := (stylesPath.bind p.part?).bind (·.xml)
      let nXf := match stylesRoot with
        | some sr => ((sr.kid? "cellXfs").map (fun x => (x.kids "xf").length)).getD 1
        | none => 1
      let nDxf := match stylesRoot with
        | some sr => ((sr.kid? "dxfs").map (fun x => (x.kids "dxf").length)).getD 0
        | none => 0
      let sheetEls := ((wb.kid? "sheets").map (·.kids "sheet")).getD []
      let names := sheetEls.map (fun s => (s.attr? "name".toList).getD [])
      let lower := names.map (fun n => (str n).toLower)
      let e1 := if lower.eraseDups.length = lower.length then [] else ["sheet names are not unique"]
      let ids := sheetEls.filterMap (fun s => s.attr? "sheetId".toList)
      let e2 := if ids.eraseDups.length = ids.length ∧ ids.length = sheetEls.length then [] else ["sheetIds missing or not unique"]
      let sheetsE := sheetEls.map fun s =>
        let name := (s.attr? "name".toList).getD []
        let state := str ((s.attr? "state".toList).getD "visible".toList)
        match (s.attr? "r:id".toList).bind (fun rid => wrels.find? (fun (r : Rel) => r.id = str rid)) with
        | none => (SheetV.mk name state [] [] [] [] [] [] false, [s!"sheet {str name}: r:id does not resolve"])
        | some r =>
          let path := resolveTarget wbPath r.target
          let (b, errs) := decodeSheet p path sst nXf nDxf
          (SheetV.mk name state b.cells b.merges b.links b.cols b.rows b.tables b.noR, errs)
      let active := (((wb.kid? "bookViews").bind (·.kid? "workbookView")).bind (fun v => (v.attr? "activeTab".toList).bind natOf)).getD 0
      let e3 := if sheetEls.isEmpty ∨ active < sheetEls.length then [] else [s!"activeTab {active} is outside the sheet list of {sheetEls.length}"]
      let dn := ((wb.kid? "definedNames").map (·.kids "definedName")).getD []
      let namesV := dn.map fun d => NameV.mk ((d.attr? "name".toList).getD []) ((d.attr? "localSheetId".toList).bind natOf) d.ownText
      let e4 := namesV.filterMap fun n => match n.scope with
        | some i => if i < sheetEls.length then none else some s!"defined name {str n.name}: localSheetId {i} outside the sheet list"
        | none => none
      (some { sheets := sheetsE.map (·.1), active := active, names := namesV,
              xfs := (stylesRoot.map styleTable).getD [] },
       e0 ++ e0b ++ e0c ++ e1 ++ e2 ++ sheetsE.flatMap (·.2) ++ e3 ++ e4)

/-! ## cells without `s` (18.3.1.4: the default of `s` is 0; the view shows such a cell as "no style of its own") -/

/-- the references of the cells of a worksheet part that carry no `s` -/
def unstyledRefs (root : Node) : List Text :=
  let rows := ((root.kid? "sheetData").map (·.kids "row")).getD []
  (rows.zip (rowNumbers 0 rows)).flatMap fun (r, rn) =>
    let cs := r.kids "c"
    let cells := fillRefs rn 0 (cs.map fun c => (decodeCell [] c).1)
    (cells.zip cs).filterMap fun (cv, c) => if (c.attr? "s".toList).isNone then some cv.ref else none

/-- per sheet of the workbook, in sheet-list order: `unstyledRefs` of its part (the same part look-up as `decode`) -/
def unstyledOf (p : Package) : List (List Text) :=
  match (relsOf p "").find? (fun r => r.type.endsWith "/officeDocument") with
  | none => []
  | some mr =>
    let wbPath := resolveTarget "" mr.target
    match (p.part? wbPath).bind (·.xml) with
    | none => []
    | some wb =>
      let wrels := relsOf p wbPath
      (((wb.kid? "sheets").map (·.kids "sheet")).getD []).map fun s =>
        match (s.attr? "r:id".toList).bind (fun rid => wrels.find? (fun (r : Rel) => r.id = str rid)) with
        | none => []
        | some r => (((p.part? (resolveTarget wbPath r.target)).bind (·.xml)).map unstyledRefs).getD []

end Umya.Spec.Sml
