/-
  Reference semantics of a HISTORY of edits on a grid (C07), written from the property text:
  the edits of the property ("insert / remove rows / columns, move, copy", plus placing and
  deleting one cell) as data, one reference step per edit (`Spec/Grid.lean`), and the fold of the
  reference steps over a list of edits.
-/
import Umya.Spec.Grid
namespace Umya.Spec.Grid

/-- the edits of the property, as data -/
inductive Edit where
  | setCell (col row v sty : Nat)          -- place a cell (content token, style token) at (row, col)
  | removeCell (col row : Nat)             -- delete the cell at (row, col)
  | insRows (p n : Nat)
  | insCols (p n : Nat)
  | remRows (p n : Nat)
  | remCols (p n : Nat)
  | move (ρ : Rect) (dr dc : Int)
  | copy (ρ : Rect) (dr dc : Int)
  deriving Repr, DecidableEq

/-- placing a cell: that position holds the new content, every other position is unchanged -/
def setAt {α} (g : Grid α) (row col : Nat) (x : α) : Grid α :=
  fun r c => if (r, c) = (row, col) then some x else g r c

/-- deleting a cell: that position is blank, every other position is unchanged -/
def clearAt {α} (g : Grid α) (row col : Nat) : Grid α :=
  fun r c => if (r, c) = (row, col) then none else g r c

/-- one reference step -/
def specStep {α} (mk : Nat → Nat → α) (g : Grid α) : Edit → Grid α
  | .setCell col row v sty => setAt g row col (mk v sty)
  | .removeCell col row => clearAt g row col
  | .insRows p n => insertRows g p n
  | .insCols p n => insertCols g p n
  | .remRows p n => removeRows g p n
  | .remCols p n => removeCols g p n
  | .move ρ dr dc => moveRect g ρ dr dc
  | .copy ρ dr dc => copyRect g ρ dr dc

/-- the fold of the reference steps over a history -/
def specRun {α} (mk : Nat → Nat → α) (g : Grid α) : List Edit → Grid α
  | [] => g
  | e :: es => specRun mk (specStep mk g e) es

/-- every non-blank position of the grid lies inside `1..1048576 × 1..16384` -/
def GridIn {α} (g : Grid α) : Prop :=
  ∀ r c, g r c ≠ none → 1 ≤ r ∧ r ≤ maxRow ∧ 1 ≤ c ∧ c ≤ maxCol

end Umya.Spec.Grid
