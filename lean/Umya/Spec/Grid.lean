/-
  Reference semantics of structural edits on a grid, written from the property text (C07), not
  from the Rust: a sheet is a function from (row, column) to optional content; inserting `n` lines
  at `p` moves everything at or beyond `p` by `n`; removing deletes the band `[p, p+n)` and moves
  everything beyond it back by `n`; an interval (one axis of a rectangle) that lies inside the
  band disappears, one that straddles it shrinks.
-/
namespace Umya.Spec.Grid

abbrev Grid (α : Type) := Nat → Nat → Option α      -- row → column → content

def insertRows {α} (g : Grid α) (p n : Nat) : Grid α :=
  fun r c => if r < p then g r c else if r < p + n then none else g (r - n) c

def insertCols {α} (g : Grid α) (p n : Nat) : Grid α :=
  fun r c => if c < p then g r c else if c < p + n then none else g r (c - n)

def removeRows {α} (g : Grid α) (p n : Nat) : Grid α :=
  fun r c => if r < p then g r c else g (r + n) c

def removeCols {α} (g : Grid α) (p n : Nat) : Grid α :=
  fun r c => if c < p then g r c else g r (c + n)

theorem removeRows_insertRows {α} (g : Grid α) (p n : Nat) : removeRows (insertRows g p n) p n = g := by
  funext r c
  simp only [removeRows, insertRows]
  by_cases h : r < p
  · simp [h]
  · have h1 : ¬ (r + n < p) := by omega
    have h2 : ¬ (r + n < p + n) := by omega
    simp [h, h1, h2]

theorem removeCols_insertCols {α} (g : Grid α) (p n : Nat) : removeCols (insertCols g p n) p n = g := by
  funext r c
  simp only [removeCols, insertCols]
  by_cases h : c < p
  · simp [h]
  · have h1 : ¬ (c + n < p) := by omega
    have h2 : ¬ (c + n < p + n) := by omega
    simp [h, h1, h2]

/-- one axis `[a, b]` of a rectangle after inserting `n` lines at `p` -/
def intervalInsert (a b p n : Nat) : Nat × Nat :=
  (if a ≥ p then a + n else a, if b ≥ p then b + n else b)

/-- one axis `[a, b]` of a rectangle after removing the band `[p, p+n)`; `none` = it lay inside -/
def intervalRemove (a b p n : Nat) : Option (Nat × Nat) :=
  if (p ≤ a ∧ a < p + n) ∧ (p ≤ b ∧ b < p + n) then none
  else some (if a < p then a else if a < p + n then p else a - n,
             if b < p then b else if b < p + n then p - 1 else b - n)

/-- the surviving interval is exactly the image of the surviving lines of `[a, b]` -/
theorem intervalRemove_spec (a b p n : Nat) (hab : a ≤ b) (hp : 1 ≤ p) (x : Nat) :
    (∃ y, a ≤ y ∧ y ≤ b ∧ ¬ (p ≤ y ∧ y < p + n) ∧ x = (if y < p then y else y - n)) ↔
    (∃ i, intervalRemove a b p n = some i ∧ i.1 ≤ x ∧ x ≤ i.2) := by
  unfold intervalRemove
  constructor
  · rintro ⟨y, h1, h2, h3, rfl⟩
    have hne : ¬ ((p ≤ a ∧ a < p + n) ∧ (p ≤ b ∧ b < p + n)) := by omega
    rw [if_neg hne]
    refine ⟨_, rfl, ?_, ?_⟩ <;> simp only <;> split <;> (try split) <;> (try split) <;> omega
  · rintro ⟨i, hi, h1, h2⟩
    split at hi
    · simp at hi
    · injection hi with hi; subst hi
      simp only at h1 h2
      by_cases hx : x < p
      · refine ⟨x, ?_, ?_, by omega, by simp [hx]⟩ <;> (split at h1 <;> split at h2 <;> (try split at h1) <;> (try split at h2) <;> omega)
      · refine ⟨x + n, ?_, ?_, by omega, ?_⟩
        · split at h1 <;> split at h2 <;> (try split at h1) <;> (try split at h2) <;> omega
        · split at h1 <;> split at h2 <;> (try split at h1) <;> (try split at h2) <;> omega
        · have : ¬ (x + n < p) := by omega
          simp [this]

end Umya.Spec.Grid
