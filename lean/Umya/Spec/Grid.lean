/-
  Reference semantics of structural edits on a grid, written from the property text (C07), not
  from the Rust: a sheet is a function from (row, column) to optional content; inserting `n` lines
  at `p` moves everything at or beyond `p` by `n`; removing deletes the band `[p, p+n)` and moves
  everything beyond it back by `n`; an interval (one axis of a rectangle) that lies inside the
  band disappears, one that straddles it shrinks.
-/
namespace Umya.Spec.Grid

abbrev Grid (α : Type) := Nat → Nat → Option α      -- row → column → content

def insertRows {α} (g : Grid α) (p n : Nat) : Grid α :=
  fun r c => if r < p then g r c else if r < p + n then none else g (r - n) c

def insertCols {α} (g : Grid α) (p n : Nat) : Grid α :=
  fun r c => if c < p then g r c else if c < p + n then none else g r (c - n)

def removeRows {α} (g : Grid α) (p n : Nat) : Grid α :=
  fun r c => if r < p then g r c else g (r + n) c

def removeCols {α} (g : Grid α) (p n : Nat) : Grid α :=
  fun r c => if c < p then g r c else g r (c + n)

theorem removeRows_insertRows {α} (g : Grid α) (p n : Nat) : removeRows (insertRows g p n) p n = g := by
  funext r c
  simp only [removeRows, insertRows]
  by_cases h : r < p
  · simp [h]
  · have h1 : ¬ (r + n < p) := by omega
    have h2 : ¬ (r + n < p + n) := by omega
    simp [h, h1, h2]

theorem removeCols_insertCols {α} (g : Grid α) (p n : Nat) : removeCols (insertCols g p n) p n = g := by
  funext r c
  simp only [removeCols, insertCols]
  by_cases h : c < p
  · simp [h]
  · have h1 : ¬ (c + n < p) := by omega
    have h2 : ¬ (c + n < p + n) := by omega
    simp [h, h1, h2]

/-- one axis `[a, b]` of a rectangle after inserting `n` lines at `p` -/
def intervalInsert (a b p n : Nat) : Nat × Nat :=
  (if a ≥ p then a + n else a, if b ≥ p then b + n else b)

/-- one axis `[a, b]` of a rectangle after removing the band `[p, p+n)`; `none` = it lay inside -/
def intervalRemove (a b p n : Nat) : Option (Nat × Nat) :=
  if (p ≤ a ∧ a < p + n) ∧ (p ≤ b ∧ b < p + n) then none
  else some (if a < p then a else if a < p + n then p else a - n,
             if b < p then b else if b < p + n then p - 1 else b - n)

/-- the surviving interval is exactly the image of the surviving lines of `[a, b]` -/
theorem intervalRemove_spec (a b p n : Nat) (hab : a ≤ b) (hp : 1 ≤ p) (x : Nat) :
    (∃ y, a ≤ y ∧ y ≤ b ∧ ¬ (p ≤ y ∧ y < p + n) ∧ x = (if y < p then y else y - n)) ↔
    (∃ i, intervalRemove a b p n = some i ∧ i.1 ≤ x ∧ x ≤ i.2) := by
  unfold intervalRemove
  constructor
  · rintro ⟨y, h1, h2, h3, rfl⟩
    have hne : ¬ ((p ≤ a ∧ a < p + n) ∧ (p ≤ b ∧ b < p + n)) := by omega
    rw [if_neg hne]
    refine ⟨_, rfl, ?_, ?_⟩ <;> simp only <;> split <;> (try split) <;> (try split) <;> omega
  · rintro ⟨i, hi, h1, h2⟩
    split at hi
    · simp at hi
    · injection hi with hi; subst hi
      simp only at h1 h2
      by_cases hx : x < p
      · refine ⟨x, ?_, ?_, by omega, by simp [hx]⟩ <;> (split at h1 <;> split at h2 <;> (try split at h1) <;> (try split at h2) <;> omega)
      · refine ⟨x + n, ?_, ?_, by omega, ?_⟩
        · split at h1 <;> split at h2 <;> (try split at h1) <;> (try split at h2) <;> omega
        · split at h1 <;> split at h2 <;> (try split at h1) <;> (try split at h2) <;> omega
        · have : ¬ (x + n < p) := by omega
          simp [this]

/-! ## moving / copying a rectangle (written from the property text)

  "Moving a range leaves the source rectangle empty and the destination rectangle holding exactly
  the source cells (value, style and formula text as they were) at their translated positions,
  while copying keeps the source and places every non-blank source cell at its translated
  position."  A position is *blank* when the grid holds nothing there (`none`). -/

/-- the rectangle rows `rs..re` × columns `cs..ce` (inclusive) -/
structure Rect where
  rs : Nat
  re : Nat
  cs : Nat
  ce : Nat
  deriving Repr, DecidableEq

/-- `(r, c)` lies in the rectangle (integers, so that pre-images under a negative offset can be asked) -/
def Rect.has (ρ : Rect) (r c : Int) : Prop :=
  (ρ.rs : Int) ≤ r ∧ r ≤ (ρ.re : Int) ∧ (ρ.cs : Int) ≤ c ∧ c ≤ (ρ.ce : Int)

instance (ρ : Rect) (r c : Int) : Decidable (ρ.has r c) := by unfold Rect.has; exact inferInstance

/-- `(r, c)` lies in the destination rectangle `ρ + (dr, dc)`: its pre-image lies in `ρ` -/
def Rect.hasImage (ρ : Rect) (dr dc : Int) (r c : Nat) : Prop := ρ.has ((r : Int) - dr) ((c : Int) - dc)

instance (ρ : Rect) (dr dc : Int) (r c : Nat) : Decidable (ρ.hasImage dr dc r c) := by
  unfold Rect.hasImage; exact inferInstance

/-- the grid limits of the file format -/
def maxRow : Nat := 1048576
def maxCol : Nat := 16384

/-- in-range arguments of a move / copy: a non-empty rectangle inside the grid whose image under
    the offset `(dr, dc)` is inside the grid as well -/
def InRange (ρ : Rect) (dr dc : Int) : Prop :=
  1 ≤ ρ.rs ∧ ρ.rs ≤ ρ.re ∧ ρ.re ≤ maxRow ∧ 1 ≤ ρ.cs ∧ ρ.cs ≤ ρ.ce ∧ ρ.ce ≤ maxCol ∧
  1 ≤ (ρ.rs : Int) + dr ∧ (ρ.re : Int) + dr ≤ (maxRow : Int) ∧
  1 ≤ (ρ.cs : Int) + dc ∧ (ρ.ce : Int) + dc ≤ (maxCol : Int)

instance (ρ : Rect) (dr dc : Int) : Decidable (InRange ρ dr dc) := by unfold InRange; exact inferInstance

/-- Move: every position of the destination rectangle takes what the source held at the pre-image
    (a blank source position makes the destination position blank); a position of the source
    rectangle outside the destination becomes blank; everything else is unchanged.
    Source and destination may overlap. -/
def moveRect {α} (g : Grid α) (ρ : Rect) (dr dc : Int) : Grid α :=
  fun r c =>
    if ρ.hasImage dr dc r c then g ((r : Int) - dr).toNat ((c : Int) - dc).toNat
    else if ρ.has r c then none
    else g r c

/-- Copy: every non-blank source cell overwrites its image; under a blank source position the
    destination keeps what it had; everything outside the destination (the source included) is
    unchanged.  The source content is read before anything is written (overlap included). -/
def copyRect {α} (g : Grid α) (ρ : Rect) (dr dc : Int) : Grid α :=
  fun r c =>
    if ρ.hasImage dr dc r c then
      match g ((r : Int) - dr).toNat ((c : Int) - dc).toNat with
      | some x => some x
      | none => g r c
    else g r c

end Umya.Spec.Grid
