/-
  Reference semantics of formulas, written from the text of properties C08 / C09 (not from the
  Rust): a formula AST, its printer, and what translation by (dc,dr), inserting rows/columns and
  removing rows/columns mean for the references of a formula.

  The only things shared with the model are the column-letter / decimal printers of
  `Umya.Model.Coord` (`colRefText`, `rowRefText`: `$`-flag + bijective base-26 letters / decimal
  digits), whose correctness is property C17.
-/
import Umya.Model.Coord
namespace Umya.Spec
open Umya.Coord Umya.Dec

def maxCol : Nat := 16384
def maxRow : Nat := 1048576

/-! ## references -/

/-- one corner of a reference; a whole-column corner has no row, a whole-row corner no column -/
structure Corner where
  col : Option Ref
  row : Option Ref
  deriving Repr, DecidableEq

def Corner.text (k : Corner) : List Char := optText colRefText k.col ++ optText rowRefText k.row

/-- `A1` is `one`; `A1:B2`, `A:B`, `1:2` are `two` -/
inductive Area where
  | one (k : Corner)
  | two (k1 k2 : Corner)
  deriving Repr, DecidableEq

def Area.text : Area → List Char
  | .one k => k.text
  | .two a b => a.text ++ ':' :: b.text

/-- sheet qualifier: the sheet name (or `[book]sheet`) and whether it is written in apostrophes -/
structure Qual where
  name : List Char
  quoted : Bool
  deriving Repr, DecidableEq

def Qual.text (q : Qual) : List Char :=
  if q.quoted then '\'' :: (replaceApos q.name ++ ['\'', '!']) else q.name ++ ['!']

structure CRef where
  sheet : Option Qual
  area : Area
  deriving Repr, DecidableEq

def CRef.text (r : CRef) : List Char :=
  (match r.sheet with | some q => q.text | none => []) ++ r.area.text

/-! ### well-formedness of what the grammar generates -/

def refIn (max : Nat) (p : Option Ref) : Prop := ∀ x, p = some x → 1 ≤ x.num ∧ x.num ≤ max

def Corner.InGrid (k : Corner) : Prop := refIn maxCol k.col ∧ refIn maxRow k.row

def leOpt (a b : Option Ref) : Prop := ∀ x y, a = some x → b = some y → x.num ≤ y.num

/-- a cell, a cell range, whole columns or whole rows; inside the grid; written normalised -/
def Area.WF : Area → Prop
  | .one k => k.col.isSome ∧ k.row.isSome ∧ k.InGrid
  | .two a b =>
    ((a.col.isSome ∧ a.row.isSome ∧ b.col.isSome ∧ b.row.isSome) ∨
     (a.col.isSome ∧ a.row.isNone ∧ b.col.isSome ∧ b.row.isNone) ∨
     (a.col.isNone ∧ a.row.isSome ∧ b.col.isNone ∧ b.row.isSome)) ∧
    a.InGrid ∧ b.InGrid ∧ leOpt a.col b.col ∧ leOpt a.row b.row

/-- a name that may be written without apostrophes contains none; every name is non-empty -/
def Qual.WF (q : Qual) : Prop := q.name ≠ [] ∧ (q.quoted = false → '\'' ∉ q.name)

def CRef.WF (r : CRef) : Prop := r.area.WF ∧ ∀ q, r.sheet = some q → q.WF

/-! ### translation by (dc, dr): `$` parts stay, the others move; outside the grid = `#REF!` -/

def trPart (p : Ref) (d : Int) (max : Nat) : Option Ref :=
  if p.lock then some p
  else
    let v : Int := (p.num : Int) + d
    if 1 ≤ v ∧ v ≤ (max : Int) then some ⟨v.toNat, false⟩ else none

/-- `none` = the reference leaves the grid; `some none` = the part is absent -/
def trOpt (p : Option Ref) (d : Int) (max : Nat) : Option (Option Ref) :=
  match p with
  | none => some none
  | some x => (trPart x d max).map some

def trCorner (k : Corner) (dc dr : Int) : Option Corner :=
  match trOpt k.col dc maxCol, trOpt k.row dr maxRow with
  | some c, some r => some ⟨c, r⟩
  | _, _ => none

def trArea (a : Area) (dc dr : Int) : Option Area :=
  match a with
  | .one k => (trCorner k dc dr).map .one
  | .two k1 k2 =>
    match trCorner k1 dc dr, trCorner k2 dc dr with
    | some a, some b => some (.two a b)
    | _, _ => none

/-! ### insert `n` lines at `at_` on one axis -/

def insNum (x at_ n : Nat) : Nat := if x ≥ at_ then x + n else x

/-- a (start, end) pair of one axis: `none` = nothing of the target is left on the grid -/
def insAxis (a b : Option Ref) (at_ n max : Nat) : Option (Option Ref × Option Ref) :=
  match a, b with
  | some x, some y =>
    if insNum x.num at_ n > max then none
    else some (some ⟨insNum x.num at_ n, x.lock⟩, some ⟨min (insNum y.num at_ n) max, y.lock⟩)
  | some x, none =>
    if insNum x.num at_ n > max then none else some (some ⟨insNum x.num at_ n, x.lock⟩, none)
  | none, some y =>
    if insNum y.num at_ n > max then none else some (none, some ⟨insNum y.num at_ n, y.lock⟩)
  | none, none => some (none, none)

/-! ### remove the `n` lines `[at_, at_ + n)` on one axis -/

def inBand (x at_ n : Nat) : Bool := at_ ≤ x && x < at_ + n
def remNum (x at_ n : Nat) : Nat := if x ≥ at_ + n then x - n else x

/-- `none` = the whole target was deleted; a range that loses one end is clamped -/
def remAxis (a b : Option Ref) (at_ n : Nat) : Option (Option Ref × Option Ref) :=
  match a, b with
  | some x, some y =>
    if inBand x.num at_ n && inBand y.num at_ n then none
    else some (some ⟨if inBand x.num at_ n then at_ else remNum x.num at_ n, x.lock⟩,
               some ⟨if inBand y.num at_ n then at_ - 1 else remNum y.num at_ n, y.lock⟩)
  | some x, none =>
    if inBand x.num at_ n then none else some (some ⟨remNum x.num at_ n, x.lock⟩, none)
  | none, some y =>
    if inBand y.num at_ n then none else some (none, some ⟨remNum y.num at_ n, y.lock⟩)
  | none, none => some (none, none)

inductive Axis where
  | row | col
  deriving Repr, DecidableEq

def startOf : Area → Corner
  | .one k => k
  | .two a _ => a

def endOf : Area → Corner
  | .one _ => ⟨none, none⟩
  | .two _ b => b

/-- rebuild an area from the new (start, end) parts of both axes -/
def rebuild (a : Area) (cols rows : Option Ref × Option Ref) : Area :=
  match a with
  | .one _ => .one ⟨cols.1, rows.1⟩
  | .two _ _ => .two ⟨cols.1, rows.1⟩ ⟨cols.2, rows.2⟩

def insArea (a : Area) (ax : Axis) (at_ n : Nat) : Option Area :=
  let s := startOf a
  let e := endOf a
  match ax with
  | .col => (insAxis s.col e.col at_ n maxCol).map (fun c => rebuild a c (s.row, e.row))
  | .row => (insAxis s.row e.row at_ n maxRow).map (fun r => rebuild a (s.col, e.col) r)

def remArea (a : Area) (ax : Axis) (at_ n : Nat) : Option Area :=
  let s := startOf a
  let e := endOf a
  match ax with
  | .col => (remAxis s.col e.col at_ n).map (fun c => rebuild a c (s.row, e.row))
  | .row => (remAxis s.row e.row at_ n).map (fun r => rebuild a (s.col, e.col) r)

/-- does an edit of sheet `edited` concern reference `r` of a formula on sheet `self`? -/
def concernsRef (r : CRef) (self edited : List Char) : Bool :=
  match r.sheet with
  | some q => q.name = edited
  | none => self = edited

/-! ## defined names: the range of a name address (a sheet name and a `Range`) under an edit of
   the sheet the address refers to -/

def insOpt (p : Option Ref) (at_ n : Nat) : Option Ref := p.map (fun x => ⟨insNum x.num at_ n, x.lock⟩)

/-- `n` lines inserted at `at_`: every part at or behind the insertion point moves by `n` -/
def shiftRangeInsert (ρ : Range) (ax : Axis) (at_ n : Nat) : Range :=
  match ax with
  | .col => { ρ with startCol := insOpt ρ.startCol at_ n, endCol := insOpt ρ.endCol at_ n }
  | .row => { ρ with startRow := insOpt ρ.startRow at_ n, endRow := insOpt ρ.endRow at_ n }

/-- the lines `[at_, at_ + n)` removed: `none` = the whole target was deleted; a range that loses
    one end is clamped to what is left of it (`remAxis`) -/
def shiftRangeRemove (ρ : Range) (ax : Axis) (at_ n : Nat) : Option Range :=
  match ax with
  | .col => (remAxis ρ.startCol ρ.endCol at_ n).map fun c => { ρ with startCol := c.1, endCol := c.2 }
  | .row => (remAxis ρ.startRow ρ.endRow at_ n).map fun r => { ρ with startRow := r.1, endRow := r.2 }

/-! ## the formula AST -/

inductive ErrLit where
  | null | div0 | value | ref | name | num | na
  deriving Repr, DecidableEq

def ErrLit.text : ErrLit → List Char
  | .null => ['#', 'N', 'U', 'L', 'L', '!']
  | .div0 => ['#', 'D', 'I', 'V', '/', '0', '!']
  | .value => ['#', 'V', 'A', 'L', 'U', 'E', '!']
  | .ref => ['#', 'R', 'E', 'F', '!']
  | .name => ['#', 'N', 'A', 'M', 'E', '?']
  | .num => ['#', 'N', 'U', 'M', '!']
  | .na => ['#', 'N', '/', 'A']

inductive BinOp where
  | add | sub | mul | div | pow | cat | eq | lt | gt | le | ge | ne
  deriving Repr, DecidableEq

def BinOp.text : BinOp → List Char
  | .add => ['+'] | .sub => ['-'] | .mul => ['*'] | .div => ['/'] | .pow => ['^'] | .cat => ['&']
  | .eq => ['='] | .lt => ['<'] | .gt => ['>'] | .le => ['<', '='] | .ge => ['>', '='] | .ne => ['<', '>']

/-- an element of an array constant: a number (possibly negated), a string, a boolean or an error -/
inductive Const where
  | num (neg : Bool) (t : List Char)
  | str (s : List Char)
  | bool (b : Bool)
  | err (e : ErrLit)
  deriving Repr, DecidableEq

mutual
  inductive Expr where
    | num (t : List Char)        -- number literal as written
    | str (s : List Char)        -- string literal (content, quotes not doubled)
    | bool (b : Bool)
    | err (e : ErrLit)
    | name (n : List Char)       -- defined name
    | ref (r : CRef)
    | opaque (t : List Char)     -- structured reference: an atom
    | array (rows : List (List Const))   -- array constant `{a,b;c,d}`: rows of constants
    | neg (e : Expr)
    | pos (e : Expr)
    | pct (e : Expr)
    | bin (op : BinOp) (a b : Expr)
    | isect (a b : Expr)         -- intersection: one blank
    | union (es : Args)          -- `(a,b,..)`
    | paren (e : Expr)
    | call (f : List Char) (as : Args)
  inductive Args where
    | nil
    | cons (e : Expr) (rest : Args)
    | skip (rest : Args)         -- an empty argument
end

def dbl (s : List Char) : List Char := s.flatMap (fun c => if c = '"' then ['"', '"'] else [c])

def Const.print : Const → List Char
  | .num neg t => (if neg then ['-'] else []) ++ t
  | .str s => '"' :: (dbl s ++ ['"'])
  | .bool b => if b then ['T', 'R', 'U', 'E'] else ['F', 'A', 'L', 'S', 'E']
  | .err e => e.text

/-- the elements of a row are separated by commas -/
def printRow : List Const → List Char
  | [] => []
  | [c] => c.print
  | c :: r => c.print ++ ',' :: printRow r

/-- the rows of an array constant are separated by semicolons -/
def printRows : List (List Const) → List Char
  | [] => []
  | [r] => printRow r
  | r :: rs => printRow r ++ ';' :: printRows rs

mutual
  def Expr.print : Expr → List Char
    | .num t => t
    | .str s => '"' :: (dbl s ++ ['"'])
    | .bool b => if b then ['T', 'R', 'U', 'E'] else ['F', 'A', 'L', 'S', 'E']
    | .err e => e.text
    | .name n => n
    | .ref r => r.text
    | .opaque t => t
    | .array rows => '{' :: (printRows rows ++ ['}'])
    | .neg e => '-' :: e.print
    | .pos e => '+' :: e.print
    | .pct e => e.print ++ ['%']
    | .bin op a b => a.print ++ op.text ++ b.print
    | .isect a b => a.print ++ ' ' :: b.print
    | .union es => '(' :: (es.print ++ [')'])
    | .paren e => '(' :: (e.print ++ [')'])
    | .call f as => f ++ '(' :: (as.print ++ [')'])
  /-- comma-separated -/
  def Args.print : Args → List Char
    | .nil => []
    | .cons e .nil => e.print
    | .cons e rest => e.print ++ ',' :: rest.print
    | .skip .nil => []
    | .skip rest => ',' :: rest.print
end

mutual
  /-- replace every reference by what `f` makes of it -/
  def Expr.mapRefs (f : CRef → Expr) : Expr → Expr
    | .ref r => f r
    | .neg e => .neg (e.mapRefs f)
    | .pos e => .pos (e.mapRefs f)
    | .pct e => .pct (e.mapRefs f)
    | .bin op a b => .bin op (a.mapRefs f) (b.mapRefs f)
    | .isect a b => .isect (a.mapRefs f) (b.mapRefs f)
    | .union es => .union (es.mapRefs f)
    | .paren e => .paren (e.mapRefs f)
    | .call g as => .call g (as.mapRefs f)
    | e => e
  def Args.mapRefs (f : CRef → Expr) : Args → Args
    | .nil => .nil
    | .cons e rest => .cons (e.mapRefs f) (rest.mapRefs f)
    | .skip rest => .skip (rest.mapRefs f)
end

def refOr (r : CRef) (a : Option Area) : Expr :=
  match a with
  | some a => .ref { r with area := a }
  | none => .err .ref

/-- C09: changing the cell's coordinate by (dc, dr) -/
def translateRef (r : CRef) (dc dr : Int) : Expr := refOr r (trArea r.area dc dr)
def translate (e : Expr) (dc dr : Int) : Expr := e.mapRefs (fun r => translateRef r dc dr)

/-- C08: `n` rows/columns inserted at `at_` on sheet `edited`; the formula is on sheet `self` -/
def shiftInsertRef (self edited : List Char) (ax : Axis) (at_ n : Nat) (r : CRef) : Expr :=
  if concernsRef r self edited && n ≠ 0 then refOr r (insArea r.area ax at_ n) else .ref r
def shiftInsert (e : Expr) (self edited : List Char) (ax : Axis) (at_ n : Nat) : Expr :=
  e.mapRefs (shiftInsertRef self edited ax at_ n)

/-- C08: the `n` rows/columns from `at_` removed on sheet `edited` -/
def shiftRemoveRef (self edited : List Char) (ax : Axis) (at_ n : Nat) (r : CRef) : Expr :=
  if concernsRef r self edited && n ≠ 0 then refOr r (remArea r.area ax at_ n) else .ref r
def shiftRemove (e : Expr) (self edited : List Char) (ax : Axis) (at_ n : Nat) : Expr :=
  e.mapRefs (shiftRemoveRef self edited ax at_ n)

/-! ## lexical well-formedness: an independent scanner

  `Clean s`: string literals and quoted names are closed, brackets are closed, error literals are
  complete, parentheses and braces are balanced and properly nested, commas occur only inside
  parentheses or braces, semicolons only directly inside braces (array constants `{1,2;3,4}`). -/

/-- an open bracket: `(` of a call / subexpression, or `{` of an array constant -/
inductive Br where
  | paren | brace
  deriving Repr, DecidableEq

inductive SMode where
  | normal | str | strQ | path | pathQ | bracket
  | err (acc : List Char)
  deriving Repr, DecidableEq

structure Scan where
  mode : SMode
  stack : List Br
  deriving Repr, DecidableEq

def errTexts : List (List Char) :=
  [ErrLit.null.text, ErrLit.div0.text, ErrLit.value.text, ErrLit.ref.text, ErrLit.name.text,
   ErrLit.num.text, ErrLit.na.text]

/-- a character outside every literal, inside the open brackets `d` (innermost first) -/
def scanNormal (d : List Br) (c : Char) : Option Scan :=
  if c = '"' then some ⟨.str, d⟩
  else if c = '\'' then some ⟨.path, d⟩
  else if c = '[' then some ⟨.bracket, d⟩
  else if c = '#' then some ⟨.err ['#'], d⟩
  else if c = '{' then some ⟨.normal, .brace :: d⟩
  else if c = ';' then (match d with | .brace :: _ => some ⟨.normal, d⟩ | _ => none)
  else if c = '}' then (match d with | .brace :: r => some ⟨.normal, r⟩ | _ => none)
  else if c = '(' then some ⟨.normal, .paren :: d⟩
  else if c = ')' then (match d with | .paren :: r => some ⟨.normal, r⟩ | _ => none)
  else if c = ',' then (if d = [] then none else some ⟨.normal, d⟩)
  else some ⟨.normal, d⟩

def scanStep (s : Scan) (c : Char) : Option Scan :=
  match s.mode with
  | .normal => scanNormal s.stack c
  | .str => some ⟨if c = '"' then .strQ else .str, s.stack⟩
  | .strQ => if c = '"' then some ⟨.str, s.stack⟩ else scanNormal s.stack c
  | .path => some ⟨if c = '\'' then .pathQ else .path, s.stack⟩
  | .pathQ => if c = '\'' then some ⟨.path, s.stack⟩ else scanNormal s.stack c
  | .bracket => some ⟨if c = ']' then .normal else .bracket, s.stack⟩
  | .err acc => some ⟨if errTexts.contains (acc ++ [c]) then .normal else .err (acc ++ [c]), s.stack⟩

def scanFrom (s : Scan) : List Char → Option Scan
  | [] => some s
  | c :: r => match scanStep s c with | some s' => scanFrom s' r | none => none

def scan (s : List Char) : Option Scan := scanFrom ⟨.normal, []⟩ s

def closedMode : SMode → Bool
  | .normal | .strQ | .pathQ => true
  | _ => false

def Clean (s : List Char) : Bool :=
  match scan s with
  | some r => r.stack.isEmpty && closedMode r.mode
  | none => false

/-! ## leaves that are lexically what they claim to be -/

/-- a character that is neither a quote, a bracket, `#`, a brace, `;`, a parenthesis nor a comma -/
def isPlainChar (c : Char) : Bool :=
  !(c = '"' || c = '\'' || c = '[' || c = '#' || c = '{' || c = ';' || c = '}' || c = '(' ||
    c = ')' || c = ',')

def plainText (t : List Char) : Bool := t.all isPlainChar

def Const.Lexical : Const → Prop
  | .num _ t => plainText t = true
  | _ => True

mutual
  /-- numbers, names and function names are plain text; references are well-formed and an
      unquoted sheet qualifier is plain text; the numbers of an array constant are plain text;
      no opaque atoms (structured references) -/
  def Expr.Lexical : Expr → Prop
    | .num t => plainText t = true
    | .str _ => True
    | .bool _ => True
    | .err _ => True
    | .name n => plainText n = true
    | .ref r => r.WF ∧ ∀ q, r.sheet = some q → q.quoted = false → plainText q.name = true
    | .opaque _ => False
    | .array rows => ∀ r ∈ rows, ∀ c ∈ r, c.Lexical
    | .neg e => e.Lexical
    | .pos e => e.Lexical
    | .pct e => e.Lexical
    | .bin _ a b => a.Lexical ∧ b.Lexical
    | .isect a b => a.Lexical ∧ b.Lexical
    | .union es => es.Lexical
    | .paren e => e.Lexical
    | .call f as => plainText f = true ∧ as.Lexical
  def Args.Lexical : Args → Prop
    | .nil => True
    | .cons e rest => e.Lexical ∧ rest.Lexical
    | .skip rest => rest.Lexical
end

end Umya.Spec
