/-
  An RFC 4180 reader with configurable delimiter and quote character, written from the RFC
  (section 2 and the ABNF), not from the Rust writer.

      file        = record *(CRLF record) [CRLF]
      record      = field *(COMMA field)
      field       = (escaped / non-escaped)
      escaped     = DQUOTE *(TEXTDATA / COMMA / CR / LF / 2DQUOTE) DQUOTE
      non-escaped = *TEXTDATA                 ; TEXTDATA excludes COMMA, DQUOTE, CR, LF

  Reading of the two points the grammar leaves open (rule 2 of section 2: "the last record in the
  file may or may not have an ending line break"):
    * every CRLF outside an escaped field ENDS a record; text after the last CRLF forms one more
      record iff it is non-empty.  Hence the empty file has no records and `a CRLF` has one.
    * an empty line is a record with one empty field (`record = field`, `field = non-escaped`,
      `non-escaped = *TEXTDATA`).
  The reader is strict: a bare CR or LF outside quotes, a quote inside a non-escaped field,
  anything but delimiter / CRLF / end of input after a closing quote, and an unterminated escaped
  field are errors (`none`).  A configuration in which delimiter and quote coincide, or either is
  CR or LF, is rejected.

  Core Lean only.
-/
namespace Umya.Rfc4180

inductive Mode
  | start     -- at the beginning of a field, nothing consumed for it yet
  | plain     -- inside a non-escaped field (at least one character consumed)
  | quoted    -- inside an escaped field
  | closing   -- just after a quote inside an escaped field: closing quote or first half of `2DQUOTE`
  | cr        -- after a CR outside quotes: LF must follow
  deriving DecidableEq, Repr

abbrev Record := List (List Char)

/-- One pass over the characters.  `fld` = characters of the current field so far, `rec` = completed
    fields of the current record, `out` = completed records. -/
def run (d q : Char) : Mode → List Char → Record → List Record → List Char → Option (List Record)
  | .start, fld, rec, out, [] => if rec.isEmpty then some out else some (out ++ [rec ++ [fld]])
  | .plain, fld, rec, out, [] => some (out ++ [rec ++ [fld]])
  | .closing, fld, rec, out, [] => some (out ++ [rec ++ [fld]])
  | .quoted, _, _, _, [] => none
  | .cr, _, _, _, [] => none
  | .start, fld, rec, out, c :: cs =>
    if c = q then run d q .quoted fld rec out cs
    else if c = d then run d q .start [] (rec ++ [fld]) out cs
    else if c = '\r' then run d q .cr fld rec out cs
    else if c = '\n' then none
    else run d q .plain (fld ++ [c]) rec out cs
  | .plain, fld, rec, out, c :: cs =>
    if c = q then none
    else if c = d then run d q .start [] (rec ++ [fld]) out cs
    else if c = '\r' then run d q .cr fld rec out cs
    else if c = '\n' then none
    else run d q .plain (fld ++ [c]) rec out cs
  | .quoted, fld, rec, out, c :: cs =>
    if c = q then run d q .closing fld rec out cs
    else run d q .quoted (fld ++ [c]) rec out cs
  | .closing, fld, rec, out, c :: cs =>
    if c = q then run d q .quoted (fld ++ [q]) rec out cs
    else if c = d then run d q .start [] (rec ++ [fld]) out cs
    else if c = '\r' then run d q .cr fld rec out cs
    else none
  | .cr, fld, rec, out, c :: cs =>
    if c = '\n' then run d q .start [] [] (out ++ [rec ++ [fld]]) cs
    else none

/-- delimiter and quote must be distinct and neither may be a line-break character -/
def validConfig (d q : Char) : Bool := d != q && d != '\r' && d != '\n' && q != '\r' && q != '\n'

/-- Parse a whole CSV text into its records (each a list of field texts). -/
def parse (d q : Char) (s : List Char) : Option (List Record) :=
  if validConfig d q then run d q .start [] [] [] s else none

end Umya.Rfc4180
