/-
  The value of a numeric cell is an `xsd:double` (ECMA-376 Part 1 §18.3.1.96 `v` with §18.18.11 `n`):
  the IEEE 754 binary64 number nearest to the decimal text, ties to even.  This file computes that
  number exactly with natural-number arithmetic (no floating point is used) and returns its 64-bit
  encoding, so that the harness can compare it with `f64::to_bits` of what the library loaded.
-/
namespace Umya.Spec.Double

structure Dec where
  neg : Bool
  mant : Nat          -- all digits
  exp10 : Int         -- value = mant · 10^exp10
  deriving Repr

def digitsVal (ds : List Char) : Nat := ds.foldl (fun a c => 10 * a + (c.toNat - 48)) 0

def allDigits (ds : List Char) : Bool := ds.all Char.isDigit

/-- `[+-] (digits [. digits*] | . digits) [(e|E) [+-] digits]`, nothing else (no blanks, INF, NaN) -/
def parseDec (s : List Char) : Option Dec :=
  let (neg, s1) := match s with | '-' :: r => (true, r) | '+' :: r => (false, r) | _ => (false, s)
  let ip := s1.takeWhile Char.isDigit
  let s2 := s1.dropWhile Char.isDigit
  let (fp, s3) := match s2 with
    | '.' :: r => (r.takeWhile Char.isDigit, r.dropWhile Char.isDigit)
    | _ => ([], s2)
  if ip.isEmpty ∧ fp.isEmpty then none
  else
    let base : Dec := ⟨neg, digitsVal (ip ++ fp), -(fp.length : Int)⟩
    match s3 with
    | [] => some base
    | e :: r =>
      if e = 'e' ∨ e = 'E' then
        let (eneg, ds) := match r with | '-' :: q => (true, q) | '+' :: q => (false, q) | _ => (false, r)
        if ds.isEmpty ∨ !(allDigits ds) ∨ ds.length > 4 then none
        else
          let ev : Int := digitsVal ds
          some { base with exp10 := base.exp10 + (if eneg then -ev else ev) }
      else none

def pow2 (n : Nat) : Nat := 2 ^ n

/-- round-half-even quotient of `n / d` (`d > 0`) -/
def divRound (n d : Nat) : Nat :=
  let q := n / d
  let r := n % d
  if 2 * r > d ∨ (2 * r = d ∧ q % 2 = 1) then q + 1 else q

/-- binary64 encoding (without the sign) of the positive rational `num / den` -/
def encodePos (num den : Nat) : Nat :=
  -- choose e2 with num/den · 2^(-e2) in [2^52, 2^54)
  let ln : Int := num.log2
  let ld : Int := den.log2
  let e2a : Int := ln - ld - 53
  let scaled (e2 : Int) : Nat × Nat := if e2 ≥ 0 then (num, den * pow2 e2.toNat) else (num * pow2 (-e2).toNat, den)
  let (n0, d0) := scaled e2a
  let e2 : Int := if n0 / d0 ≥ pow2 53 then e2a + 1 else e2a
  let (n1, d1) := scaled e2
  let q := divRound n1 d1
  let (q, e2) := if q ≥ pow2 53 then (pow2 52, e2 + 1) else (q, e2)
  let biased : Int := e2 + 52 + 1023
  if biased ≥ 2047 then 2047 * pow2 52                         -- infinity
  else if biased ≥ 1 then biased.toNat * pow2 52 + (q - pow2 52)
  else
    -- subnormal range: units of 2^-1074
    let (n2, d2) := scaled (-1074)
    divRound n2 d2

def bitsOf (d : Dec) : Nat :=
  let sign := if d.neg then pow2 63 else 0
  if d.mant = 0 then sign
  else if d.exp10 > 400 then sign + 2047 * pow2 52
  else if 3 * d.exp10 + (d.mant.log2 : Int) + 1 < -1080 then sign      -- below half the least subnormal
  else
    let (num, den) := if d.exp10 ≥ 0 then (d.mant * 10 ^ d.exp10.toNat, 1) else (d.mant, 10 ^ (-d.exp10).toNat)
    sign + encodePos num den

def bits? (s : List Char) : Option Nat := (parseDec s).map bitsOf

def hexDigit (n : Nat) : Char := if n < 10 then Char.ofNat (48 + n) else Char.ofNat (87 + n)

def hex16 (n : Nat) : String :=
  String.ofList ((List.range 16).reverse.map fun i => hexDigit ((n / 16 ^ i) % 16))

end Umya.Spec.Double
