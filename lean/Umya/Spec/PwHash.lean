/-
  C15 — the password-hash algorithm of ECMA-376 Part 1 (5th ed.), written from the standard
  (§18.2.29 workbookProtection: workbookAlgorithmName / workbookHashValue / workbookSaltValue /
  workbookSpinCount and the revisions* twins; §18.3.1.85 sheetProtection: algorithmName / hashValue /
  saltValue / spinCount), NOT from the Rust:

  * saltValue — "the salt which was prepended to the user-supplied password before it was hashed";
    the password is hashed as its UTF-16LE code units (as in MS-OFFCRYPTO and every implementation);
  * spinCount — "the number of times the hashing function shall be iteratively run (using each
    iteration's result plus a 4 byte value (0-based, little endian) containing the number of the
    iteration as the input for the next iteration)";
  * hashValue / saltValue are base64Binary; algorithmName "SHA-512".

      H₀ = H(salt ‖ password)        Hₙ = H(Hₙ₋₁ ‖ LE32(n-1))      hashValue = base64(H_spinCount)

  The hash function and base64 are parameters (the theorems are relative to them).
-/
namespace Umya.Spec.PwHash

abbrev Bytes := List UInt8

/-- `k` little-endian bytes of `n` -/
def leBytes : Nat → Nat → Bytes
  | 0, _ => []
  | k + 1, n => UInt8.ofNat (n % 256) :: leBytes k (n / 256)

/-- UTF-16 (Unicode §3.9, D91): BMP scalar values are one unit; others a surrogate pair
    `D800 + (v-10000h) div 400h`, `DC00 + (v-10000h) mod 400h`; each unit little-endian -/
def utf16le : List Char → Bytes
  | [] => []
  | c :: cs =>
    let v := c.toNat
    (if v < 0x10000 then leBytes 2 v
     else leBytes 2 (0xD800 + (v - 0x10000) / 0x400) ++ leBytes 2 (0xDC00 + (v - 0x10000) % 0x400))
    ++ utf16le cs

/-- the iterated hash: `H₀ = H(salt ‖ pw)`, then for `i = 0 … spin-1`: `H ← H(H ‖ LE32(i))` -/
def pwHash (H : Bytes → Bytes) (salt : Bytes) (pw : List Char) (spin : Nat) : Bytes :=
  (List.range spin).foldl (fun h i => H (h ++ leBytes 4 i)) (H (salt ++ utf16le pw))

/-- what a conforming consumer stores / reads for one protection kind -/
structure Stored where
  algorithmName : List Char
  saltValue : List Char      -- base64
  spinCount : Nat
  hashValue : List Char      -- base64

/-- "This value shall be compared with the resulting hash value after hashing the user-supplied
    password using the algorithm specified by the preceding attributes" -/
def verifies (H : Bytes → Bytes) (b64 : Bytes → List Char) (unb64 : List Char → Option Bytes)
    (st : Stored) (pw : List Char) : Bool :=
  st.algorithmName == ['S', 'H', 'A', '-', '5', '1', '2'] &&
  match unb64 st.saltValue with
  | some salt => b64 (pwHash H salt pw st.spinCount) == st.hashValue
  | none => false

end Umya.Spec.PwHash
