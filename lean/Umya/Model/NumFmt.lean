/-
  C19 — model of number formatting in umya-spreadsheet, AFTER fix_1 (rounding) and fix_2 (text cells).

  Modelled (core Lean only, total functions):

  * `formatDecimalText`  = `helper/number_format/number_formater.rs: format_decimal_text`
      (sign, split at the point, all-digits test, `resize`, round on the first dropped digit,
       `increment_decimal_digits`, strip leading zeros, separators, point and decimals);
  * `formatNumber`       = the path `to_formatted_string → split_format → format_as_number →
      format_straight_numeric_value` / `format_as_percentage` for a value that parsed as a number, for the
      format codes `General`, `@` and the grammar `(#,##)? 0 (. 0+)? %?` ONLY; every other format code
      (sections, colours, conditions, dates, fractions, scientific, literals, scaling commas …) is outside
      the model: `none` = `unmodelled`;
  * `toFormattedString`  = `helper/number_format.rs: to_formatted_string` on an arbitrary string: empty,
      not-a-number (Rust `f64::from_str` grammar) → unchanged; a shortest-form decimal text → `formatNumber`;
      other numeric-looking strings (`1.50`, `1e5`, `+3`, `inf`, more than 15 significant digits …) are
      outside the model because `parse::<f64>` followed by `to_string` is not modelled;
  * `cellFormattedValue` = `structs/cell.rs: Cell::get_formatted_value`.

  Numbers enter as the decimal text that `f64::to_string` prints (always positional, never an exponent):
  `-?D+(.D+)?`.  Digits are `Fin 10`, most significant first.  There is no panic path in the modelled
  fragment (no indexing that can fail, no `unwrap`, `usize` subtractions are guarded: `keep ≥ decimals`).
-/
import Umya.Model.Dec
namespace Umya.NumFmt
open Umya.Dec

abbrev Digit := Fin 10

/-- decimal text of a number: sign, digits before the point, digits after the point -/
structure DecText where
  neg : Bool
  int : List Digit
  frac : List Digit
deriving DecidableEq, Repr

def digitCh (d : Digit) : Char := digitChar d.val

def digitOfChar (c : Char) : Option Digit :=
  if h : 48 ≤ c.toNat ∧ c.toNat ≤ 57 then some ⟨c.toNat - 48, by omega⟩ else none

/-- `bytes().all(is_ascii_digit)` together with the conversion to digits -/
def digitsOfChars : List Char → Option (List Digit)
  | [] => some []
  | c :: r =>
    match digitOfChar c, digitsOfChars r with
    | some d, some ds => some (d :: ds)
    | _, _ => none

/-- `strip_prefix('-')`, `split_once('.')` (no point: empty fraction), all-digits test.
    `none` = some character is not an ASCII digit (`NaN`, `inf`, a second point). -/
def parseDecText (v : List Char) : Option DecText :=
  let (neg, body) := match v with
    | '-' :: r => (true, r)
    | _ => (false, v)
  let ip := body.takeWhile (· ≠ '.')
  let fp := (body.dropWhile (· ≠ '.')).drop 1
  match digitsOfChars ip, digitsOfChars fp with
  | some i, some f => some ⟨neg, i, f⟩
  | _, _ => none

/-! ### digit arithmetic -/

/-- `increment_decimal_digits` on the reversed (least significant first) list:
    nines become zeros until a digit can be bumped; all nines: a leading one is inserted. -/
def incRev : List Digit → List Digit
  | [] => [1]
  | d :: r => if h : d.val = 9 then 0 :: incRev r else ⟨d.val + 1, by omega⟩ :: r

/-- `increment_decimal_digits` -/
def increment (ds : List Digit) : List Digit := (incRev ds.reverse).reverse

/-- `Vec::resize(keep, b'0')`: truncate or pad with zeros -/
def resize (ds : List Digit) (keep : Nat) : List Digit :=
  ds.take keep ++ List.replicate (keep - ds.length) 0

/-- `digits.len() > keep && digits[keep] >= b'5'` -/
def roundUp (ds : List Digit) (keep : Nat) : Bool :=
  match ds[keep]? with
  | some d => decide (5 ≤ d.val)
  | none => false

/-- keep `keep` digits, rounding on the first dropped digit -/
def roundDigits (ds : List Digit) (keep : Nat) : List Digit :=
  if roundUp ds keep then increment (resize ds keep) else resize ds keep

/-- `trim_start_matches('0')`, and `"0"` when nothing is left -/
def stripZeros (ds : List Digit) : List Digit :=
  match ds.dropWhile (· = 0) with
  | [] => [0]
  | r => r

/-- the separator loop: after each character, a comma when a positive multiple of three characters remain -/
def groupThousands : List Char → List Char
  | [] => []
  | c :: r => if r ≠ [] ∧ r.length % 3 = 0 then c :: ',' :: groupThousands r else c :: groupThousands r

/-- body of `format_decimal_text` once the text is known to be all digits:
    the number times `10^shift`, rounded to `decimals` decimals -/
def formatDecimal (t : DecText) (shift decimals : Nat) (thousands : Bool) : List Char :=
  let digits := roundDigits (t.int ++ t.frac) (t.int.length + shift + decimals)
  let intLen := digits.length - decimals
  let intText := (stripZeros (digits.take intLen)).map digitCh
  let fracText := (digits.drop intLen).map digitCh
  (if t.neg then ['-'] else []) ++ (if thousands then groupThousands intText else intText) ++
    (if decimals = 0 then [] else '.' :: fracText)

/-- `format_decimal_text(value, shift, decimals, use_thousands)` -/
def formatDecimalText (value : List Char) (shift decimals : Nat) (thousands : Bool) : List Char :=
  match parseDecText value with
  | some t => formatDecimal t shift decimals thousands
  | none => value

/-- fixed-decimal patterns: `format_straight_numeric_value` -/
def formatFixed (t : DecText) (n : Nat) (thousands : Bool) : List Char := formatDecimal t 0 n thousands

/-- percentage patterns: `format_as_percentage` (point moved two places, `%` appended) -/
def formatPercent (t : DecText) (n : Nat) (thousands : Bool) : List Char := formatDecimal t 2 n thousands ++ ['%']

/-! ### format codes -/

structure Pattern where
  thousands : Bool
  decimals : Nat
  percent : Bool
deriving DecidableEq, Repr

/-- the modelled grammar `(#,##)? 0 (. 0+)? %?` -/
def parsePattern (p : List Char) : Option Pattern :=
  let (thousands, p) := match p with
    | '#' :: ',' :: '#' :: '#' :: r => (true, r)
    | _ => (false, p)
  match p with
  | '0' :: r =>
    let (percent, r) := if r.getLast? = some '%' then (true, r.dropLast) else (false, r)
    match r with
    | [] => some ⟨thousands, 0, percent⟩
    | '.' :: z => if z ≠ [] ∧ z.all (· = '0') then some ⟨thousands, z.length, percent⟩ else none
    | _ => none
  | _ => none

def general : List Char := "General".toList
def textCode : List Char := "@".toList

/-- `to_formatted_string` for a value that is the shortest decimal text of a number.
    `none` = format code outside the modelled grammar. -/
def formatNumber (value format : List Char) : Option (List Char) :=
  if format = general then some value          -- `val.to_string()`: the shortest text again
  else if format = textCode then some value
  else match parsePattern format with
    | none => none
    | some p =>
      if p.percent then some (formatDecimalText value 2 p.decimals p.thousands ++ ['%'])
      else some (formatDecimalText value 0 p.decimals p.thousands)

/-! ### which strings are numbers -/

def asciiLower (c : Char) : Char := if 65 ≤ c.toNat ∧ c.toNat ≤ 90 then Char.ofNat (c.toNat + 32) else c

def stripSign (s : List Char) : List Char :=
  match s with
  | '+' :: r => r
  | '-' :: r => r
  | _ => s

/-- the grammar accepted by Rust's `f64::from_str` (documentation of `impl FromStr for f64`):
    `Sign? ( 'inf' | 'infinity' | 'nan' | (D+ | D+ '.' D* | D* '.' D+) ('e' Sign? D+)? )`, case-insensitive -/
def isF64Syntax (s : List Char) : Bool :=
  let s := stripSign s
  let low := s.map asciiLower
  if low = "inf".toList ∨ low = "infinity".toList ∨ low = "nan".toList then true
  else
    let ip := s.takeWhile isDigit
    let rest := s.dropWhile isDigit
    let (fp, rest) := match rest with
      | '.' :: r => (r.takeWhile isDigit, r.dropWhile isDigit)
      | _ => ([], rest)
    if ip.isEmpty ∧ fp.isEmpty then false
    else match rest with
      | [] => true
      | e :: r =>
        if e = 'e' ∨ e = 'E' then
          let r := stripSign r
          !r.isEmpty && r.all isDigit
        else false

/-- number of significant digits of a digit string (leading and trailing zeros removed; at least 0) -/
def sigDigits (ds : List Char) : Nat :=
  ((ds.dropWhile (· = '0')).reverse.dropWhile (· = '0')).length

/-- the shape of what `f64::to_string` prints: `-? (0 | [1-9]D*) (. D*[1-9])?` -/
def isPlainDecimal (s : List Char) : Bool :=
  let body := match s with
    | '-' :: r => r
    | _ => s
  let ip := body.takeWhile isDigit
  let rest := body.dropWhile isDigit
  let intOk := !ip.isEmpty && (ip.head? != some '0' || ip.length == 1)
  match rest with
  | [] => intOk
  | '.' :: fp => intOk && !fp.isEmpty && fp.all isDigit && fp.getLast? != some '0'
  | _ => false

/-- shortest decimal texts that are certainly fixed points of `parse::<f64>` then `to_string`:
    plain shape, at most 15 significant digits (DBL_DIG), at most 300 characters (well inside the
    normal exponent range).  That these are fixed points is a fact about IEEE doubles and Rust's
    correctly rounded parser / shortest printer; it is in the trusted base and re-checked by the
    harness on every value it sends. -/
def isShortestText (s : List Char) : Bool :=
  isPlainDecimal s && decide (sigDigits (s.filter isDigit) ≤ 15) && decide (s.length ≤ 300)

inductive Kind | empty | notNumber | shortest | otherNumeric
deriving DecidableEq, Repr

def classify (s : List Char) : Kind :=
  if s = [] then .empty
  else if !isF64Syntax s then .notNumber
  else if isShortestText s then .shortest
  else .otherNumeric

/-- `to_formatted_string(value, format)`; `none` = outside the model -/
def toFormattedString (value format : List Char) : Option (List Char) :=
  match classify value with
  | .empty => some value
  | .notNumber => some value
  | .shortest => formatNumber value format
  | .otherNumeric => none

/-! ### cells -/

/-- a cell's raw value as far as formatting is concerned: a number (by its shortest decimal text) or text -/
inductive CellValue
  | number (text : List Char)
  | text (t : List Char)

/-- `Cell::get_formatted_value`: only numbers are formatted -/
def cellFormattedValue (v : CellValue) (format : List Char) : Option (List Char) :=
  match v with
  | .text t => some t
  | .number n => formatNumber n format

end Umya.NumFmt
