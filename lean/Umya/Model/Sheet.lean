/-
  Model of the cell store and the structural edits of one worksheet:
  `src/structs/cells.rs`, `rows.rs`, `columns.rs`, and the cell/row/column/range parts of
  `src/structs/worksheet.rs` (get_cell_mut, set_cell, remove_cell, set_style(_by_range),
  insert/remove rows and columns, move/copy range, cleanup, copy_row/col_styling), plus the
  row loop of `src/writer/xlsx/worksheet.rs`.

  Concrete state, as in the Rust: a hash map keyed `(row, col)` (an association list here) whose
  cells carry their own coordinate, two ordered indexes (BTreeSets, strictly sorted lists here),
  the row table (hash map row → Row) and the column list (Vec<Column>).
  Cell content (value, formula, hyperlink) and styles are opaque tokens (`0` = empty / default).
  `u32` addition overflow is not modelled (coordinates stay far below 2³²); `u32` subtraction
  underflow is a `.panic`.
-/
import Umya.Model.Coord
namespace Umya.Sheet
open Umya.Coord (Res)

abbrev Key := Nat × Nat            -- (row, col) for `map`/`rowIdx`; (col, row) for `colIdx`

structure CellM where
  col : Nat
  row : Nat
  val : Nat := 0                   -- content token, 0 = empty
  sty : Nat := 0                   -- style token, 0 = default
  deriving Repr, DecidableEq, Inhabited

structure RowM where
  num : Nat
  sty : Nat := 0
  deriving Repr, DecidableEq, Inhabited

structure ColM where
  num : Nat
  sty : Nat := 0
  deriving Repr, DecidableEq, Inhabited

structure Sheet where
  cells : List (Key × CellM) := []
  rowIdx : List Key := []
  colIdx : List Key := []
  rows : List (Nat × RowM) := []
  cols : List ColM := []
  deriving Repr, DecidableEq, Inhabited

/-! ## scalar kernels (`helper/coordinate.rs`, `row.rs`, `column.rs`) -/

def adjIns (num root off : Nat) : Nat := if num ≥ root ∧ off ≠ 0 then num + off else num

def adjRem (num root off : Nat) : Res Nat :=
  if num ≥ root ∧ off ≠ 0 then (if off ≤ num then .ok (num - off) else .panic) else .ok num

def isRem (num root off : Nat) : Bool :=
  if root ≠ 0 ∧ off ≠ 0 then decide (num ≥ root ∧ num < root + off) else false

/-- `Row::/Column::adjustment_insert_value` (only called with `off ≠ 0`) -/
def adjInsV (num root off : Nat) : Nat := if num ≥ root then num + off else num
def adjRemV (num root off : Nat) : Res Nat :=
  if num ≥ root then (if off ≤ num then .ok (num - off) else .panic) else .ok num
/-- `is_remove_value`: `num >= root && num <= root + off - 1` -/
def isRemV (num root off : Nat) : Res Bool :=
  if num ≥ root then (if 1 ≤ root + off then .ok (decide (num ≤ root + off - 1)) else .panic) else .ok false

/-! ## ordered sets (BTreeSet<(u32,u32)>) as strictly sorted lists -/

def keyLt (a b : Key) : Bool := a.1 < b.1 || (a.1 == b.1 && a.2 < b.2)

def setInsert (k : Key) : List Key → List Key
  | [] => [k]
  | x :: xs => if keyLt k x then k :: x :: xs else if k = x then x :: xs else x :: setInsert k xs

def setErase (k : Key) (l : List Key) : List Key := l.filter (· ≠ k)

def setOfList (l : List Key) : List Key := l.foldl (fun acc k => setInsert k acc) []

def swap (k : Key) : Key := (k.2, k.1)

/-! ## hash map as association list -/

def lookup (k : Key) : List (Key × CellM) → Option CellM
  | [] => none
  | (k', c) :: r => if k' = k then some c else lookup k r

def eraseKey (k : Key) (l : List (Key × CellM)) : List (Key × CellM) := l.filter (·.1 ≠ k)

def replaceKey (k : Key) (c : CellM) : List (Key × CellM) → List (Key × CellM)
  | [] => []
  | (k', c') :: r => if k' = k then (k', c) :: r else (k', c') :: replaceKey k c r

def lookupRow (n : Nat) : List (Nat × RowM) → Option RowM
  | [] => none
  | (k, r) :: t => if k = n then some r else lookupRow n t

/-! ## primitive operations -/

/-- `Rows::get_row_dimension_mut` -/
def ensureRow (s : Sheet) (row : Nat) : Sheet :=
  match lookupRow row s.rows with
  | some _ => s
  | none => { s with rows := s.rows ++ [(row, { num := row })] }

/-- `Columns::get_column_mut` -/
def ensureCol (s : Sheet) (col : Nat) : Sheet :=
  if s.cols.any (·.num = col) then s else { s with cols := s.cols ++ [{ num := col }] }

def rowStyle (s : Sheet) (row : Nat) : Nat := match lookupRow row s.rows with | some r => r.sty | none => 0
def colStyle (s : Sheet) (col : Nat) : Nat := match s.cols.find? (·.num = col) with | some c => c.sty | none => 0

/-- `Worksheet::get_cell_mut((col,row))`: creates row and column dimensions, then the cell with the
    column's style overridden by the row's. -/
def getMut (s : Sheet) (col row : Nat) : Sheet :=
  let s := ensureCol (ensureRow s row) col
  match lookup (row, col) s.cells with
  | some _ => s
  | none =>
    let cs := colStyle s col
    let rs := rowStyle s row
    let sty := if rs ≠ 0 then rs else cs
    { s with cells := s.cells ++ [((row, col), { col := col, row := row, sty := sty })],
             rowIdx := setInsert (row, col) s.rowIdx,
             colIdx := setInsert (col, row) s.colIdx }

/-- update the cell stored under `(row, col)` -/
def modify (s : Sheet) (col row : Nat) (f : CellM → CellM) : Sheet :=
  match lookup (row, col) s.cells with
  | some c => { s with cells := replaceKey (row, col) (f c) s.cells }
  | none => s

/-- `get_cell_mut(..).set_value(v)` -/
def setVal (s : Sheet) (col row v : Nat) : Sheet := modify (getMut s col row) col row (fun c => { c with val := v })

/-- `set_style((col,row), sty)` -/
def setStyle (s : Sheet) (col row sty : Nat) : Sheet := modify (getMut s col row) col row (fun c => { c with sty := sty })

/-- `set_cell(cell)`: `set_obj` overwrites value, style (and hyperlink), not the coordinate -/
def setCell (s : Sheet) (col row v sty : Nat) : Sheet :=
  modify (getMut s col row) col row (fun c => { c with val := v, sty := sty })

/-- `remove_cell` -/
def removeCell (s : Sheet) (col row : Nat) : Sheet :=
  match lookup (row, col) s.cells with
  | some _ => { s with cells := eraseKey (row, col) s.cells,
                       rowIdx := setErase (row, col) s.rowIdx,
                       colIdx := setErase (col, row) s.colIdx }
  | none => s

/-- `Cells::rebuild_map_and_indices` -/
def rebuild (cells : List (Key × CellM)) : List (Key × CellM) × List Key × List Key :=
  let m := cells.map (fun p => ((p.2.row, p.2.col), p.2))
  (m, setOfList (m.map (·.1)), setOfList (m.map (fun p => swap p.1)))

def mapRes {α β} (f : α → Res β) : List α → Res (List β)
  | [] => .ok []
  | x :: xs => match f x with
    | .panic => .panic
    | .ok y => match mapRes f xs with
      | .panic => .panic
      | .ok ys => .ok (y :: ys)

/-- `Worksheet::adjustment_insert_coordinate` restricted to cells / rows / columns -/
def insertAdj (s : Sheet) (rootCol offCol rootRow offRow : Nat) : Sheet :=
  let cols := if offCol ≠ 0 then s.cols.map (fun c => { c with num := adjInsV c.num rootCol offCol }) else s.cols
  let rows := if offRow ≠ 0 then s.rows.map (fun p => let r := { p.2 with num := adjInsV p.2.num rootRow offRow }; (r.num, r)) else s.rows
  if offCol = 0 ∧ offRow = 0 then { s with cols := cols, rows := rows } else
  let cells := s.cells.map (fun p => (p.1, { p.2 with col := adjIns p.2.col rootCol offCol, row := adjIns p.2.row rootRow offRow }))
  let (m, ri, ci) := rebuild cells
  { cells := m, rowIdx := ri, colIdx := ci, rows := rows, cols := cols }

/-- `Columns::adjustment_remove_value` (called only when `offCol ≠ 0`) -/
def colsRemove (cols : List ColM) (rootCol offCol : Nat) : Res (List ColM) :=
  if offCol ≠ 0 then
    match mapRes (fun c => (isRemV c.num rootCol offCol).bind fun b => .ok (c, b)) cols with
    | .panic => .panic
    | .ok flagged =>
      mapRes (fun c => (adjRemV c.num rootCol offCol).bind fun n => .ok { c with num := n })
        ((flagged.filter (fun p => !p.2)).map (·.1))
  else .ok cols

/-- `Rows::adjustment_remove_value` (called only when `offRow ≠ 0`) -/
def rowsRemove (rows : List (Nat × RowM)) (rootRow offRow : Nat) : Res (List (Nat × RowM)) :=
  if offRow ≠ 0 then
    match mapRes (fun p => (isRemV p.2.num rootRow offRow).bind fun b => .ok (p, b)) rows with
    | .panic => .panic
    | .ok flagged =>
      mapRes (fun p => (adjRemV p.2.num rootRow offRow).bind fun n => .ok (n, { p.2 with num := n }))
        ((flagged.filter (fun p => !p.2)).map (·.1))
  else .ok rows

/-- `Cells::adjustment_remove_coordinate` before the rebuild: drop the cells in the band, shift the rest -/
def cellsRemove (cells : List (Key × CellM)) (rootCol offCol rootRow offRow : Nat) : Res (List (Key × CellM)) :=
  mapRes (fun p => (adjRem p.2.col rootCol offCol).bind fun c =>
            (adjRem p.2.row rootRow offRow).bind fun r => .ok (p.1, { p.2 with col := c, row := r }))
    (cells.filter (fun p => !(isRem p.2.col rootCol offCol || isRem p.2.row rootRow offRow)))

/-- `Worksheet::adjustment_remove_coordinate` restricted to cells / rows / columns -/
def removeAdj (s : Sheet) (rootCol offCol rootRow offRow : Nat) : Res Sheet :=
  match colsRemove s.cols rootCol offCol, rowsRemove s.rows rootRow offRow with
  | .ok cols, .ok rows =>
    if offCol = 0 ∧ offRow = 0 then .ok { s with cols := cols, rows := rows } else
    match cellsRemove s.cells rootCol offCol rootRow offRow with
    | .panic => .panic
    | .ok cells =>
      let (m, ri, ci) := rebuild cells
      .ok { cells := m, rowIdx := ri, colIdx := ci, rows := rows, cols := cols }
  | _, _ => .panic

/-! ## observers -/

def getCell (s : Sheet) (col row : Nat) : Option CellM := lookup (row, col) s.cells

/-- `iter_coordinates_sorted_by_row_column` → (col,row) -/
def coordsByRowCol (s : Sheet) : List Key := s.rowIdx.map swap
/-- `iter_coordinates_sorted_by_column_row` → (col,row) -/
def coordsByColRow (s : Sheet) : List Key := s.colIdx

/-- `iter_columns_with_cells_by_row` -/
def colsInRow (s : Sheet) (row : Nat) : List Nat := (s.rowIdx.filter (·.1 = row)).map (·.2)
/-- `iter_rows_with_cells_by_column` -/
def rowsInCol (s : Sheet) (col : Nat) : List Nat := (s.colIdx.filter (·.1 = col)).map (·.2)

def keyLe (a b : Key) : Bool := keyLt a b || a = b

/-- `iter_coordinates_by_range_sorted_by_row` → (col,row); BTreeSet::range panics when start > end -/
def coordsInRange (s : Sheet) (rs re cs ce : Nat) : Res (List Key) :=
  if keyLt (re, ce) (rs, cs) then .panic
  else .ok (((s.rowIdx.filter (fun k => keyLe (rs, cs) k && keyLe k (re, ce))).filter
        (fun k => cs ≤ k.2 && k.2 ≤ ce)).map swap)

/-- `get_highest_column_and_row` -/
def highest (s : Sheet) : Nat × Nat :=
  ((s.colIdx.getLast?.map (·.1)).getD 0, (s.rowIdx.getLast?.map (·.1)).getD 0)

/-- `calculate_worksheet_dimension`, as (col,row) of the lower-right corner; `none` = "A1" -/
def dimension (s : Sheet) : Option (Nat × Nat) :=
  let (c, r) := highest s
  if r = 0 then none else some (c, r)

/-! ## the writer's row loop (`writer/xlsx/worksheet.rs`) -/

def insertRowSorted (r : RowM) : List RowM → List RowM
  | [] => [r]
  | x :: xs => if r.num < x.num then r :: x :: xs else x :: insertRowSorted r xs

/-- rows sorted by number (stable sort of the hash-map values; order among equal numbers is
    irrelevant under the invariant that numbers are distinct) -/
def sortedRows (s : Sheet) : List RowM := (s.rows.map (·.2)).foldr insertRowSorted []

/-- cells in the order of `get_collection_sorted` -/
def sortedCells (s : Sheet) : List CellM := s.rowIdx.filterMap (fun k => lookup k s.cells)

def takeRow (n : Nat) : List CellM → List CellM × List CellM
  | [] => ([], [])
  | c :: cs => if c.row = n then let p := takeRow n cs; (c :: p.1, p.2) else ([], c :: cs)

/-- the peek-and-consume loop: returns the cells handed to `Cell::write_to`, in order -/
def rowLoop : List RowM → List CellM → List CellM
  | [], _ => []
  | r :: rs, cells => let p := takeRow r.num cells; p.1 ++ rowLoop rs p.2

def emitted (s : Sheet) : List CellM := rowLoop (sortedRows s) (sortedCells s)

/-! ## compound operations -/

def range (lo hi : Nat) : List Nat := (List.range (hi + 1 - lo)).map (· + lo)

/-- `set_style_by_range` on a cell rectangle -/
def setStyleRect (s : Sheet) (rs re cs ce sty : Nat) : Sheet :=
  (range rs re).foldl (fun s r => (range cs ce).foldl (fun s c => setStyle s c r sty) s) s

def setRowSty (s : Sheet) (row sty : Nat) : Sheet :=
  let s := ensureRow s row
  { s with rows := s.rows.map (fun p => if p.1 = row then (p.1, { p.2 with sty := sty }) else p) }

def setColSty (s : Sheet) (col sty : Nat) : Sheet :=
  let s := ensureCol s col
  { s with cols := s.cols.map (fun c => if c.num = col then { c with sty := sty } else c) }

/-- `copy_cell_styling((sc,sr),(tc,tr))` -/
def copyCellStyling (s : Sheet) (sc sr tc tr : Nat) : Sheet :=
  let sty := match lookup (sr, sc) s.cells with | some c => c.sty | none => 0
  setStyle s tc tr sty

/-- `copy_row_styling(src, tgt, start, end)` -/
def copyRowStyling (s : Sheet) (src tgt : Nat) (st en : Option Nat) : Sheet :=
  let startNo := st.getD 1
  let endNo := en.getD (highest s).1
  let s := match lookupRow src s.rows with
    | some r => setRowSty s tgt r.sty
    | none => s
  (range startNo endNo).foldl (fun s c => copyCellStyling s c src c tgt) s

/-- `copy_col_styling(src, tgt, start, end)` -/
def copyColStyling (s : Sheet) (src tgt : Nat) (st en : Option Nat) : Sheet :=
  let startNo := st.getD 1
  let endNo := en.getD (highest s).2
  let s := match s.cols.find? (·.num = src) with
    | some c => setColSty s tgt c.sty
    | none => s
  (range startNo endNo).foldl (fun s r => copyCellStyling s src r tgt r) s

/-- `cleanup`: from the highest row downwards, drop rows (and their cells) as long as all their
    cells are visually empty; stops at the first row with a non-empty cell. Rows absent from the
    row table are skipped. -/
def cleanupLoop (s : Sheet) : List Nat → Sheet
  | [] => s
  | row :: rest =>
    match lookupRow row s.rows with
    | none => cleanupLoop s rest
    | some _ =>
      let cols := colsInRow s row
      let cellsHere := cols.filterMap (fun c => lookup (row, c) s.cells)
      if cellsHere.any (fun c => c.val ≠ 0 ∨ c.sty ≠ 0) then s
      else
        let s := { s with rows := s.rows.filter (·.1 ≠ row) }
        let s := cols.foldl (fun s c => removeCell s c row) s
        cleanupLoop s rest

def cleanup (s : Sheet) : Sheet :=
  let maxRow := (highest s).2
  cleanupLoop s ((range 1 maxRow).reverse)

/-- `get_coordinate_list(range)`: every position of the rectangle in row-major order, as `(row, col)` -/
def rectPositions (rs re cs ce : Nat) : List Key :=
  (range rs re).flatMap (fun r => (range cs ce).map (fun c => (r, c)))

/-- `Cells::iter_all_coordinates_by_range_sorted_by_row`: the positions of the rectangle in row-major
    order (`(row, col)`), merged with the index scan `it` (`(col, row)`, as `coordsInRange` yields):
    `None` while the position is before the scan's current coordinate, otherwise
    `Some((col, row))` of the POSITION and the scan advances (the code does not compare for equality). -/
def scanAll : List Key → List Key → List (Option Key)
  | [], _ => []
  | _ :: xs, [] => none :: scanAll xs []
  | x :: xs, cur :: it =>
    if keyLt x (cur.2, cur.1) then none :: scanAll xs (cur :: it) else some (x.2, x.1) :: scanAll xs it

/-- `iter_all_cells_by_range_sorted_by_row(range).flatten().map(clone).collect()`:
    `self.map.get(&(row, col)).unwrap()` panics when the scan names a key the map does not hold -/
def collectCells (s : Sheet) (rs re cs ce : Nat) (coords : List Key) : Res (List CellM) :=
  mapRes (fun k => match lookup (k.2, k.1) s.cells with | some c => Res.ok c | none => Res.panic)
    ((scanAll (rectPositions rs re cs ce) coords).filterMap id)

/-- `move_or_copy_range` on a cell rectangle with offsets, statement by statement: the guard (panics
    when the target leaves the grid), the collection of the source cells, the clean-up pass of a
    move over EVERY position of the rectangle (the cell there and the cell at its image), the paste -/
def moveOrCopy (s : Sheet) (rs re cs ce : Nat) (dr dc : Int) (isMove : Bool) : Res Sheet :=
  if (cs : Int) + dc < 1 ∨ (rs : Int) + dr < 1 ∨ (ce : Int) + dc > 16384 ∨ (re : Int) + dr > 1048576 then .panic
  else
    match coordsInRange s rs re cs ce with
    | .panic => .panic
    | .ok coords =>
      match collectCells s rs re cs ce coords with
      | .panic => .panic
      | .ok copies =>
        let s :=
          if isMove then
            (rectPositions rs re cs ce).foldl (fun s p =>
              removeCell (removeCell s p.2 p.1) (((p.2 : Int) + dc).toNat) (((p.1 : Int) + dr).toNat)) s
          else s
        .ok (copies.foldl (fun s c => setCell s (((c.col : Int) + dc).toNat) (((c.row : Int) + dr).toNat) c.val c.sty) s)

/-! ## operations as data -/

inductive Op where
  | getMut (col row : Nat)
  | setVal (col row v : Nat)
  | setCell (col row v sty : Nat)
  | removeCell (col row : Nat)
  | setStyle (col row sty : Nat)
  | setStyleRect (rs re cs ce sty : Nat)
  | setRowSty (row sty : Nat)
  | setColSty (col sty : Nat)
  | insRows (p n : Nat)
  | insCols (p n : Nat)
  | remRows (p n : Nat)
  | remCols (p n : Nat)
  | move (rs re cs ce : Nat) (dr dc : Int)
  | copy (rs re cs ce : Nat) (dr dc : Int)
  | cleanup
  | copyRowStyling (src tgt : Nat) (st en : Option Nat)
  | copyColStyling (src tgt : Nat) (st en : Option Nat)
  deriving Repr

def step (s : Sheet) : Op → Res Sheet
  | .getMut c r => .ok (getMut s c r)
  | .setVal c r v => .ok (setVal s c r v)
  | .setCell c r v st => .ok (setCell s c r v st)
  | .removeCell c r => .ok (removeCell s c r)
  | .setStyle c r st => .ok (setStyle s c r st)
  | .setStyleRect rs re cs ce st => .ok (setStyleRect s rs re cs ce st)
  | .setRowSty r st => .ok (setRowSty s r st)
  | .setColSty c st => .ok (setColSty s c st)
  | .insRows p n => .ok (insertAdj s 0 0 p n)
  | .insCols p n => .ok (insertAdj s p n 0 0)
  | .remRows p n => removeAdj s 0 0 p n
  | .remCols p n => removeAdj s p n 0 0
  | .move rs re cs ce dr dc => moveOrCopy s rs re cs ce dr dc true
  | .copy rs re cs ce dr dc => moveOrCopy s rs re cs ce dr dc false
  | .cleanup => .ok (cleanup s)
  | .copyRowStyling a b st en => .ok (copyRowStyling s a b st en)
  | .copyColStyling a b st en => .ok (copyColStyling s a b st en)

def run (s : Sheet) : List Op → Res Sheet
  | [] => .ok s
  | op :: ops => match step s op with
    | .ok s' => run s' ops
    | .panic => .panic

end Umya.Sheet
