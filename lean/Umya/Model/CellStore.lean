/-
  The cell store the worksheet reader fills (`structs/cells.rs`): `Cells::set_fast` = `add` =
  `self.map.insert((row_num, col_num), Box::new(cell))` (+ the two index sets, which hold exactly the keys of the map).
  A `HashMap` that is only written with `insert` and read with `get` is an association list in which `insert` removes any
  entry with the same key first: at most one entry per key, the LAST write for a key is the one found.
  Core Lean only.
-/
import Umya.Model.ReaderSheet
namespace Umya.Reader

/-- the key of `Cells.map`: `(row_num, col_num)` -/
abbrev Pos := Nat × Nat

/-- `Cells.map` (the values are whatever the caller stores: `CellOut` for the reader model, `CellV` for the decoder) -/
abbrev Store (α : Type) := List (Pos × α)

/-- `HashMap::insert`: the entry for `k` is replaced -/
def Store.insert {α : Type} (s : Store α) (k : Pos) (v : α) : Store α := (k, v) :: s.filter (fun e => e.1 != k)

/-- `HashMap::get` -/
def Store.get? {α : Type} (s : Store α) (k : Pos) : Option α := (s.find? (fun e => e.1 == k)).map (·.2)

/-- the reader's loop: `cells.set_fast(cell)` for every cell in document order, from the empty store -/
def fillStore {α : Type} (key : α → Pos) (cells : List α) : Store α :=
  cells.foldl (fun s c => s.insert (key c) c) []

/-- the LAST cell of the document with position `k` -/
def lastAt {α : Type} (key : α → Pos) : List α → Pos → Option α
  | [], _ => none
  | c :: rest, k =>
    match lastAt key rest k with
    | some x => some x
    | none => if key c == k then some c else none

/-- `get_cell_collection_sorted`: the values by (row, column) -/
def Store.sorted {α : Type} (s : Store α) : List α :=
  (s.mergeSort fun a b => a.1.1 < b.1.1 || (a.1.1 == b.1.1 && a.1.2 ≤ b.1.2)).map (·.2)

/-- the position a cell of the reader model is stored under (`cell.get_coordinate()`) -/
def outKey (o : CellOut) : Pos := (o.row, o.col)

/-- `true` iff the positions of a list are strictly increasing by (row, column): then `Store.sorted ∘ fillStore` returns
    the list itself (an optimisation of the driver, not used in theorems) -/
def strictlySorted : List Pos → Bool
  | a :: b :: rest => (a.1 < b.1 || (a.1 == b.1 && a.2 < b.2)) && strictlySorted (b :: rest)
  | _ => true

end Umya.Reader
