/-
  Model of `src/helper/date.rs` (`convert_date`, `convert_date_windows_1900`,
  `convert_date_mac_1904`, `convert_date_crate`, `excel_to_date_time_object`) and of the date
  branch of `src/helper/number_format.rs` / `number_format/date_formater.rs`
  (`to_formatted_string` → `format_as_date`) for a quote/bracket-free format alphabet.

  * `i32` arithmetic is checked (the harness builds the crate with overflow checks): every
    intermediate result outside `i32` is a panic = `none`.
  * `year.to_string()[0..2].parse::<i32>().unwrap()` is modelled literally on `List Char`
    (slice out of range = panic, non-numeric = panic).
  * `i32 / i32` truncates towards zero: `Int.tdiv`.
  * Floating point: everything that touches `f64` is written once, generically over an
    interface `FloatOps F`.  The driver runs it with `F := Float` (IEEE binary64, native);
    the theorems instantiate it with `F := Rat` (exact arithmetic).  Nothing is proved about
    the `Float` instance (see `Umya/Thm/C18.lean`, assumption "float step").
  * chrono's `NaiveDateTime + Duration` and field accessors are represented by the reference
    calendar `Umya.Spec.Calendar` (chrono is outside the model, trusted).

  Core Lean only.
-/
import Umya.Model.Dec
import Umya.Spec.Calendar
namespace Umya.Date
open Umya.Dec Umya.Spec.Calendar

/-! ## checked `i32` -/

def i32? (x : Int) : Option Int :=
  if -2147483648 ≤ x ∧ x ≤ 2147483647 then some x else none

/-- `i32::to_string` -/
def i32ToString (y : Int) : List Char :=
  if y < 0 then '-' :: decDigits y.natAbs else decDigits y.toNat

/-- `&s[a..b]` on an ASCII string: panics (`none`) when `b > len` (or `a > b`). -/
def slice (s : List Char) (a b : Nat) : Option (List Char) :=
  if a ≤ b ∧ b ≤ s.length then some ((s.drop a).take (b - a)) else none

/-- `str::parse::<i32>()`: optional sign, at least one ASCII digit, range check. -/
def parseI32 (cs : List Char) : Option Int :=
  match cs with
  | '-' :: r => if !r.isEmpty && r.all isDigit then i32? (-(parseDec r : Int)) else none
  | '+' :: r => if !r.isEmpty && r.all isDigit then i32? (parseDec r : Int) else none
  | _ => if !cs.isEmpty && cs.all isDigit then i32? (parseDec cs : Int) else none

/-! ## `convert_date_crate`: the integer part -/

/-- "Julian base date adjustment": `(month', year')`; `none` = `i32` overflow -/
def adjustMonthYear (year month : Int) : Option (Int × Int) := do
  let month' ← (if month > 2 then i32? (month - 3) else i32? (month + 9))
  let year' ← (if month > 2 then some year else i32? (year - 1))
  pure (month', year')

/-- `year.to_string()[0..2].parse::<i32>().unwrap()`, `year.to_string()[2..4]…` -/
def centuryDecade (year' : Int) : Option (Int × Int) := do
  let ys := i32ToString year'
  let century ← (slice ys 0 2).bind parseI32
  let decade ← (slice ys 2 4).bind parseI32
  pure (century, decade)

/-- the checked `i32` sum `146097*century/4 + 1461*decade/4 + (153*month+2)/5 + day + 1721119
    - base + leap`, left to right -/
def excelDate (century decade month' day base leap : Int) : Option Int := do
  let a ← i32? (146097 * century)
  let b ← i32? (1461 * decade)
  let c0 ← i32? (153 * month')
  let c ← i32? (c0 + 2)
  let s1 ← i32? (a.tdiv 4 + b.tdiv 4)
  let s2 ← i32? (s1 + c.tdiv 5)
  let s3 ← i32? (s2 + day)
  let s4 ← i32? (s3 + 1721119)
  let s5 ← i32? (s4 - base)
  i32? (s5 + leap)

/-- `(hours * 3600) + (minutes * 60) + seconds`, checked -/
def excelSecs (hours minutes seconds : Int) : Option Int := do
  let h ← i32? (hours * 3600)
  let mi ← i32? (minutes * 60)
  let t1 ← i32? (h + mi)
  i32? (t1 + seconds)

/-- `(excel_date, hours*3600 + minutes*60 + seconds)` of `convert_date_crate`, both `i32`;
    `none` = the Rust panics (overflow, slice out of range, parse error). -/
def convertDateCrate (year month day hours minutes seconds : Int) (win1900 : Bool) :
    Option (Int × Int) := do
  let leap : Int := if win1900 then (if year = 1900 ∧ month ≤ 2 then 0 else 1) else 0
  let base : Int := if win1900 then 2415020 else 2416481
  let my ← adjustMonthYear year month
  let cd ← centuryDecade my.2
  let date ← excelDate cd.1 cd.2 my.1 day base leap
  let secs ← excelSecs hours minutes seconds
  pure (date, secs)

/-- `convert_date` = `convert_date_windows_1900` -/
def convertDate (y m d h mi s : Int) : Option (Int × Int) := convertDateCrate y m d h mi s true

/-- The day count of `convert_date` alone (time 00:00:00). -/
def serialDays (y m d : Int) : Option Int := (convertDate y m d 0 0 0).map (·.1)

/-! ## the float interface -/

class FloatOps (F : Type) where
  ofInt : Int → F
  add : F → F → F
  sub : F → F → F
  mul : F → F → F
  div : F → F → F
  floor : F → F
  /-- `f64::round`: half away from zero -/
  round : F → F
  lt : F → F → Bool
  /-- `as i64` (truncating, saturating, NaN ↦ 0) -/
  toInt : F → Int

open FloatOps

instance : FloatOps Float where
  ofInt := Float.ofInt
  add := (· + ·)
  sub := (· - ·)
  mul := (· * ·)
  div := (· / ·)
  floor := Float.floor
  round := Float.round
  lt a b := a < b
  toInt x := x.toInt64.toInt

/-- round half away from zero on rationals -/
def ratRound (x : Rat) : Int :=
  if 0 ≤ x then (x + 1 / 2).floor else -((-x + 1 / 2).floor)

/-- truncation towards zero on rationals -/
def ratTrunc (x : Rat) : Int := if 0 ≤ x then x.floor else -((-x).floor)

instance : FloatOps Rat where
  ofInt := fun n => (n : Rat)
  add := (· + ·)
  sub := (· - ·)
  mul := (· * ·)
  div := (· / ·)
  floor x := (x.floor : Rat)
  round x := (ratRound x : Rat)
  lt a b := decide (a < b)
  toInt := ratTrunc

/-- Fixed-point numbers with unit 1/86400 day (one second): `⟨n⟩` stands for `n / 86400`.
    Exact for `+`, `-`, `floor`, `round`, comparisons and `as i64`; `mul`/`div` round down to a
    whole number of units, which loses nothing whenever the true result is a whole number of
    seconds (that is the case for every intermediate value of `excel_to_date_time_object` on a
    serial `D + T/86400`; `Umya.Thm.C18.C18_time_exact_no_loss` proves it). -/
structure Fix where
  n : Int
  deriving Repr, DecidableEq

instance : FloatOps Fix where
  ofInt k := ⟨86400 * k⟩
  add a b := ⟨a.n + b.n⟩
  sub a b := ⟨a.n - b.n⟩
  mul a b := ⟨a.n * b.n / 86400⟩
  div a b := ⟨86400 * a.n / b.n⟩
  floor a := ⟨a.n / 86400 * 86400⟩
  round a := ⟨(if 0 ≤ a.n then (2 * a.n + 86400) / 172800 else -((-2 * a.n + 86400) / 172800)) * 86400⟩
  lt a b := decide (a.n < b.n)
  toInt a := a.n.tdiv 86400

/-- `(excel_date as f64 + excel_time)` with `excel_time = secs as f64 / 86400 as f64` -/
def serialOf (F : Type) [FloatOps F] (date secs : Int) : F :=
  add (ofInt date : F) (div (ofInt secs) (ofInt 86400))

/-- `convert_date` as a value of `F` -/
def convertDateF (F : Type) [FloatOps F] (y m d h mi s : Int) : Option F :=
  (convertDate y m d h mi s).map (fun p => serialOf F p.1 p.2)

/-! ## `excel_to_date_time_object` -/

/-- day numbers (1970-01-01 = 0) of the three base dates parsed from string literals -/
def base1970 : Int := 0
def base18991231 : Int := daysFromCivil 1899 12 31
def base18991230 : Int := daysFromCivil 1899 12 30

/-- the base date chosen by the two comparisons (`< 1` → Unix epoch, `< 60` → 1899-12-31, else 1899-12-30) -/
def baseFor {F : Type} [FloatOps F] (ts : F) : Int :=
  if lt ts (ofInt 1 : F) then base1970
  else if lt ts (ofInt 60 : F) then base18991231 else base18991230

/-- the floor/fraction splitting and the `Duration` sum, in seconds since 1970-01-01T00:00:00,
    for a given base day number -/
def splitSeconds {F : Type} [FloatOps F] (ts : F) (base : Int) : Int :=
  let days := floor ts
  let partDay := sub ts days
  let hours := floor (mul partDay (ofInt 24))
  let partDay := sub (mul partDay (ofInt 24)) hours
  let minutes := floor (mul partDay (ofInt 60))
  let partDay := sub (mul partDay (ofInt 60)) minutes
  let seconds := round (mul partDay (ofInt 60))
  (base + toInt days) * 86400 + toInt hours * 3600 + toInt minutes * 60 + toInt seconds

/-- Seconds since 1970-01-01T00:00:00 of the `NaiveDateTime` returned by
    `excel_to_date_time_object` (chrono's `base + Duration::days + hours + minutes + seconds`).
    chrono's range check is not in this function (it is in `excelToEpochSecondsChecked` below, which
    agrees with this one wherever it returns a value: `Umya.Thm.C19.C19_date_checked_agrees`); the C18
    driver answers `unmodelled` for `|timestamp| ≥ 5·10⁷`. -/
def excelToEpochSeconds {F : Type} [FloatOps F] (ts : F) : Int := splitSeconds ts (baseFor ts)

structure DateTime where
  year : Int
  month : Int
  day : Int
  hour : Int
  minute : Int
  second : Int
  /-- day number, kept for the weekday -/
  dayNo : Int
  deriving Repr, DecidableEq

/-- chrono's calendar view of a second count (trusted; represented by the reference calendar) -/
def ofEpochSeconds (t : Int) : DateTime :=
  let dn := t / 86400
  let sod := t % 86400
  let (y, m, d) := civilFromDays dn
  ⟨y, m, d, sod / 3600, sod % 3600 / 60, sod % 60, dn⟩

def excelToDateTime {F : Type} [FloatOps F] (ts : F) : DateTime :=
  ofEpochSeconds (excelToEpochSeconds ts)

/-! ## chrono's ranges and `excel_to_date_time_object_checked` (fix d30eec7)

  After the fix the arithmetic of `excel_to_date_time_object` lives in
  `excel_to_date_time_object_checked`, written with `Duration::try_days / try_hours / try_minutes /
  try_seconds` and `NaiveDateTime::checked_add_signed`; the old public function is
  `…_checked(..).expect(..)` (it still panics where the sum leaves chrono's range), and
  `format_as_date` calls the checked one.  chrono's bounds (0.4.38 … 0.4.45, read off its source;
  trusted, tied by the `c19 edt` stream at the exact boundaries):
  * `TimeDelta::try_seconds(s)` is `Some` iff `|s| ≤ i64::MAX / 1000`;
    `try_days(n) = try_seconds(n.checked_mul(86_400)?)`, likewise hours (3600) and minutes (60);
  * `NaiveDateTime::checked_add_signed` is `Some` iff the sum lies in
    `-262143-01-01T00:00:00 ..= +262142-12-31T23:59:59`. -/

/-- `f64 as i64` saturates; the `Float` instance's `toInt` already does, the exact instances do not -/
def clampI64 (x : Int) : Int :=
  if x < -9223372036854775808 then -9223372036854775808
  else if 9223372036854775807 < x then 9223372036854775807 else x

def i64? (x : Int) : Option Int :=
  if -9223372036854775808 ≤ x ∧ x ≤ 9223372036854775807 then some x else none

/-- `TimeDelta::try_seconds` (whole seconds): `i64::MAX / 1000 = 9223372036854775` -/
def trySeconds (s : Int) : Option Int :=
  if -9223372036854775 ≤ s ∧ s ≤ 9223372036854775 then some s else none

/-- `Duration::try_days(n)` (`unit = 86400`), `try_hours` (3600), `try_minutes` (60), `try_seconds` (1):
    the length in seconds, `none` where chrono returns `None` -/
def tryUnits (unit n : Int) : Option Int := (i64? (n * unit)).bind trySeconds

/-- seconds since 1970-01-01T00:00:00 of `NaiveDateTime::MIN` / `NaiveDateTime::MAX` (whole seconds) -/
def chronoMinSec : Int := daysFromCivil (-262143) 1 1 * 86400
def chronoMaxSec : Int := daysFromCivil 262142 12 31 * 86400 + 86399

/-- `NaiveDateTime::checked_add_signed` on second counts -/
def checkedAddSigned (t d : Int) : Option Int :=
  if chronoMinSec ≤ t + d ∧ t + d ≤ chronoMaxSec then some (t + d) else none

/-- `excel_to_date_time_object_checked`: seconds since 1970-01-01T00:00:00 of the result,
    `none` = the function returns `None` (some `try_*` or some `checked_add_signed` did). -/
def excelToEpochSecondsChecked {F : Type} [FloatOps F] (ts : F) : Option Int := do
  let days := floor ts
  let partDay := sub ts days
  let hours := floor (mul partDay (ofInt 24))
  let partDay := sub (mul partDay (ofInt 24)) hours
  let minutes := floor (mul partDay (ofInt 60))
  let partDay := sub (mul partDay (ofInt 60)) minutes
  let seconds := round (mul partDay (ofInt 60))
  let d ← tryUnits 86400 (clampI64 (toInt days))
  let t ← checkedAddSigned (baseFor ts * 86400) d
  let h ← tryUnits 3600 (clampI64 (toInt hours))
  let t ← checkedAddSigned t h
  let mi ← tryUnits 60 (clampI64 (toInt minutes))
  let t ← checkedAddSigned t mi
  let s ← tryUnits 1 (clampI64 (toInt seconds))
  checkedAddSigned t s

/-- the public `excel_to_date_time_object` after the fix: `…_checked(..).expect(..)`;
    `none` = the Rust panics -/
def excelToDateTimeObject {F : Type} [FloatOps F] (ts : F) : Option DateTime :=
  (excelToEpochSecondsChecked ts).map ofEpochSeconds

/-! ## `format_as_date` for quote-free formats -/

def startsWith : List Char → List Char → Bool
  | _, [] => true
  | [], _ :: _ => false
  | a :: s, b :: p => a == b && startsWith s p

/-- `str::replace(from, to)`: leftmost, non-overlapping; `from` is never empty here. -/
def replaceAll (s from_ to : List Char) : List Char :=
  go s s.length
where
  go (s : List Char) (fuel : Nat) : List Char :=
    match fuel, s with
    | 0, _ => s
    | _, [] => []
    | fuel + 1, c :: r =>
      if !from_.isEmpty && startsWith (c :: r) from_ then
        to ++ go ((c :: r).drop from_.length) fuel
      else c :: go r fuel

def contains (s p : List Char) : Bool :=
  match s with
  | [] => p.isEmpty
  | c :: r => startsWith (c :: r) p || contains r p

def lowerAscii (c : Char) : Char :=
  if c.toNat ≥ 65 && c.toNat ≤ 90 then Char.ofNat (c.toNat + 32) else c

/-- `DATE_FORMAT_REPLACEMENTS` (order matters) -/
def dateReplacements : List (String × String) :=
  [("\\", ""), ("am/pm", "%P"), ("ggge", "%Y"), ("e", "%Y"), ("yyyy", "%Y"), ("yy", "%y"),
   ("mmmmm", "%b"), ("mmmm", "%B"), ("mmm", "%b"), (":mm", ":%M"), ("mm:", "%M:"),
   ("mm", "MM"), ("m", "%-m"), ("MM", "%m"), ("dddd", "%A"), ("ddd", "%a"), ("dd", "D"),
   ("d", "%-d"), ("D", "%d"), ("ss", "%S"), (".s", "")]

def dateReplacements24 : List (String × String) := [("hh", "%H"), ("h", "%-H")]
def dateReplacements12 : List (String × String) := [("hh", "%I"), ("h", "%-I")]

def applyReplacements (tbl : List (String × String)) (s : List Char) : List Char :=
  tbl.foldl (fun acc p => replaceAll acc p.1.toList p.2.toList) s

/-- The format alphabet on which every regex stage of `to_formatted_string` /
    `format_as_date` is the identity (no quotes, brackets, backslash, `;`, `_`, `%`, `#`, `0`…):
    ASCII letters, `- / : . ,` and blank. -/
def fmtCharOk (c : Char) : Bool :=
  (c.toNat ≥ 65 && c.toNat ≤ 90) || (c.toNat ≥ 97 && c.toNat ≤ 122) ||
  c == '-' || c == '/' || c == ':' || c == '.' || c == ',' || c == ' '

/-- `DATE_TIME_REGEX` on a quote-free format: some lower-case `h m s d y` occurs. -/
def isDateFormat (f : List Char) : Bool :=
  f.any (fun c => c == 'h' || c == 'm' || c == 's' || c == 'd' || c == 'y')

/-- The strftime string `format_as_date` hands to chrono; `none` = outside the modelled fragment. -/
def strftimeOf (f : List Char) : Option (List Char) :=
  if f.all fmtCharOk && isDateFormat f && f != "General".toList then
    let lower := f.map lowerAscii
    let b := applyReplacements dateReplacements lower
    if !contains b "%P".toList then
      some (applyReplacements dateReplacements24 b)
    else
      some (applyReplacements dateReplacements12 b)
  else none

def pad2 (n : Int) : List Char :=
  if 0 ≤ n ∧ n < 10 then '0' :: decDigits n.toNat else decDigits n.toNat

def pad4 (n : Int) : List Char :=
  let ds := decDigits n.toNat
  List.replicate (4 - ds.length) '0' ++ ds

def monthNames : List String :=
  ["January", "February", "March", "April", "May", "June", "July", "August", "September",
   "October", "November", "December"]

def dayNames : List String :=
  ["Sunday", "Monday", "Tuesday", "Wednesday", "Thursday", "Friday", "Saturday"]

def nameAt (l : List String) (i : Int) : Option (List Char) :=
  if 0 ≤ i then (l[i.toNat]?).map (·.toList) else none

/-- chrono `%Y` (`write_year`): four digits for 0..9999, else an explicit sign and at least four digits -/
def yearText (y : Int) : List Char :=
  if 0 ≤ y ∧ y ≤ 9999 then pad4 y
  else
    let ds := decDigits y.natAbs
    (if y < 0 then '-' else '+') :: (List.replicate (4 - ds.length) '0' ++ ds)

/-- `%-m %-d %-H %-I`; `none` = specifier outside the modelled fragment -/
def specDash (dt : DateTime) (c : Char) : Option (List Char) :=
  if c == 'm' then some (decDigits dt.month.toNat)
  else if c == 'd' then some (decDigits dt.day.toNat)
  else if c == 'H' then some (decDigits dt.hour.toNat)
  else if c == 'I' then some (decDigits ((dt.hour + 11) % 12 + 1).toNat)
  else none

/-- `%Y %y %m %d %H %I %M %S %B %b %A %a %P`; `none` = specifier outside the modelled fragment
    (or a month outside 1..12, which `ofEpochSeconds` never produces) -/
def specPlain (dt : DateTime) (c : Char) : Option (List Char) :=
  if c == 'Y' then some (yearText dt.year)
  else if c == 'y' then some (pad2 (dt.year % 100))      -- `rem_euclid(100)`
  else if c == 'm' then some (pad2 dt.month)
  else if c == 'd' then some (pad2 dt.day)
  else if c == 'H' then some (pad2 dt.hour)
  else if c == 'I' then some (pad2 ((dt.hour + 11) % 12 + 1))
  else if c == 'M' then some (pad2 dt.minute)
  else if c == 'S' then some (pad2 dt.second)
  else if c == 'B' then nameAt monthNames (dt.month - 1)
  else if c == 'b' then (nameAt monthNames (dt.month - 1)).map (·.take 3)
  else if c == 'A' then nameAt dayNames ((dt.dayNo + 4) % 7)
  else if c == 'a' then (nameAt dayNames ((dt.dayNo + 4) % 7)).map (·.take 3)
  else if c == 'P' then some (if dt.hour < 12 then "am".toList else "pm".toList)
  else none

/-- chrono `strftime` for the specifiers the replacement tables can produce, every year of chrono's
    range; `none` = outside the modelled fragment (chrono would panic or the specifier is not modelled). -/
def strftime (dt : DateTime) : List Char → Nat → Option (List Char)
  | [], _ => some []
  | _, 0 => none
  | '%' :: '-' :: c :: r, fuel + 1 =>
    match specDash dt c, strftime dt r fuel with
    | some a, some b => some (a ++ b)
    | _, _ => none
  | '%' :: c :: r, fuel + 1 =>
    match specPlain dt c, strftime dt r fuel with
    | some a, some b => some (a ++ b)
    | _, _ => none
  | ['%'], _ => none
  | c :: r, fuel + 1 => (strftime dt r fuel).map (c :: ·)

def trimBlanks (s : List Char) : List Char :=
  ((s.dropWhile (· == ' ')).reverse.dropWhile (· == ' ')).reverse

/-- `Cell::get_formatted_value` for a numeric cell whose number format `f` is in the modelled
    date fragment: `to_formatted_string(value, f)`; `none` = unmodelled. -/
def formatAsDate {F : Type} [FloatOps F] (f : List Char) (ts : F) : Option (List Char) :=
  match strftimeOf f with
  | some sf => (strftime (excelToDateTime ts) sf (sf.length + 1)).map trimBlanks
  | none => none

/-- `format_as_date` after fix d30eec7, for a format `f` of the modelled fragment: the conversion is the
    checked one; where it returns `None` (serial beyond chrono's years) the result is `value.to_string()`
    — `g`, the shortest decimal text of the number, the same text `General` shows — otherwise chrono's
    rendering; `to_formatted_string` trims the result.  `none` = unmodelled (format outside the fragment).
    There is no panic path: the only partial step of the old code, `base + Duration::days(..) + …`, is
    now `excelToEpochSecondsChecked`, whose `none` is handled. -/
def formatAsDateChecked {F : Type} [FloatOps F] (f g : List Char) (ts : F) : Option (List Char) :=
  match strftimeOf f with
  | none => none
  | some sf =>
    match excelToEpochSecondsChecked ts with
    | none => some (trimBlanks g)
    | some t => (strftime (ofEpochSeconds t) sf (sf.length + 1)).map trimBlanks

end Umya.Date
