/-
  C13 — a small protocol language for the save functions of `writer/xlsx.rs`, `writer/csv.rs` and
  `helper/crypt.rs::try_encrypt`, its interpreter onto the file-system model `Umya/Model/Fs.lean`,
  and the hand model's own protocol terms.

  Two levels:

  * `Prog`  — what `tools/extract_proto.py` regenerates from the source on every run
              (`Umya/Model/Gen/Proto.lean`): the function body in continuation form.  Every effectful
              call is one node; what happens to its `Result` is explicit: stored in a result variable
              (`set`: `let mut result = …` / `result = …`), consumed on the spot (`branch`: `?`,
              `match … { Ok(..) => …, Err(e) => … }`, `if let Err(..)`, `.unwrap()` with `panic` as the
              error continuation) or discarded (`act`: `let _ = …`, `.ok()`, also calls without a result
              such as `drop(..)` and `BufWriter::new(..)`); `test` is `result.is_ok()` / `is_err()` /
              a `match` on a result variable.  Callees (`write_writer…`, `try_encrypt`, local helpers) are
              inlined by the translator; scope-end drops of an owned writer are explicit `drop` nodes.
  * `Tree`  — the variable-free normal form: a binary decision tree over the outcomes of the calls
              (`call op onOk onErr`), with `?`-propagation and the error-path block spelled out.
              `norm : Prog → Tree` eliminates the result variables by symbolic execution;
              `Lemmas/SaveProto.lean` proves `exec p = interpT (norm p)` for every program, so a
              behaviour-preserving rewrite of the control flow has the same tree and the per-function
              obligation `norm Gen.f [] = <model tree>` is a closed `decide`.

  Paths are expressions (`E`) over the function's path parameters, evaluated with a model of
  `Path::extension` / `Path::with_extension` on `List Char` (`splitExt`, from std's documentation).

  Core Lean only.
-/
import Umya.Model.Fs
namespace Umya.SaveProto
open Umya.Fs

/-! ### path / string expressions -/

/-- expressions of type `Path` / `&str` over the path parameters of the function -/
inductive E where
  /-- the destination parameter (`path`, `to_path`, `filepath`) -/
  | dest
  /-- the source parameter of `set_password` (`from_path`) -/
  | src
  /-- a string literal -/
  | lit (s : List Char)
  /-- `p.extension().unwrap().to_str().unwrap()` -/
  | ext (p : E)
  /-- `format!("{}{}", a, b)` -/
  | cat (a b : E)
  /-- `p.with_extension(e)` -/
  | withExt (p e : E)
  /-- `if p.exists() { a } else { b }` (seeded C13c); evaluated on the file system at function entry -/
  | ifExists (p a b : E)
  deriving DecidableEq, Repr

/-- scan the reversed path for the last `.` of the last component; `acc` = extension read so far -/
def splitRev : List Char → List Char → Option (List Char × List Char)
  | [], _ => none
  | c :: r, acc =>
    if c = '/' then none
    else if c = '.' then
      -- `.foo` (file name begins with the only dot) and `..` have no extension
      match r with
      | [] => none
      | d :: r' =>
        if d = '/' then none
        else if acc = [] ∧ d = '.' ∧ (r' = [] ∨ r'.head? = some '/') then none
        else some ((d :: r').reverse, acc)
    else splitRev r (c :: acc)

/-- `Path::extension` (std documentation): `some (pre, ext)` with `path = pre ++ "." ++ ext`, `ext` the portion
    of the file name after its final `.`; `none` if there is no file name, no embedded `.`, or the file name
    begins with its only `.` (paths with a trailing `/` are outside the model: `none`) -/
def splitExt (p : Path) : Option (List Char × List Char) := splitRev p.reverse []

/-- `Path::with_extension(e)` for a path that has an extension: the extension is replaced -/
def withExtension (p : Path) (e : List Char) : Option Path :=
  match splitExt p with
  | some (pre, _) => some (if e = [] then pre else pre ++ '.' :: e)
  | none => none        -- no extension: not used by the save functions (they `unwrap` the extension first)

/-- evaluation; `none` = outside the model (a path without extension: the functions panic on
    `extension().unwrap()` before any I/O) -/
def evalE (fs0 : Fs) (dest src : Path) : E → Option (List Char)
  | .dest => some dest
  | .src => some src
  | .lit s => some s
  | .ext p =>
    match evalE fs0 dest src p with
    | some q => (match splitExt q with | some (_, x) => some x | none => none)
    | none => none
  | .cat a b =>
    match evalE fs0 dest src a, evalE fs0 dest src b with
    | some x, some y => some (x ++ y)
    | _, _ => none
  | .withExt p e =>
    match evalE fs0 dest src p, evalE fs0 dest src e with
    | some q, some x => withExtension q x
    | _, _ => none
  | .ifExists p a b =>
    match evalE fs0 dest src p with
    | some q => if (get fs0 q).isSome then evalE fs0 dest src a else evalE fs0 dest src b
    | none => none

/-- the temp name as the hand model writes it: `path.with_extension(format!("{}{}", extension, "tmp"))` -/
def tmpE (p : E) : E := .withExt p (.cat (.ext p) (.lit ['t', 'm', 'p']))

/-! ### operations -/

inductive Op where
  /-- `fs::File::create(p)` -/
  | create (p : E)
  /-- `io::BufWriter::new(file)` (`cap` = 8192) / `with_capacity(cap, file)` -/
  | bufNew (cap : Nat)
  /-- the in-memory construction of the output (`make_buffer(..)`: `fallible`; the csv text and its encoding: not) -/
  | compute (fallible : Bool)
  /-- `writer.write_all(&buffer)` on the current writer (the `BufWriter` if there is one, else the file / sink) -/
  | writeAll
  /-- `writer.write(&buffer)`: one write call (seeded C13) — not a protocol of the model -/
  | write1
  /-- `writer.flush()` -/
  | flush
  /-- `drop(writer)`, explicit or at the end of the owning scope -/
  | drop
  /-- `fs::rename(a, b)` -/
  | rename (a b : E)
  /-- `fs::remove_file(p)` -/
  | remove (p : E)
  /-- `cfb::create(p)`: creates the file and writes the container header (an opaque sequence of checked `write_all`s) -/
  | cfbCreate (p : E)
  /-- `write_compound_file(comp, ..)`: the streams (an opaque sequence of checked `write_all`s), consuming the
      compound file; the translator checks that every library call in it is `?`-checked or returned -/
  | cfbWrite
  /-- `File::open(p)` -/
  | openRead (p : E)
  /-- `file.read_to_end(&mut buffer)` (read faults are not in the fault plan) -/
  | readAll
  deriving DecidableEq, Repr

/-- what the interpretation is parametric in -/
structure Ctx where
  φ : Fault
  /-- `make_buffer` succeeds -/
  cok : Bool
  /-- its output (for csv: the encoded text) -/
  data : Bytes
  /-- the `write_all` sequences of `cfb::create` / `write_compound_file` for a given package -/
  enc1 : Bytes → List Bytes
  enc2 : Bytes → List Bytes
  dest : Path
  src : Path
  /-- the file system at function entry (for `ifExists`) -/
  fs0 : Fs

/-- machine state: file-system state with history, the open file / `BufWriter`, the bytes read, the buffer -/
structure M where
  st : St
  file : Option Path
  bw : Option BufW
  rd : Option Bytes
  pkg : Option Bytes

def M.init (st : St) : M := ⟨st, none, none, none, none⟩
/-- saving to a caller-supplied writer: the sink is the open file `sinkPath` -/
def M.sink : M := ⟨St.init [(sinkPath, .file [])], some sinkPath, none, none, none⟩

def isOk : R → Bool
  | .ok => true
  | _ => false

/-- one operation; `none` = the operation does not apply (no writer open, …): an ill-formed protocol -/
def step (c : Ctx) : Op → M → Option (M × Bool)
  | .create p, m =>
    match m.file, m.bw, evalE c.fs0 c.dest c.src p with
    | none, none, some q =>
      match sysCreate c.φ q m.st with
      | (st1, none) => some ({ m with st := st1 }, false)
      | (st1, some h) => some ({ m with st := st1, file := some h }, true)
    | _, _, _ => none
  | .bufNew n, m =>
    match m.file, m.bw with
    | some h, none => if n = cap then some ({ m with bw := some ⟨h, []⟩ }, true) else none
    | _, _ => none
  | .compute f, m =>
    if f && !c.cok then some (m, false) else some ({ m with pkg := some c.data }, true)
  | .writeAll, m =>
    match m.pkg with
    | none => none
    | some d =>
      match m.bw, m.file with
      | some b, _ =>
        let o := bufWriteAll c.φ b d m.st
        some ({ m with bw := some o.1, st := o.2.1 }, isOk o.2.2)
      | none, some h =>
        let o := writeAll c.φ h d.length d m.st
        some ({ m with st := o.1 }, isOk o.2)
      | none, none => none
  | .write1, _ => none
  | .flush, m =>
    match m.bw, m.file with
    | some b, _ =>
      let o := bufFlush c.φ b m.st
      some ({ m with bw := some o.1, st := o.2.1 }, isOk o.2.2)
    | none, some _ => some (m, true)
    | none, none => none
  | .drop, m =>
    match m.bw, m.file with
    | some b, _ => some ({ m with st := bufDrop c.φ b m.st, bw := none, file := none }, true)
    | none, some _ => some ({ m with file := none }, true)
    | none, none => none
  | .rename a b, m =>
    match evalE c.fs0 c.dest c.src a, evalE c.fs0 c.dest c.src b with
    | some p, some q =>
      let o := sysRename c.φ p q m.st
      some ({ m with st := o.1 }, isOk o.2)
    | _, _ => none
  | .remove a, m =>
    match evalE c.fs0 c.dest c.src a with
    | some p =>
      let o := sysRemove c.φ p m.st
      some ({ m with st := o.1 }, isOk o.2)
    | none => none
  | .cfbCreate p, m =>
    match m.file, m.pkg, evalE c.fs0 c.dest c.src p with
    | none, some d, some q =>
      match sysCreate c.φ q m.st with
      | (st1, none) => some ({ m with st := st1 }, false)
      | (st1, some h) =>
        let o := writeChunks c.φ h (c.enc1 d) st1
        some ({ m with st := o.1, file := some h }, isOk o.2)
    | _, _, _ => none
  | .cfbWrite, m =>
    match m.file, m.pkg with
    | some h, some d =>
      let o := writeChunks c.φ h (c.enc2 d) m.st
      some ({ m with st := o.1, file := none }, isOk o.2)
    | _, _ => none
  | .openRead p, m =>
    match evalE c.fs0 c.dest c.src p with
    | some q =>
      match content m.st.cur q with
      | some b => some ({ m with rd := some b }, true)
      | none => some (m, false)
    | none => none
  | .readAll, m =>
    match m.rd with
    | some b => some ({ m with pkg := some b }, true)
    | none => none

/-! ### programs (what the translator emits) -/

inductive Prog where
  /-- `result` in tail position / `return result` -/
  | ret (v : Nat)
  /-- `Ok(())` -/
  | retOk
  /-- `Err(e)` (also the error exit of `?`) -/
  | retErr
  /-- `.unwrap()` / `.expect(..)` of an `Err` -/
  | panic
  /-- the result is discarded or there is none: `let _ = op;`, `op.ok();`, `drop(w)`, `BufWriter::new(f)` -/
  | act (op : Op) (k : Prog)
  /-- `let mut v = op;` / `v = op;` -/
  | set (v : Nat) (op : Op) (k : Prog)
  /-- `v = Ok(..)` / `v = Err(..)` (an inlined callee returning into `v`) -/
  | const (v : Nat) (ok : Bool) (k : Prog)
  /-- `match op { Ok(..) => ok, Err(e) => err }`; `op?` is `branch op k retErr` (after the scope-end drops) -/
  | branch (op : Op) (ok err : Prog)
  /-- `if v.is_ok() { ok } else { err }` -/
  | test (v : Nat) (ok err : Prog)
  deriving DecidableEq, Repr

def lookup : List (Nat × Bool) → Nat → Option Bool
  | [], _ => none
  | (w, b) :: r, v => if w = v then some b else lookup r v

def retOf (st : St) (b : Bool) : St × R := (st, if b then .ok else .err)

/-- operational semantics of a program: final file-system state (with its history) and the result;
    `none` = ill-formed (an operation that does not apply, an unbound result variable) -/
def exec (c : Ctx) : Prog → List (Nat × Bool) → M → Option (St × R)
  | .ret v, e, m => (lookup e v).map (retOf m.st)
  | .retOk, _, m => some (m.st, .ok)
  | .retErr, _, m => some (m.st, .err)
  | .panic, _, m => some (m.st, .panic)
  | .act op k, e, m =>
    match step c op m with
    | some (m', _) => exec c k e m'
    | none => none
  | .set v op k, e, m =>
    match step c op m with
    | some (m', b) => exec c k ((v, b) :: e) m'
    | none => none
  | .const v b k, e, m => exec c k ((v, b) :: e) m
  | .branch op a b, e, m =>
    match step c op m with
    | some (m', true) => exec c a e m'
    | some (m', false) => exec c b e m'
    | none => none
  | .test v a b, e, m =>
    match lookup e v with
    | some true => exec c a e m
    | some false => exec c b e m
    | none => none

/-! ### decision trees (the normal form) -/

inductive Tree where
  | retOk
  | retErr
  | panic
  /-- an unbound result variable -/
  | stuck
  /-- the outcome of `op` does not matter -/
  | act (op : Op) (k : Tree)
  /-- continue with `ok` if `op` succeeds, with `err` if it fails -/
  | call (op : Op) (ok err : Tree)
  deriving DecidableEq, Repr

def interpT (c : Ctx) : Tree → M → Option (St × R)
  | .retOk, m => some (m.st, .ok)
  | .retErr, m => some (m.st, .err)
  | .panic, m => some (m.st, .panic)
  | .stuck, _ => none
  | .act op k, m =>
    match step c op m with
    | some (m', _) => interpT c k m'
    | none => none
  | .call op a b, m =>
    match step c op m with
    | some (m', true) => interpT c a m'
    | some (m', false) => interpT c b m'
    | none => none

/-- a call whose two continuations coincide is an `act` (`if let Err(_) = op {}` ≡ `let _ = op`) -/
def mkCall (op : Op) (a b : Tree) : Tree := if a = b then .act op a else .call op a b

/-- symbolic execution: the result variables are eliminated -/
def norm : Prog → List (Nat × Bool) → Tree
  | .ret v, e => match lookup e v with | some true => .retOk | some false => .retErr | none => .stuck
  | .retOk, _ => .retOk
  | .retErr, _ => .retErr
  | .panic, _ => .panic
  | .act op k, e => .act op (norm k e)
  | .set v op k, e => mkCall op (norm k ((v, true) :: e)) (norm k ((v, false) :: e))
  | .const v b k, e => norm k ((v, b) :: e)
  | .branch op a b, e => mkCall op (norm a e) (norm b e)
  | .test v a b, e =>
    match lookup e v with
    | some true => norm a e
    | some false => norm b e
    | none => .stuck

/-! ### the hand model's protocol terms

  Each is the protocol of `Model/Fs.lean` written in the language above; `Lemmas/SaveProto.lean` proves that
  their interpretation IS `savePath` / `savePw` / `setPw` / `writeWriter`. -/

open Tree in
/-- error path of the path saves: `let _ = fs::remove_file(&path_tmp); Err(e)` -/
def cleanupT (p : E) : Tree := act (.remove (tmpE p)) retErr

open Tree in
/-- `fs::rename(&path_tmp, path)`; on error the error path -/
def finishT (p : E) : Tree := call (.rename (tmpE p) p) retOk (cleanupT p)

open Tree in
/-- `xlsx::write`, `xlsx::write_light` (as fixed): create `<dest>tmp`?, BufWriter, `write_writer` (= `make_buffer`?,
    `write_all`?), flush if ok, drop, rename if ok, remove the temp file on any error after the creation -/
def savePathT : Tree :=
  call (.create (tmpE .dest))
    (act (.bufNew 8192)
      (call (.compute true)
        (call .writeAll
          (call .flush
            (act .drop (finishT .dest))
            (act .drop (cleanupT .dest)))
          (act .drop (cleanupT .dest)))
        (act .drop (cleanupT .dest))))
    retErr

open Tree in
/-- `csv::write` (as fixed): the same protocol; the text is built by an infallible computation -/
def savePathCsvT : Tree :=
  call (.create (tmpE .dest))
    (act (.bufNew 8192)
      (act (.compute false)
        (call .writeAll
          (call .flush
            (act .drop (finishT .dest))
            (act .drop (cleanupT .dest)))
          (act .drop (cleanupT .dest)))))
    retErr

open Tree in
/-- `try_encrypt(&path_tmp, ..)` then rename / remove: the tail shared by the password saves -/
def encryptT : Tree :=
  call (.cfbCreate (tmpE .dest))
    (call .cfbWrite (finishT .dest) (cleanupT .dest))
    (cleanupT .dest)

open Tree in
/-- `write_with_password`, `write_with_password_light` (as fixed): `make_buffer`? before anything is created -/
def savePwT : Tree := call (.compute true) encryptT retErr

open Tree in
/-- `set_password` (as fixed): open?, read?, then the same tail -/
def setPwT : Tree := call (.openRead .src) (call .readAll encryptT retErr) retErr

open Tree in
/-- `xlsx::write_writer`, `write_writer_light`: `make_buffer`?, `write_all`?, `Ok(())` -/
def writeWriterT : Tree := call (.compute true) (call .writeAll retOk retErr) retErr

open Tree in
/-- `csv::write_writer` (as fixed): the text, `write_all`?, `Ok(())` -/
def writeWriterCsvT : Tree := act (.compute false) (call .writeAll retOk retErr)

/-- ok stays ok, everything else is an error (the protocol language has two outcomes per call) -/
def okErr (r : R) : R := if r = .ok then .ok else .err

end Umya.SaveProto
