/-
  C06 — protection records, tab colour, active tab, attributes of `<definedName>`.

  Models of `structs/sheet_protection.rs`, `structs/workbook_protection.rs`, `structs/color.rs`
  (`write_to_tab_color` / `set_attributes`) with the `<sheetPr>` wrapper of
  `writer/xlsx/worksheet.rs`, `structs/workbook_view.rs`, and the attribute part of
  `structs/defined_name.rs` (`name`, `localSheetId`, `hidden`).

  `write x` is the element tree an XML 1.0 reader delivers for what `write_to` emits (decoded
  attribute values, see `Model/AnnotCodec.lean`); `read` is `set_attributes` on such a tree.
  Outer `none` of a `read` = a Rust panic (`parse::<u32>().unwrap()`).
-/
import Umya.Model.AnnotCodec
namespace Umya.AnnotProt
open Umya.Spec.Xml (Node Attr)
open Umya.Dec Umya.AnnotCodec

/-! ## `<sheetProtection>` -/

/-- the sixteen `BooleanValue` fields of `SheetProtection`, in the order `write_to` pushes them -/
inductive Flag where
  | sheet | objects | deleteRows | insertColumns | deleteColumns | insertHyperlinks | autoFilter
  | scenarios | formatCells | formatColumns | insertRows | formatRows | pivotTables
  | selectLockedCells | selectUnlockedCells | sort
  deriving DecidableEq, Repr

def Flag.all : List Flag :=
  [.sheet, .objects, .deleteRows, .insertColumns, .deleteColumns, .insertHyperlinks, .autoFilter,
   .scenarios, .formatCells, .formatColumns, .insertRows, .formatRows, .pivotTables,
   .selectLockedCells, .selectUnlockedCells, .sort]

/-- the attribute a flag is written to and read from -/
def Flag.attrS : Flag → String
  | .sheet => "sheet" | .objects => "objects" | .deleteRows => "deleteRows"
  | .insertColumns => "insertColumns" | .deleteColumns => "deleteColumns"
  | .insertHyperlinks => "insertHyperlinks" | .autoFilter => "autoFilter" | .scenarios => "scenarios"
  | .formatCells => "formatCells" | .formatColumns => "formatColumns" | .insertRows => "insertRows"
  | .formatRows => "formatRows" | .pivotTables => "pivotTables"
  | .selectLockedCells => "selectLockedCells" | .selectUnlockedCells => "selectUnlockedCells"
  | .sort => "sort"

/-- the Rust field that holds it -/
def Flag.fieldS : Flag → String
  | .sheet => "sheet" | .objects => "objects" | .deleteRows => "delete_rows"
  | .insertColumns => "insert_columns" | .deleteColumns => "delete_columns"
  | .insertHyperlinks => "insert_hyperlinks" | .autoFilter => "auto_filter" | .scenarios => "scenarios"
  | .formatCells => "format_cells" | .formatColumns => "format_columns" | .insertRows => "insert_rows"
  | .formatRows => "format_rows" | .pivotTables => "pivot_tables"
  | .selectLockedCells => "select_locked_cells" | .selectUnlockedCells => "select_unlocked_cells"
  | .sort => "sort"

def Flag.attr (f : Flag) : Text := f.attrS.toList

/-- field ↔ attribute table of `sheet_protection.rs` (both `set_attributes` and `write_to` follow it):
    the five hash fields, then the flags -/
def sheetProtectionTable : List (String × String) :=
  [("algorithm_name", "algorithmName"), ("hash_value", "hashValue"), ("salt_value", "saltValue"),
   ("spin_count", "spinCount"), ("password", "password")] ++ Flag.all.map (fun f => (f.fieldS, f.attrS))

/-- `SheetProtection`: every field is an `Option` (`StringValue` / `UInt32Value` / `BooleanValue`);
    the sixteen flags are indexed by `Flag` -/
structure SheetProtection where
  algorithmName : Option Text := none
  hashValue : Option Text := none
  saltValue : Option Text := none
  spinCount : Option Nat := none
  password : Option Text := none
  flags : Flag → Option Bool := fun _ => none

/-- the `(attribute, text to write if any)` list of `write_to`, in order -/
def SheetProtection.fields (x : SheetProtection) : List (Text × Option Text) :=
  [("algorithmName".toList, x.algorithmName), ("hashValue".toList, x.hashValue),
   ("saltValue".toList, x.saltValue), ("spinCount".toList, x.spinCount.map decDigits),
   ("password".toList, x.password)] ++ Flag.all.map (fun f => (f.attr, (x.flags f).map boolStr))

def sheetProtectionKeys : List Text :=
  ["algorithmName".toList, "hashValue".toList, "saltValue".toList, "spinCount".toList, "password".toList]
    ++ Flag.all.map Flag.attr

/-- `SheetProtection::write_to` -/
def SheetProtection.write (x : SheetProtection) : Node := elem "sheetProtection" (render x.fields) []

/-- `SheetProtection::set_attributes` on a default object -/
def SheetProtection.read (n : Node) : Option SheetProtection :=
  let as := n.attrs
  (optU32 (getAttr as "spinCount".toList)).map fun spin =>
    { algorithmName := getAttr as "algorithmName".toList
      hashValue := getAttr as "hashValue".toList
      saltValue := getAttr as "saltValue".toList
      spinCount := spin
      password := getAttr as "password".toList
      flags := fun f => optBool (getAttr as f.attr) }

/-- what can be stored: `spin_count` is a `u32` -/
def SheetProtection.WF (x : SheetProtection) : Prop := ∀ n, x.spinCount = some n → n < 4294967296

/-- the getter level (`get_sheet()` … return `false` when there is no value, the string getters `""`) -/
def SheetProtection.flagValue (x : SheetProtection) (f : Flag) : Bool := (x.flags f).getD false

/-! ## `<workbookProtection>` -/

structure WorkbookProtection where
  workbookAlgorithmName : Option Text := none
  workbookHashValue : Option Text := none
  workbookSaltValue : Option Text := none
  workbookSpinCount : Option Nat := none
  workbookPassword : Option Text := none
  revisionsAlgorithmName : Option Text := none
  revisionsHashValue : Option Text := none
  revisionsSaltValue : Option Text := none
  revisionsSpinCount : Option Nat := none
  revisionsPassword : Option Text := none
  lockRevision : Option Bool := none
  lockStructure : Option Bool := none
  lockWindows : Option Bool := none
  deriving DecidableEq, Repr

def workbookProtectionTable : List (String × String) :=
  [("workbook_algorithm_name", "workbookAlgorithmName"), ("workbook_hash_value", "workbookHashValue"),
   ("workbook_salt_value", "workbookSaltValue"), ("workbook_spin_count", "workbookSpinCount"),
   ("workbook_password", "workbookPassword"), ("revisions_algorithm_name", "revisionsAlgorithmName"),
   ("revisions_hash_value", "revisionsHashValue"), ("revisions_salt_value", "revisionsSaltValue"),
   ("revisions_spin_count", "revisionsSpinCount"), ("revisions_password", "revisionsPassword"),
   ("lock_revision", "lockRevision"), ("lock_structure", "lockStructure"), ("lock_windows", "lockWindows")]

def WorkbookProtection.fields (x : WorkbookProtection) : List (Text × Option Text) :=
  [("workbookAlgorithmName".toList, x.workbookAlgorithmName),
   ("workbookHashValue".toList, x.workbookHashValue),
   ("workbookSaltValue".toList, x.workbookSaltValue),
   ("workbookSpinCount".toList, x.workbookSpinCount.map decDigits),
   ("workbookPassword".toList, x.workbookPassword),
   ("revisionsAlgorithmName".toList, x.revisionsAlgorithmName),
   ("revisionsHashValue".toList, x.revisionsHashValue),
   ("revisionsSaltValue".toList, x.revisionsSaltValue),
   ("revisionsSpinCount".toList, x.revisionsSpinCount.map decDigits),
   ("revisionsPassword".toList, x.revisionsPassword),
   ("lockRevision".toList, x.lockRevision.map boolStr),
   ("lockStructure".toList, x.lockStructure.map boolStr),
   ("lockWindows".toList, x.lockWindows.map boolStr)]

def workbookProtectionKeys : List Text := workbookProtectionTable.map (·.2.toList)

def WorkbookProtection.write (x : WorkbookProtection) : Node := elem "workbookProtection" (render x.fields) []

def WorkbookProtection.read (n : Node) : Option WorkbookProtection :=
  let as := n.attrs
  (optU32 (getAttr as "workbookSpinCount".toList)).bind fun ws =>
  (optU32 (getAttr as "revisionsSpinCount".toList)).map fun rs =>
    { workbookAlgorithmName := getAttr as "workbookAlgorithmName".toList
      workbookHashValue := getAttr as "workbookHashValue".toList
      workbookSaltValue := getAttr as "workbookSaltValue".toList
      workbookSpinCount := ws
      workbookPassword := getAttr as "workbookPassword".toList
      revisionsAlgorithmName := getAttr as "revisionsAlgorithmName".toList
      revisionsHashValue := getAttr as "revisionsHashValue".toList
      revisionsSaltValue := getAttr as "revisionsSaltValue".toList
      revisionsSpinCount := rs
      revisionsPassword := getAttr as "revisionsPassword".toList
      lockRevision := optBool (getAttr as "lockRevision".toList)
      lockStructure := optBool (getAttr as "lockStructure".toList)
      lockWindows := optBool (getAttr as "lockWindows".toList) }

def WorkbookProtection.WF (x : WorkbookProtection) : Prop :=
  (∀ n, x.workbookSpinCount = some n → n < 4294967296) ∧ (∀ n, x.revisionsSpinCount = some n → n < 4294967296)

/-! ## tab colour: `Color::write_to(.., "tabColor")`, `Color::set_attributes`, the `<sheetPr>` wrapper -/

structure Color (Z : NumZ) where
  indexed : Option Nat := none
  theme : Option Nat := none
  argb : Option Text := none
  tint : Option Z.F.Num := none

/-- `theme`, else `indexed`, else `rgb`: at most one of the three is written; then `tint` -/
def Color.fields {Z} (c : Color Z) : List (Text × Option Text) :=
  [("theme".toList, c.theme.map decDigits),
   ("indexed".toList, if c.theme.isSome then none else c.indexed.map decDigits),
   ("rgb".toList, if c.theme.isSome || c.indexed.isSome then none else c.argb),
   ("tint".toList, c.tint.map Z.F.fmt)]

/-- `Color::write_to`: no element at all when no attribute would be written -/
def Color.writeTab {Z} (c : Color Z) : List Node :=
  if render c.fields = [] then [] else [elem "tabColor" (render c.fields) []]

/-- one step of the attribute loop of `Color::set_attributes` (every attribute is visited; a later one
    with the same name overwrites) -/
def Color.step {Z} (acc : Option (Color Z)) (a : Attr) : Option (Color Z) :=
  acc.bind fun c =>
    if a.name = "indexed".toList then (u32Attr a.value).map fun n => { c with indexed := some n }
    else if a.name = "theme".toList then (u32Attr a.value).map fun n => { c with theme := some n }
    else if a.name = "rgb".toList then some { c with argb := some a.value }
    else if a.name = "tint".toList then some { c with tint := some (numRead Z a.value) }
    else some c

def Color.read {Z} (c : Color Z) (n : Node) : Option (Color Z) := n.attrs.foldl Color.step (some c)

/-- the part of the worksheet writer around it: `<sheetPr>` … `</sheetPr>` exactly when the sheet has a
    `tab_color` object (the opaque `codeName` attribute of a macro workbook is passed through) -/
def writeSheetPr {Z} (codeName : List Attr) (tab : Option (Color Z)) : List Node :=
  match tab with
  | some c => [elem "sheetPr" codeName c.writeTab]
  | none => if codeName = [] then [] else [elem "sheetPr" codeName []]

/-- the worksheet reader: any `<tabColor/>` makes `get_tab_color_mut()` create the object and reads it -/
def readSheetPr {Z} (l : List Node) : Option (Option (Color Z)) :=
  match l.flatMap elemKids |>.find? (fun k => k.name = "tabColor".toList) with
  | some k => (Color.read {} k).map some
  | none => some none

/-- what is written is the first present of theme / indexed / rgb (the public setters `set_argb`,
    `set_indexed`, `set_theme_index` keep at most one of them, so this is the identity there) -/
def Color.norm {Z} (c : Color Z) : Color Z :=
  { theme := c.theme
    indexed := if c.theme.isSome then none else c.indexed
    argb := if c.theme.isSome || c.indexed.isSome then none else c.argb
    tint := c.tint }

def Color.isEmpty {Z} (c : Color Z) : Bool := c.theme.isNone && c.indexed.isNone && c.argb.isNone && c.tint.isNone

/-- reachable through the setters: at most one of the three colour sources; numbers are `u32` -/
def Color.WF {Z} (c : Color Z) : Prop :=
  (c.theme.isSome → c.indexed = none ∧ c.argb = none) ∧ (c.indexed.isSome → c.argb = none) ∧
  (∀ n, c.theme = some n → n < 4294967296) ∧ (∀ n, c.indexed = some n → n < 4294967296)

/-- an object without any value is not written and therefore gone after reload -/
def normTab {Z} : Option (Color Z) → Option (Color Z)
  | some c => if c.isEmpty then none else some c.norm
  | none => none

/-! ## `<workbookView>`: the active tab -/

structure WorkbookView where
  activeTab : Option Nat := none
  deriving DecidableEq, Repr

def WorkbookView.fields (v : WorkbookView) : List (Text × Option Text) :=
  [("xWindow".toList, some "240".toList), ("yWindow".toList, some "105".toList),
   ("windowWidth".toList, some "14805".toList), ("windowHeight".toList, some "8010".toList),
   ("activeTab".toList, v.activeTab.map decDigits)]

def WorkbookView.write (v : WorkbookView) : Node := elem "workbookView" (render v.fields) []

def WorkbookView.read (n : Node) : Option WorkbookView :=
  (optU32 (getAttr n.attrs "activeTab".toList)).map fun a => { activeTab := a }

/-- `get_active_tab()` -/
def WorkbookView.active (v : WorkbookView) : Nat := v.activeTab.getD 0

/-! ## attributes of `<definedName>` (the text is `Model/Annot.lean`'s business) -/

structure DnAttrs where
  name : Option Text := none
  localSheetId : Option Nat := none
  hidden : Option Bool := none
  deriving DecidableEq, Repr

/-- `name` is always written (`get_name()`, `""` when unset) -/
def DnAttrs.fields (d : DnAttrs) : List (Text × Option Text) :=
  [("name".toList, some (d.name.getD [])), ("localSheetId".toList, d.localSheetId.map decDigits),
   ("hidden".toList, d.hidden.map boolStr)]

def DnAttrs.writeAttrs (d : DnAttrs) : List Attr := render d.fields

def DnAttrs.read (as : List Attr) : Option DnAttrs :=
  (optU32 (getAttr as "localSheetId".toList)).map fun l =>
    { name := getAttr as "name".toList, localSheetId := l, hidden := optBool (getAttr as "hidden".toList) }

def DnAttrs.norm (d : DnAttrs) : DnAttrs := { d with name := some (d.name.getD []) }

end Umya.AnnotProt
