/-
  Floating-point numbers as OPAQUE tokens.

  The cell code only ever prints an `f64` (`Display`, via `CellRawValue::to_string`) and parses
  text into one (`str::parse::<f64>()` in `CellValue::guess_typed_data`).  The model is parametric
  in a `NumFmt`: a token type with `fmt` and `parse`.  Theorems assume `NumFmt.Sound`:

  * `parse (fmt n) = some n`            (Rust's documented `Display`/`FromStr` round trip for `f64`:
                                         the shortest representation that parses back to the same value;
                                         trusted, and sampled by the harness)
  * `fmt n` is non-empty and made of the characters `-0123456789.eE+infNa`
                                        (`Display` prints `-?digits(.digits)?`, `inf`, `-inf` or `NaN`)

  In the driver a token is Rust's shortest decimal text itself (`fmt = id`); `parse` accepts exactly the
  strings of the `f64: FromStr` grammar (`floatSyntax`, modelled from `core::num::dec2flt`) and
  canonicalises them with the hints the harness sends along (`text → Display text` computed by Rust).
-/
namespace Umya.Num

structure NumFmt where
  Num : Type
  fmt : Num → List Char
  parse : List Char → Option Num
  deq : DecidableEq Num

def numChar (c : Char) : Bool :=
  c ∈ ['-', '0', '1', '2', '3', '4', '5', '6', '7', '8', '9', '.', 'e', 'E', '+', 'i', 'n', 'f', 'N', 'a']

structure NumFmt.Sound (F : NumFmt) : Prop where
  parse_fmt : ∀ n, F.parse (F.fmt n) = some n
  fmt_ne : ∀ n, F.fmt n ≠ []
  fmt_chars : ∀ n, ∀ c ∈ F.fmt n, numChar c = true

/-! ## the `f64: FromStr` grammar (`core::num::dec2flt::{dec2flt, parse_partial_number, parse_inf_nan}`) -/

def isDig (c : Char) : Bool := 48 ≤ c.toNat && c.toNat ≤ 57

def lowerAscii (c : Char) : Char := if 65 ≤ c.toNat ∧ c.toNat ≤ 90 then Char.ofNat (c.toNat + 32) else c

/-- optional exponent: nothing, or `e`/`E`, an optional sign and at least one digit, up to the end -/
def expSyntax (s : List Char) : Bool :=
  match s with
  | [] => true
  | c :: r =>
    if c = 'e' ∨ c = 'E' then
      let d := match r with
        | '+' :: r' => r'
        | '-' :: r' => r'
        | _ => r
      d ≠ [] && d.all isDig
    else false

/-- digits, optional `.` digits, at least one digit in total, optional exponent -/
def decimalSyntax (s : List Char) : Bool :=
  let i := s.takeWhile isDig
  let r1 := s.dropWhile isDig
  match r1 with
  | '.' :: r2 =>
    let f := r2.takeWhile isDig
    let r3 := r2.dropWhile isDig
    (i.length + f.length > 0) && expSyntax r3
  | _ => (i.length > 0) && expSyntax r1

def specialSyntax (s : List Char) : Bool :=
  let l := s.map lowerAscii
  l = ['n', 'a', 'n'] || l = ['i', 'n', 'f'] || l = ['i', 'n', 'f', 'i', 'n', 'i', 't', 'y']

/-- does `s.parse::<f64>()` succeed -/
def floatSyntax (s : List Char) : Bool :=
  let body := match s with
    | '+' :: r => r
    | '-' :: r => r
    | _ => s
  decimalSyntax body || specialSyntax body

/-- the driver's instance: tokens are Rust's `Display` texts -/
def textFmt (hints : List (List Char × List Char)) : NumFmt where
  Num := List Char
  fmt := id
  parse := fun s => if floatSyntax s then some (match hints.lookup s with | some t => t | none => s) else none
  deq := inferInstance

end Umya.Num
