/-
  The agile EncryptionInfo descriptor as plain data (MS-OFFCRYPTO §2.3.4.10: `keyData`,
  `dataIntegrity`, `keyEncryptors/keyEncryptor/p:encryptedKey`).  Binary values are kept as the
  base64 text that stands in the XML.  Shared by the model of `build_encryption_info` and by the
  specification of the decryptor (it is data only).
-/
namespace Umya.Agile

structure KeyData where
  saltSize : Nat
  blockSize : Nat
  keyBits : Nat
  hashSize : Nat
  cipherAlgorithm : List Char
  cipherChaining : List Char
  hashAlgorithm : List Char
  saltValue : List Char
  deriving DecidableEq, Repr

structure Info where
  keyData : KeyData
  encryptedHmacKey : List Char
  encryptedHmacValue : List Char
  spinCount : Nat
  /-- the attributes `p:encryptedKey` shares with `keyData` -/
  key : KeyData
  encryptedVerifierHashInput : List Char
  encryptedVerifierHashValue : List Char
  encryptedKeyValue : List Char
  deriving DecidableEq, Repr

end Umya.Agile
