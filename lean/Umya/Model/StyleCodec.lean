/-
  Concrete model of the XML codecs of the style components of umya-spreadsheet:
  `write_to` / `set_attributes` of src/structs/{color, font (+ font_name, font_size, bold, italic,
  underline, strike, vertical_text_alignment, font_family_numbering, font_char_set, font_scheme),
  pattern_fill, gradient_fill, gradient_stop, fill, border, borders, alignment, protection,
  numbering_format, row, column(s)}.rs, on element trees (`Umya.Spec.Xml.Node`).

  Conventions
  * A value wrapper (`BooleanValue`, `UInt32Value`, `Int32Value`, `EnumValue<T>`, `StringValue`,
    `DoubleValue`) is an `Option`: `none` = `has_value()` is false.
  * An `f64` is an opaque token: its Rust `Display` text (shortest decimal).  Reading a float attribute
    is `text.parse::<f64>().unwrap_or_default()`, a TOTAL function of the text; on tokens it is the
    parameter `cf : Tok → Tok` ("parse, then display").  A token `t` is a genuine float text iff
    `cf t = t` (Rust's documented Display/FromStr round trip); NaN and -0 are outside the model.
  * `write` gives the element tree an XML reader delivers for what `write_to` emits (attribute values
    after unescaping: the attribute channel is the subject of C02_attr_channel / C03_attr).
    `read` models `set_attributes` on the events of a tree serialised the way the writers serialise
    (an element the writer emits with `empty_flag` is an `Event::Empty`); `none` = a Rust panic
    (`unwrap` on a missing attribute or on an unparsable integer).
  * md5 is taken to be injective where `Borders::write_to` compares `get_hash_code()` of the vertical /
    horizontal edge with that of `Border::default()` (the comparison is modelled on the hashed text).
  Core Lean only.
-/
import Umya.Spec.XmlLex
import Umya.Model.Dec
namespace Umya.StyleCodec
open Umya.Spec.Xml (Node Attr)
open Umya.Dec (decDigits parseU32)

abbrev Tok := List Char

def mkAttr (k : String) (v : Tok) : Attr := { name := k.toList, value := v }
def mkEl (n : String) (as : List Attr) (cs : List Node) : Node := .elem n.toList as cs
/-- `get_attribute(e, key)`: the first attribute with that name -/
def getAttr (as : List Attr) (k : String) : Option Tok := (as.find? (fun a => a.name = k.toList)).map (·.value)

def optAttr {α : Type} (k : String) (o : Option α) (f : α → Tok) : List Attr :=
  match o with
  | some a => [mkAttr k (f a)]
  | none => []

/-- a reader loop over the child events; `none` = panic -/
def foldOpt {α β : Type} (step : α → β → Option α) : List β → α → Option α
  | [], a => some a
  | b :: r, a => (step a b).bind (foldOpt step r)

/-! ## scalar codecs -/

/-- `BooleanValue::set_value_string`: `matches!(v, "true" | "1")` -/
def boolOf (v : Tok) : Bool := v = "true".toList || v = "1".toList
/-- `BooleanValue::get_value_string` -/
def boolStr (b : Bool) : Tok := if b then "1".toList else "0".toList

/-- `str::parse::<u32>()`: an optional `+`, then digits, below 2^32 -/
def u32Of (s : Tok) : Option Nat :=
  match s with
  | '+' :: r => parseU32 r
  | _ => parseU32 s

/-- `i32: Display` -/
def i32Str : Int → Tok
  | .ofNat n => decDigits n
  | .negSucc n => '-' :: decDigits (n + 1)

def natBelow (bound : Nat) (s : Tok) : Option Nat :=
  if s.isEmpty then none else if s.all Umya.Dec.isDigit then
    (let v := Umya.Dec.parseDec s; if v < bound then some v else none) else none

/-- `str::parse::<i32>()` -/
def i32Of (s : Tok) : Option Int :=
  match s with
  | '-' :: r => (natBelow 2147483649 r).map (fun n => - (Int.ofNat n))
  | '+' :: r => (natBelow 2147483648 r).map Int.ofNat
  | _ => (natBelow 2147483648 s).map Int.ofNat

def u32Range (n : Nat) : Prop := n < 4294967296
def i32Range (z : Int) : Prop := -2147483648 ≤ z ∧ z < 2147483648
instance (n : Nat) : Decidable (u32Range n) := by unfold u32Range; infer_instance
instance (z : Int) : Decidable (i32Range z) := by unfold i32Range; infer_instance

def zeroTok : Tok := "0".toList

/-! ## enum string tables (`EnumTrait::get_value_string`, `FromStr::from_str`) -/

inductive Underline | double | doubleAccounting | none | single | singleAccounting
  deriving DecidableEq, Repr
def Underline.toStr : Underline → String
  | .double => "double" | .doubleAccounting => "doubleAccounting" | .none => "none"
  | .single => "single" | .singleAccounting => "singleAccounting"
def Underline.fromTable : List (String × Underline) :=
  [("double", .double), ("doubleAccounting", .doubleAccounting), ("none", .none), ("single", .single),
   ("singleAccounting", .singleAccounting)]
def Underline.ctor : Underline → String
  | .double => "Double" | .doubleAccounting => "DoubleAccounting" | .none => "None"
  | .single => "Single" | .singleAccounting => "SingleAccounting"
def Underline.all : List Underline := [.double, .doubleAccounting, .none, .single, .singleAccounting]

inductive FontScheme | major | minor | none
  deriving DecidableEq, Repr
def FontScheme.toStr : FontScheme → String
  | .major => "major" | .minor => "minor" | .none => "none"
def FontScheme.fromTable : List (String × FontScheme) := [("major", .major), ("minor", .minor), ("none", .none)]
def FontScheme.ctor : FontScheme → String
  | .major => "Major" | .minor => "Minor" | .none => "None"
def FontScheme.all : List FontScheme := [.major, .minor, .none]

inductive VertRun | baseline | subscript | superscript
  deriving DecidableEq, Repr
def VertRun.toStr : VertRun → String
  | .baseline => "baseline" | .subscript => "subscript" | .superscript => "superscript"
def VertRun.fromTable : List (String × VertRun) :=
  [("baseline", .baseline), ("subscript", .subscript), ("superscript", .superscript)]
def VertRun.ctor : VertRun → String
  | .baseline => "Baseline" | .subscript => "Subscript" | .superscript => "Superscript"
def VertRun.all : List VertRun := [.baseline, .subscript, .superscript]

inductive Pattern
  | darkDown | darkGray | darkGrid | darkHorizontal | darkTrellis | darkUp | darkVertical | gray0625 | gray125
  | lightDown | lightGray | lightGrid | lightHorizontal | lightTrellis | lightUp | lightVertical | mediumGray
  | none | solid
  deriving DecidableEq, Repr
def Pattern.toStr : Pattern → String
  | .darkDown => "darkDown" | .darkGray => "darkGray" | .darkGrid => "darkGrid"
  | .darkHorizontal => "darkHorizontal" | .darkTrellis => "darkTrellis" | .darkUp => "darkUp"
  | .darkVertical => "darkVertical" | .gray0625 => "gray0625" | .gray125 => "gray125"
  | .lightDown => "lightDown" | .lightGray => "lightGray" | .lightGrid => "lightGrid"
  | .lightHorizontal => "lightHorizontal" | .lightTrellis => "lightTrellis" | .lightUp => "lightUp"
  | .lightVertical => "lightVertical" | .mediumGray => "mediumGray" | .none => "none" | .solid => "solid"
def Pattern.fromTable : List (String × Pattern) :=
  [("darkDown", .darkDown), ("darkGray", .darkGray), ("darkGrid", .darkGrid), ("darkHorizontal", .darkHorizontal),
   ("darkTrellis", .darkTrellis), ("darkUp", .darkUp), ("darkVertical", .darkVertical), ("gray0625", .gray0625),
   ("gray125", .gray125), ("lightDown", .lightDown), ("lightGray", .lightGray), ("lightGrid", .lightGrid),
   ("lightHorizontal", .lightHorizontal), ("lightTrellis", .lightTrellis), ("lightUp", .lightUp),
   ("lightVertical", .lightVertical), ("mediumGray", .mediumGray), ("none", .none), ("solid", .solid)]
def Pattern.ctor : Pattern → String
  | .darkDown => "DarkDown" | .darkGray => "DarkGray" | .darkGrid => "DarkGrid"
  | .darkHorizontal => "DarkHorizontal" | .darkTrellis => "DarkTrellis" | .darkUp => "DarkUp"
  | .darkVertical => "DarkVertical" | .gray0625 => "Gray0625" | .gray125 => "Gray125"
  | .lightDown => "LightDown" | .lightGray => "LightGray" | .lightGrid => "LightGrid"
  | .lightHorizontal => "LightHorizontal" | .lightTrellis => "LightTrellis" | .lightUp => "LightUp"
  | .lightVertical => "LightVertical" | .mediumGray => "MediumGray" | .none => "None" | .solid => "Solid"
def Pattern.all : List Pattern :=
  [.darkDown, .darkGray, .darkGrid, .darkHorizontal, .darkTrellis, .darkUp, .darkVertical, .gray0625, .gray125,
   .lightDown, .lightGray, .lightGrid, .lightHorizontal, .lightTrellis, .lightUp, .lightVertical, .mediumGray,
   .none, .solid]

inductive BorderStyle
  | dashDot | dashDotDot | dashed | dotted | double | hair | medium | mediumDashDot | mediumDashDotDot
  | mediumDashed | none | slantDashDot | thick | thin
  deriving DecidableEq, Repr
def BorderStyle.toStr : BorderStyle → String
  | .dashDot => "dashDot" | .dashDotDot => "dashDotDot" | .dashed => "dashed" | .dotted => "dotted"
  | .double => "double" | .hair => "hair" | .medium => "medium" | .mediumDashDot => "mediumDashDot"
  | .mediumDashDotDot => "mediumDashDotDot" | .mediumDashed => "mediumDashed" | .none => "none"
  | .slantDashDot => "slantDashDot" | .thick => "thick" | .thin => "thin"
def BorderStyle.fromTable : List (String × BorderStyle) :=
  [("dashDot", .dashDot), ("dashDotDot", .dashDotDot), ("dashed", .dashed), ("dotted", .dotted), ("double", .double),
   ("hair", .hair), ("medium", .medium), ("mediumDashDot", .mediumDashDot), ("mediumDashDotDot", .mediumDashDotDot),
   ("mediumDashed", .mediumDashed), ("none", .none), ("slantDashDot", .slantDashDot), ("thick", .thick), ("thin", .thin)]
def BorderStyle.ctor : BorderStyle → String
  | .dashDot => "DashDot" | .dashDotDot => "DashDotDot" | .dashed => "Dashed" | .dotted => "Dotted"
  | .double => "Double" | .hair => "Hair" | .medium => "Medium" | .mediumDashDot => "MediumDashDot"
  | .mediumDashDotDot => "MediumDashDotDot" | .mediumDashed => "MediumDashed" | .none => "None"
  | .slantDashDot => "SlantDashDot" | .thick => "Thick" | .thin => "Thin"
def BorderStyle.all : List BorderStyle :=
  [.dashDot, .dashDotDot, .dashed, .dotted, .double, .hair, .medium, .mediumDashDot, .mediumDashDotDot,
   .mediumDashed, .none, .slantDashDot, .thick, .thin]

inductive HAlign | center | centerContinuous | distributed | fill | general | justify | left | right
  deriving DecidableEq, Repr
def HAlign.toStr : HAlign → String
  | .center => "center" | .centerContinuous => "centerContinuous" | .distributed => "distributed"
  | .fill => "fill" | .general => "general" | .justify => "justify" | .left => "left" | .right => "right"
def HAlign.fromTable : List (String × HAlign) :=
  [("center", .center), ("centerContinuous", .centerContinuous), ("distributed", .distributed), ("fill", .fill),
   ("general", .general), ("justify", .justify), ("left", .left), ("right", .right)]
def HAlign.ctor : HAlign → String
  | .center => "Center" | .centerContinuous => "CenterContinuous" | .distributed => "Distributed"
  | .fill => "Fill" | .general => "General" | .justify => "Justify" | .left => "Left" | .right => "Right"
def HAlign.all : List HAlign := [.center, .centerContinuous, .distributed, .fill, .general, .justify, .left, .right]

inductive VAlign | bottom | center | distributed | justify | top
  deriving DecidableEq, Repr
def VAlign.toStr : VAlign → String
  | .bottom => "bottom" | .center => "center" | .distributed => "distributed" | .justify => "justify" | .top => "top"
def VAlign.fromTable : List (String × VAlign) :=
  [("bottom", .bottom), ("center", .center), ("distributed", .distributed), ("justify", .justify), ("top", .top)]
def VAlign.ctor : VAlign → String
  | .bottom => "Bottom" | .center => "Center" | .distributed => "Distributed" | .justify => "Justify" | .top => "Top"
def VAlign.all : List VAlign := [.bottom, .center, .distributed, .justify, .top]

/-- `T::from_str`: the first arm whose literal equals the text -/
def fromStrIn {ε : Type} (table : List (String × ε)) (s : Tok) : Option ε :=
  (table.find? (fun p => p.1.toList = s)).map (·.2)

def Underline.fromStr := fromStrIn Underline.fromTable
def FontScheme.fromStr := fromStrIn FontScheme.fromTable
def VertRun.fromStr := fromStrIn VertRun.fromTable
def Pattern.fromStr := fromStrIn Pattern.fromTable
def BorderStyle.fromStr := fromStrIn BorderStyle.fromTable
def HAlign.fromStr := fromStrIn HAlign.fromTable
def VAlign.fromStr := fromStrIn VAlign.fromTable

/-- `set_string_from_xml!` on an `EnumValue`: an absent attribute or an unknown word leaves the field as it is -/
def enumAttr {ε : Type} (fromStr : Tok → Option ε) (as : List Attr) (k : String) (old : Option ε) : Option ε :=
  match getAttr as k with
  | some v => (match fromStr v with | some e => some e | none => old)
  | none => old

/-- `set_string_from_xml!` on a `BooleanValue` -/
def boolAttr (as : List Attr) (k : String) (old : Option Bool) : Option Bool :=
  match getAttr as k with
  | some v => some (boolOf v)
  | none => old

/-- `set_string_from_xml!` on a `DoubleValue` (`cf` = parse-or-zero, then display) -/
def floatAttr (cf : Tok → Tok) (as : List Attr) (k : String) (old : Option Tok) : Option Tok :=
  match getAttr as k with
  | some v => some (cf v)
  | none => old

/-- `set_string_from_xml!` on a `UInt32Value` (`parse::<u32>().unwrap()`): outer `none` = panic -/
def u32Attr (as : List Attr) (k : String) (old : Option Nat) : Option (Option Nat) :=
  match getAttr as k with
  | some v => (u32Of v).map some
  | none => some old

/-! ## colour (color.rs) -/

structure Color where
  indexed : Option Nat := none
  theme : Option Nat := none
  argb : Option Tok := none
  tint : Option Tok := none
  deriving DecidableEq, Repr

/-- `INDEXED_COLORS` -/
def indexedColors : List String :=
  ["FF000000", "FFFFFFFF", "FFFF0000", "FF00FF00", "FF0000FF", "FFFFFF00", "FFFF00FF", "FF00FFFF",
   "FF000000", "FFFFFFFF", "FFFF0000", "FF00FF00", "FF0000FF", "FFFFFF00", "FFFF00FF", "FF00FFFF",
   "FF800000", "FF008000", "FF000080", "FF808000", "FF800080", "FF008080", "FFC0C0C0", "FF808080",
   "FF9999FF", "FF993366", "FFFFFFCC", "FFCCFFFF", "FF660066", "FFFF8080", "FF0066CC", "FFCCCCFF",
   "FF000080", "FFFF00FF", "FFFFFF00", "FF00FFFF", "FF800080", "FF800000", "FF008080", "FF0000FF",
   "FF00CCFF", "FFCCFFFF", "FFCCFFCC", "FFFFFF99", "FF99CCFF", "FFFF99CC", "FFCC99FF", "FFFFCC99",
   "FF3366FF", "FF33CCCC", "FF99CC00", "FFFFCC00", "FFFF9900", "FFFF6600", "FF666699", "FF969696",
   "FF003366", "FF339966", "FF003300", "FF333300", "FF993300", "FF993366", "FF333399", "FF333333"]

def indexedToks : List Tok := indexedColors.map (·.toList)

/-- `iter().position(|r| r == x)` -/
def position (x : Tok) : List Tok → Option Nat
  | [] => none
  | y :: l => if y = x then some 0 else (position x l).map (· + 1)

/-- `Color::set_argb` -/
def Color.setArgb (c : Color) (s : Tok) : Color :=
  match position s indexedToks with
  | some i => { c with indexed := some i, argb := none, theme := none }
  | none => { c with indexed := none, argb := some s, theme := none }
/-- `Color::set_indexed` -/
def Color.setIndexed (c : Color) (i : Nat) : Color := { c with indexed := some i, theme := none, argb := none }
/-- `Color::set_theme_index` -/
def Color.setTheme (c : Color) (i : Nat) : Color := { c with indexed := none, theme := some i, argb := none }
/-- `Color::set_tint` -/
def Color.setTint (c : Color) (t : Tok) : Color := { c with tint := some t }

/-- `Color::get_argb` -/
def Color.getArgb (c : Color) : Tok :=
  match c.indexed with
  | some i => (match indexedToks[i]? with | some v => v | none => c.argb.getD [])
  | none => c.argb.getD []

/-- `Color::has_value` -/
def Color.hasValue (c : Color) : Bool := c.theme.isSome || c.indexed.isSome || c.argb.isSome || c.tint.isSome

/-- the attributes of `Color::write_to`: theme, else indexed, else rgb; then tint -/
def Color.attrs (c : Color) : List Attr :=
  (match c.theme, c.indexed, c.argb with
   | some t, _, _ => [mkAttr "theme" (decDigits t)]
   | none, some i, _ => [mkAttr "indexed" (decDigits i)]
   | none, none, some a => [mkAttr "rgb" a]
   | none, none, none => []) ++
  (match c.tint with
   | some t => [mkAttr "tint" t]
   | none => [])

/-- `Color::write_to(tag)`: nothing at all when there is no attribute to write -/
def Color.write (tag : String) (c : Color) : List Node :=
  if c.attrs.isEmpty then [] else [mkEl tag c.attrs []]

/-- one attribute of the loop in `Color::set_attributes` -/
def Color.attrStep (cf : Tok → Tok) (c : Color) (a : Attr) : Option Color :=
  if a.name = "indexed".toList then (u32Of a.value).map (fun n => { c with indexed := some n })
  else if a.name = "theme".toList then (u32Of a.value).map (fun n => { c with theme := some n })
  else if a.name = "rgb".toList then some { c with argb := some a.value }
  else if a.name = "tint".toList then some { c with tint := some (cf a.value) }
  else some c

/-- `Color::set_attributes` applied to an existing colour -/
def Color.readInto (cf : Tok → Tok) (c : Color) (as : List Attr) : Option Color := foldOpt (Color.attrStep cf) as c

def Color.read (cf : Tok → Tok) (n : Node) : Option Color := Color.readInto cf {} n.attrs

/-- what survives: of theme / indexed / rgb only the one the writer emits -/
def Color.norm (c : Color) : Color :=
  match c.theme, c.indexed with
  | some t, _ => { theme := some t, tint := c.tint }
  | none, some i => { indexed := some i, tint := c.tint }
  | none, none => { argb := c.argb, tint := c.tint }

/-- numbers fit their Rust types, the tint is a float text -/
def Color.Range (cf : Tok → Tok) (c : Color) : Prop :=
  (∀ n, c.indexed = some n → u32Range n) ∧ (∀ n, c.theme = some n → u32Range n) ∧ (∀ t, c.tint = some t → cf t = t)

/-- reachable through `set_argb` / `set_indexed` / `set_theme_index` (each clears the other two): at most one form -/
def Color.OneForm (c : Color) : Bool :=
  match c.theme, c.indexed, c.argb with
  | some _, none, none => true
  | none, some _, none => true
  | none, none, _ => true
  | _, _, _ => false

/-- effective colour as the getters show it: `get_argb` (indexed colours resolved), `get_indexed`, `get_theme_index`, `get_tint` -/
structure ColorEff where
  argb : Tok
  indexed : Nat
  theme : Nat
  tint : Tok
  deriving DecidableEq, Repr
def Color.eff (c : Color) : ColorEff :=
  { argb := c.getArgb, indexed := c.indexed.getD 0, theme := c.theme.getD 0, tint := c.tint.getD zeroTok }

/-- the text `Color::get_hash_code` hashes -/
def markTok : Tok := "empty!!".toList
def Color.keyText (c : Color) : Tok :=
  (match c.indexed with | some n => decDigits n | none => markTok) ++
  (match c.theme with | some n => decDigits n | none => markTok) ++
  (match c.argb with | some a => a | none => markTok) ++
  (match c.tint with | some t => t | none => markTok)

/-! ## font (font.rs and its children) -/

structure Font where
  name : Option Tok := none
  size : Option Tok := none
  family : Option Int := none
  bold : Option Bool := none
  italic : Option Bool := none
  underline : Option Underline := none
  strike : Option Bool := none
  color : Color := {}
  charset : Option Int := none
  scheme : Option FontScheme := none
  vertAlign : Option VertRun := none
  deriving DecidableEq, Repr

def optEl {α : Type} (o : Option α) (f : α → Node) : List Node :=
  match o with
  | some a => [f a]
  | none => []

/-- the children of `Font::write_to`, in its order: b i u strike vertAlign sz color name family charset scheme -/
def Font.kids (nameTag : String) (f : Font) : List Node :=
  (if f.bold.getD false then [mkEl "b" [] []] else []) ++
  (if f.italic.getD false then [mkEl "i" [] []] else []) ++
  optEl f.underline (fun u => mkEl "u" (if u.toStr = Underline.single.toStr then [] else [mkAttr "val" u.toStr.toList]) []) ++
  optEl f.strike (fun b => mkEl "strike" (if b then [] else [mkAttr "val" (boolStr b)]) []) ++
  optEl f.vertAlign (fun v => mkEl "vertAlign" [mkAttr "val" v.toStr.toList] []) ++
  optEl f.size (fun s => mkEl "sz" [mkAttr "val" s] []) ++
  f.color.write "color" ++
  optEl f.name (fun s => mkEl nameTag [mkAttr "val" s] []) ++
  optEl f.family (fun z => mkEl "family" [mkAttr "val" (i32Str z)] []) ++
  optEl f.charset (fun z => mkEl "charset" [mkAttr "val" (i32Str z)] []) ++
  optEl f.scheme (fun s => mkEl "scheme" [mkAttr "val" s.toStr.toList] [])

/-- `Font::write_to_font` -/
def Font.write (f : Font) : Node := mkEl "font" [] (f.kids "name")

/-- one `Event::Empty` child in `Font::set_attributes` -/
def Font.step (cf : Tok → Tok) (f : Font) (n : Node) : Option Font :=
  match n with
  | .text _ => some f
  | .elem nm as _ =>
    if nm = "name".toList ∨ nm = "rFont".toList then (getAttr as "val").map (fun v => { f with name := some v })
    else if nm = "sz".toList then (getAttr as "val").map (fun v => { f with size := some (cf v) })
    else if nm = "family".toList then
      (match getAttr as "val" with
       | some v => (i32Of v).map (fun z => { f with family := some z })
       | none => some f)
    else if nm = "b".toList then some { f with bold := boolAttr as "val" (some true) }
    else if nm = "i".toList then some { f with italic := boolAttr as "val" (some true) }
    else if nm = "u".toList then some { f with underline := enumAttr Underline.fromStr as "val" (some .single) }
    else if nm = "strike".toList then some { f with strike := boolAttr as "val" (some true) }
    else if nm = "color".toList then (Color.readInto cf f.color as).map (fun c => { f with color := c })
    else if nm = "charset".toList then
      (match getAttr as "val" with
       | some v => (i32Of v).map (fun z => { f with charset := some z })
       | none => some f)
    else if nm = "scheme".toList then
      (getAttr as "val").map (fun _ => { f with scheme := enumAttr FontScheme.fromStr as "val" f.scheme })
    else if nm = "vertAlign".toList then some { f with vertAlign := enumAttr VertRun.fromStr as "val" f.vertAlign }
    else some f

/-- `Font::set_attributes` on a fresh `Font::default()` -/
def Font.read (cf : Tok → Tok) (n : Node) : Option Font := foldOpt (Font.step cf) n.children {}

def normFlag (b : Option Bool) : Option Bool := if b.getD false then some true else none

/-- `<b val="0"/>` is never written: bold / italic `Some(false)` come back unset; the colour in its written form -/
def Font.norm (f : Font) : Font :=
  { f with bold := normFlag f.bold, italic := normFlag f.italic, color := f.color.norm }

def Font.Range (cf : Tok → Tok) (f : Font) : Prop :=
  (∀ t, f.size = some t → cf t = t) ∧ (∀ z, f.family = some z → i32Range z) ∧ (∀ z, f.charset = some z → i32Range z) ∧
  f.color.Range cf

/-- the attributes the property names, as the public getters show them -/
structure FontEff where
  name : Tok
  size : Tok
  bold : Bool
  italic : Bool
  underline : Underline
  strike : Bool
  color : ColorEff
  family : Int
  charset : Int
  scheme : FontScheme
  vertAlign : VertRun
  deriving DecidableEq, Repr

def Font.eff (f : Font) : FontEff :=
  { name := f.name.getD [], size := f.size.getD zeroTok, bold := f.bold.getD false, italic := f.italic.getD false,
    underline := f.underline.getD .none, strike := f.strike.getD false, color := f.color.eff,
    family := f.family.getD 0, charset := f.charset.getD 0, scheme := f.scheme.getD .none,
    vertAlign := f.vertAlign.getD .baseline }

/-! ## fills (pattern_fill.rs, gradient_stop.rs, gradient_fill.rs, fill.rs) -/

structure PatternFill where
  patternType : Option Pattern := none
  fg : Option Color := none
  bg : Option Color := none
  deriving DecidableEq, Repr

/-- `PatternFill::auto_set_pattern_type` -/
def PatternFill.autoSet (p : PatternFill) : PatternFill :=
  if p.patternType.getD .none = .none then
    (if p.fg.isSome then { p with patternType := some .solid } else p)
  else if p.fg.isNone then { p with patternType := some .none } else p

/-- `PatternFill::set_foreground_color` (the public setter; the reader no longer goes through it) -/
def PatternFill.setFg (p : PatternFill) (c : Color) : PatternFill := ({ p with fg := some c }).autoSet

def optKids {α : Type} (o : Option α) (f : α → List Node) : List Node :=
  match o with
  | some a => f a
  | none => []

def PatternFill.write (p : PatternFill) : Node :=
  mkEl "patternFill"
    (optAttr "patternType" p.patternType (fun t => t.toStr.toList))
    (optKids p.fg (Color.write "fgColor") ++ optKids p.bg (Color.write "bgColor"))

def PatternFill.step (cf : Tok → Tok) (p : PatternFill) (n : Node) : Option PatternFill :=
  match n with
  | .text _ => some p
  | .elem nm as _ =>
    -- since fix 90daeac the reader stores the colour directly: the file's patternType is kept as it is
    if nm = "fgColor".toList then (Color.readInto cf {} as).map (fun c => { p with fg := some c })
    else if nm = "bgColor".toList then (Color.readInto cf {} as).map (fun c => { p with bg := some c })
    else some p

def PatternFill.read (cf : Tok → Tok) (n : Node) : Option PatternFill :=
  foldOpt (PatternFill.step cf) n.children { patternType := enumAttr Pattern.fromStr n.attrs "patternType" none }

/-- a colour without any attribute is not written, so it comes back absent -/
def normOptColor (o : Option Color) : Option Color :=
  match o with
  | some c => if c.attrs.isEmpty then none else some c.norm
  | none => none

/-- what comes back: the pattern type as it was; colours in written form (a colour without attributes is absent) -/
def PatternFill.norm (p : PatternFill) : PatternFill :=
  { patternType := p.patternType, fg := normOptColor p.fg, bg := normOptColor p.bg }

def optColorRange (cf : Tok → Tok) (o : Option Color) : Prop := ∀ c, o = some c → c.Range cf

def PatternFill.Range (cf : Tok → Tok) (p : PatternFill) : Prop := optColorRange cf p.fg ∧ optColorRange cf p.bg

structure GradientStop where
  position : Option Tok := none
  color : Color := {}
  deriving DecidableEq, Repr

structure GradientFill where
  degree : Option Tok := none
  stops : List GradientStop := []
  deriving DecidableEq, Repr

def GradientStop.write (s : GradientStop) : Node :=
  mkEl "stop" [mkAttr "position" (s.position.getD zeroTok)] (s.color.write "color")

def GradientFill.write (g : GradientFill) : Node :=
  mkEl "gradientFill" [mkAttr "degree" (g.degree.getD zeroTok)] (g.stops.map GradientStop.write)

def GradientStop.step (cf : Tok → Tok) (s : GradientStop) (n : Node) : Option GradientStop :=
  match n with
  | .text _ => some s
  | .elem nm as _ =>
    if nm = "color".toList then (Color.readInto cf {} as).map (fun c => { s with color := c }) else some s

def GradientStop.read (cf : Tok → Tok) (n : Node) : Option GradientStop :=
  foldOpt (GradientStop.step cf) n.children { position := floatAttr cf n.attrs "position" none }

def GradientFill.step (cf : Tok → Tok) (g : GradientFill) (n : Node) : Option GradientFill :=
  match n with
  | .text _ => some g
  | .elem nm _ _ =>
    if nm = "stop".toList then (GradientStop.read cf n).map (fun s => { g with stops := g.stops ++ [s] }) else some g

def GradientFill.read (cf : Tok → Tok) (n : Node) : Option GradientFill :=
  foldOpt (GradientFill.step cf) n.children { degree := floatAttr cf n.attrs "degree" none }

def GradientStop.norm (s : GradientStop) : GradientStop :=
  { position := some (s.position.getD zeroTok), color := s.color.norm }
def GradientFill.norm (g : GradientFill) : GradientFill :=
  { degree := some (g.degree.getD zeroTok), stops := g.stops.map GradientStop.norm }

def GradientStop.Range (cf : Tok → Tok) (s : GradientStop) : Prop := (∀ t, s.position = some t → cf t = t) ∧ s.color.Range cf
def GradientFill.Range (cf : Tok → Tok) (g : GradientFill) : Prop :=
  (∀ t, g.degree = some t → cf t = t) ∧ ∀ s ∈ g.stops, s.Range cf

structure Fill where
  pattern : Option PatternFill := none
  gradient : Option GradientFill := none
  deriving DecidableEq, Repr

def Fill.write (f : Fill) : Node :=
  mkEl "fill" [] (optEl f.pattern PatternFill.write ++ optEl f.gradient GradientFill.write)

def Fill.step (cf : Tok → Tok) (f : Fill) (n : Node) : Option Fill :=
  match n with
  | .text _ => some f
  | .elem nm _ _ =>
    if nm = "patternFill".toList then (PatternFill.read cf n).map (fun p => { pattern := some p, gradient := none })
    else if nm = "gradientFill".toList then (GradientFill.read cf n).map (fun g => { pattern := none, gradient := some g })
    else some f

def Fill.read (cf : Tok → Tok) (n : Node) : Option Fill := foldOpt (Fill.step cf) n.children {}

def Fill.norm (f : Fill) : Fill :=
  match f.gradient with
  | some g => { pattern := none, gradient := some g.norm }
  | none => { pattern := f.pattern.map PatternFill.norm, gradient := none }

def Fill.Range (cf : Tok → Tok) (f : Fill) : Prop :=
  (∀ p, f.pattern = some p → p.Range cf) ∧ (∀ g, f.gradient = some g → g.Range cf)

structure PatternEff where
  patternType : Pattern
  fg : ColorEff
  bg : ColorEff
  deriving DecidableEq, Repr

def optColorEff (o : Option Color) : ColorEff := (o.getD {}).eff

def PatternFill.eff (p : PatternFill) : PatternEff :=
  { patternType := p.patternType.getD .none, fg := optColorEff p.fg, bg := optColorEff p.bg }

structure FillEff where
  pattern : PatternEff
  gradient : Option (Tok × List (Tok × ColorEff))
  deriving DecidableEq, Repr

def GradientFill.eff (g : GradientFill) : Tok × List (Tok × ColorEff) :=
  (g.degree.getD zeroTok, g.stops.map (fun s => (s.position.getD zeroTok, s.color.eff)))

def Fill.eff (f : Fill) : FillEff :=
  { pattern := (f.pattern.getD {}).eff, gradient := f.gradient.map GradientFill.eff }

/-- every colour in one of the forms the setters produce -/
def optOneForm (o : Option Color) : Bool := match o with | some c => c.OneForm | none => true
def PatternFill.OneForm (p : PatternFill) : Bool := optOneForm p.fg && optOneForm p.bg
def Fill.WF (f : Fill) : Bool :=
  (match f.pattern with | some p => p.OneForm | none => true) &&
  (match f.gradient with | some g => g.stops.all (fun s => s.color.OneForm) && f.pattern.isNone | none => true)

/-! ## borders (border.rs, borders.rs) -/

structure Border where
  style : Option BorderStyle := none
  color : Color := {}
  deriving DecidableEq, Repr

def Border.write (tag : String) (b : Border) : Node :=
  mkEl tag (optAttr "style" b.style (fun s => s.toStr.toList)) (b.color.write "color")

def Border.colorStep (cf : Tok → Tok) (b : Border) (n : Node) : Option Border :=
  match n with
  | .text _ => some b
  | .elem nm as _ =>
    if nm = "color".toList then (Color.readInto cf b.color as).map (fun c => { b with color := c }) else some b

/-- `Border::set_attributes` on the existing edge -/
def Border.readInto (cf : Tok → Tok) (b : Border) (n : Node) : Option Border :=
  foldOpt (Border.colorStep cf) n.children { b with style := enumAttr BorderStyle.fromStr n.attrs "style" b.style }

structure Borders where
  left : Border := {}
  right : Border := {}
  top : Border := {}
  bottom : Border := {}
  diagonal : Border := {}
  vertical : Border := {}
  horizontal : Border := {}
  diagonalDown : Option Bool := none
  diagonalUp : Option Bool := none
  deriving DecidableEq, Repr

/-- `edge.get_hash_code() == Border::default().get_hash_code()` (md5 injective): the vertical / horizontal edge is
    then not written -/
def Border.isDefaultKey (b : Border) : Bool :=
  decide ((b.style.getD .none).toStr = BorderStyle.none.toStr) && decide (b.color.keyText = Color.keyText {})

def Borders.write (b : Borders) : Node :=
  mkEl "border"
    (optAttr "diagonalUp" b.diagonalUp boolStr ++ optAttr "diagonalDown" b.diagonalDown boolStr)
    ([b.left.write "left", b.right.write "right", b.top.write "top", b.bottom.write "bottom",
      b.diagonal.write "diagonal"] ++
     (if b.vertical.isDefaultKey then [] else [b.vertical.write "vertical"]) ++
     (if b.horizontal.isDefaultKey then [] else [b.horizontal.write "horizontal"]))

def Borders.step (cf : Tok → Tok) (b : Borders) (n : Node) : Option Borders :=
  match n with
  | .text _ => some b
  | .elem nm _ _ =>
    if nm = "left".toList then (b.left.readInto cf n).map (fun e => { b with left := e })
    else if nm = "right".toList then (b.right.readInto cf n).map (fun e => { b with right := e })
    else if nm = "top".toList then (b.top.readInto cf n).map (fun e => { b with top := e })
    else if nm = "bottom".toList then (b.bottom.readInto cf n).map (fun e => { b with bottom := e })
    else if nm = "diagonal".toList then (b.diagonal.readInto cf n).map (fun e => { b with diagonal := e })
    else if nm = "vertical".toList then (b.vertical.readInto cf n).map (fun e => { b with vertical := e })
    else if nm = "horizontal".toList then (b.horizontal.readInto cf n).map (fun e => { b with horizontal := e })
    else some b

def Borders.read (cf : Tok → Tok) (n : Node) : Option Borders :=
  foldOpt (Borders.step cf) n.children
    { diagonalUp := boolAttr n.attrs "diagonalUp" none, diagonalDown := boolAttr n.attrs "diagonalDown" none }

def Border.norm (b : Border) : Border := { b with color := b.color.norm }
def Border.normSkippable (b : Border) : Border := if b.isDefaultKey then {} else b.norm

def Borders.norm (b : Borders) : Borders :=
  { b with left := b.left.norm, right := b.right.norm, top := b.top.norm, bottom := b.bottom.norm,
           diagonal := b.diagonal.norm, vertical := b.vertical.normSkippable, horizontal := b.horizontal.normSkippable }

def Borders.Range (cf : Tok → Tok) (b : Borders) : Prop :=
  b.left.color.Range cf ∧ b.right.color.Range cf ∧ b.top.color.Range cf ∧ b.bottom.color.Range cf ∧
  b.diagonal.color.Range cf ∧ b.vertical.color.Range cf ∧ b.horizontal.color.Range cf

structure BorderEff where
  style : BorderStyle
  color : ColorEff
  deriving DecidableEq, Repr
def Border.eff (b : Border) : BorderEff := { style := b.style.getD .none, color := b.color.eff }

structure BordersEff where
  left : BorderEff
  right : BorderEff
  top : BorderEff
  bottom : BorderEff
  diagonal : BorderEff
  vertical : BorderEff
  horizontal : BorderEff
  diagonalDown : Bool
  diagonalUp : Bool
  deriving DecidableEq, Repr

def Borders.eff (b : Borders) : BordersEff :=
  { left := b.left.eff, right := b.right.eff, top := b.top.eff, bottom := b.bottom.eff, diagonal := b.diagonal.eff,
    vertical := b.vertical.eff, horizontal := b.horizontal.eff,
    diagonalDown := b.diagonalDown.getD false, diagonalUp := b.diagonalUp.getD false }

/-- the colour of a vertical / horizontal edge is not the text that hashes like "no colour" (`rgb="empty!!"`) -/
def Border.NoMark (b : Border) : Bool := !(decide (b.color.keyText = Color.keyText {})) || decide (b.color = {})

def Borders.WF (b : Borders) : Bool :=
  b.left.color.OneForm && b.right.color.OneForm && b.top.color.OneForm && b.bottom.color.OneForm &&
  b.diagonal.color.OneForm && b.vertical.color.OneForm && b.horizontal.color.OneForm &&
  b.vertical.NoMark && b.horizontal.NoMark

/-! ## alignment, protection, number format -/

structure Alignment where
  horizontal : Option HAlign := none
  vertical : Option VAlign := none
  wrapText : Option Bool := none
  textRotation : Option Nat := none
  deriving DecidableEq, Repr

def Alignment.write (a : Alignment) : Node :=
  mkEl "alignment"
    (optAttr "horizontal" a.horizontal (fun h => h.toStr.toList) ++ optAttr "vertical" a.vertical (fun v => v.toStr.toList) ++
     optAttr "wrapText" a.wrapText boolStr ++ optAttr "textRotation" a.textRotation decDigits) []

def Alignment.read (n : Node) : Option Alignment :=
  (u32Attr n.attrs "textRotation" none).map (fun r =>
    { horizontal := enumAttr HAlign.fromStr n.attrs "horizontal" none,
      vertical := enumAttr VAlign.fromStr n.attrs "vertical" none,
      wrapText := boolAttr n.attrs "wrapText" none, textRotation := r })

def Alignment.Range (a : Alignment) : Prop := ∀ n, a.textRotation = some n → u32Range n

structure AlignmentEff where
  horizontal : HAlign
  vertical : VAlign
  wrapText : Bool
  textRotation : Nat
  deriving DecidableEq, Repr
def Alignment.eff (a : Alignment) : AlignmentEff :=
  { horizontal := a.horizontal.getD .general, vertical := a.vertical.getD .bottom, wrapText := a.wrapText.getD false,
    textRotation := a.textRotation.getD 0 }

structure Protection where
  locked : Option Bool := none
  hidden : Option Bool := none
  deriving DecidableEq, Repr

def Protection.write (p : Protection) : Node :=
  mkEl "protection" (optAttr "locked" p.locked boolStr ++ optAttr "hidden" p.hidden boolStr) []

def Protection.read (n : Node) : Option Protection :=
  some { locked := boolAttr n.attrs "locked" none, hidden := boolAttr n.attrs "hidden" none }

/-- a custom number format as `NumberingFormats::write_to` writes it (`is_build_in` comes back false) -/
structure NumFmt where
  id : Nat
  code : Tok
  deriving DecidableEq, Repr

def NumFmt.write (v : NumFmt) : Node :=
  mkEl "numFmt" [mkAttr "numFmtId" (decDigits v.id), mkAttr "formatCode" v.code] []

def NumFmt.read (n : Node) : Option NumFmt :=
  match getAttr n.attrs "numFmtId", getAttr n.attrs "formatCode" with
  | some i, some c => (u32Of i).map (fun id => { id := id, code := c })
  | _, _ => none

/-! ## rows and columns (row.rs, columns.rs / column.rs) -/

structure Row where
  num : Nat
  height : Option Tok := none
  descent : Option Tok := none
  thickBot : Option Bool := none
  customHeight : Option Bool := none
  hidden : Option Bool := none
  deriving DecidableEq, Repr

def flagAttr (k : String) (o : Option Bool) : List Attr := if o.getD false then [mkAttr k (boolStr true)] else []

/-- `Row::write_to`: `xf` is the index `set_style` returned for the row's style, `spans` is given when the row has cells,
    `kids` are its `<c>` elements -/
def Row.write (r : Row) (xf : Nat) (spans : Option Tok) (kids : List Node) : Node :=
  mkEl "row"
    ([mkAttr "r" (decDigits r.num)] ++ optAttr "spans" spans id ++
     (if r.height.getD zeroTok = zeroTok then [] else [mkAttr "ht" (r.height.getD zeroTok)]) ++
     flagAttr "thickBot" r.thickBot ++ flagAttr "customHeight" r.customHeight ++
     (if xf > 0 then [mkAttr "customFormat" "1".toList] else []) ++
     flagAttr "hidden" r.hidden ++ optAttr "x14ac:dyDescent" r.descent id ++
     (if xf > 0 then [mkAttr "s" (decDigits xf)] else [])) kids

/-- the attribute part of `Row::set_attributes`: the row and the style index of `s` (`last` = number of the row before) -/
def Row.read (cf : Tok → Tok) (last : Nat) (n : Node) : Option (Row × Option Nat) :=
  match u32Attr n.attrs "r" none, u32Attr n.attrs "s" none with
  | some r, some s =>
    some ({ num := r.getD (last + 1), height := floatAttr cf n.attrs "ht" none,
            descent := (match getAttr n.attrs "x14ac:dyDescent" with
                        | some v => if v.isEmpty then none else some (cf v)
                        | none => none),
            thickBot := boolAttr n.attrs "thickBot" none, customHeight := boolAttr n.attrs "customHeight" none,
            hidden := boolAttr n.attrs "hidden" none }, s)
  | _, _ => none

def Row.norm (r : Row) : Row :=
  { r with height := (match r.height with | some h => if h = zeroTok then none else some h | none => none),
           thickBot := normFlag r.thickBot, customHeight := normFlag r.customHeight, hidden := normFlag r.hidden }

def Row.Range (cf : Tok → Tok) (r : Row) : Prop :=
  u32Range r.num ∧ (∀ t, r.height = some t → cf t = t) ∧ (∀ t, r.descent = some t → cf t = t ∧ t ≠ [])

structure RowEff where
  num : Nat
  height : Tok
  customHeight : Bool
  hidden : Bool
  thickBot : Bool
  descent : Tok
  deriving DecidableEq, Repr
def Row.eff (r : Row) : RowEff :=
  { num := r.num, height := r.height.getD zeroTok, customHeight := r.customHeight.getD false, hidden := r.hidden.getD false,
    thickBot := r.thickBot.getD false, descent := r.descent.getD zeroTok }

/-- one `<col>` run; `Column::default()` has width 8.38 -/
structure Col where
  width : Tok
  hidden : Option Bool := none
  bestFit : Option Bool := none
  deriving DecidableEq, Repr

def defaultWidth : Tok := "8.38".toList

/-- `Columns::write_to_column` -/
def Col.write (c : Col) (min max xf : Nat) : Node :=
  mkEl "col"
    ([mkAttr "min" (decDigits min), mkAttr "max" (decDigits max), mkAttr "width" c.width] ++
     flagAttr "hidden" c.hidden ++ flagAttr "bestFit" c.bestFit ++ [mkAttr "customWidth" "1".toList] ++
     (if xf > 0 then [mkAttr "style" (decDigits xf)] else [])) []

/-- `Column::set_attributes` + the `min` / `max` of `Columns::set_attributes` -/
def Col.read (cf : Tok → Tok) (n : Node) : Option (Col × Nat × Nat × Option Nat) :=
  match u32Attr n.attrs "style" none, (getAttr n.attrs "min").bind u32Of, (getAttr n.attrs "max").bind u32Of with
  | some s, some mn, some mx =>
    some ({ width := (match getAttr n.attrs "width" with | some v => cf v | none => defaultWidth),
            hidden := boolAttr n.attrs "hidden" none, bestFit := boolAttr n.attrs "bestFit" none }, mn, mx, s)
  | _, _, _ => none

def Col.norm (c : Col) : Col := { c with hidden := normFlag c.hidden, bestFit := normFlag c.bestFit }

structure ColEff where
  width : Tok
  hidden : Bool
  bestFit : Bool
  deriving DecidableEq, Repr
def Col.eff (c : Col) : ColEff := { width := c.width, hidden := c.hidden.getD false, bestFit := c.bestFit.getD false }

end Umya.StyleCodec
