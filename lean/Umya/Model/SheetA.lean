/-
  The worksheet WITH its annotation lists under `move_range` / `copy_range`, and the hyperlink of a
  cell (`src/structs/worksheet.rs` `move_or_copy_range`, `src/structs/cell.rs` `set_obj`,
  `set_value`).

  * `Worksheet::move_or_copy_range` reads and writes `self.cell_collection` (clone of the source
    cells, `remove`, `set_cell`) and, through `set_cell`, `self.row_dimensions` /
    `self.column_dimensions`.  It names no other field of the worksheet: `merge_cells`, `comments`,
    `conditional_formatting_collection`, `auto_filter` are not mentioned in its body.
    `wsMoveOrCopy` is that function on the worksheet record of `Model/Book.lean`.
  * A `Cell` carries `cell_value`, `style`, `hyperlink: Option<Box<Hyperlink>>`.
    `move_or_copy_range` clones whole cells and pastes them with `set_cell` → `Cells::set` →
    `set_obj`, which assigns `cell_value`, `style` AND `hyperlink` of the stored cell from the clone,
    each as a whole (`None` included).  The model's content token (`CellM.val`, opaque in
    `Model/Sheet.lean`: "value, formula, hyperlink") is therefore read as the pair
    (value-or-formula token, hyperlink token), packed `pack v h = v + linkBase * h` with `v < linkBase`;
    hyperlink token `0` = `None`.  `set_value` replaces the value and keeps the hyperlink
    (`setValH`); `set_cell` of a cell built with a hyperlink replaces both (`setCellH`).
-/
import Umya.Model.Book
namespace Umya.Book
open Umya.Sheet Umya.Coord

/-- `Worksheet::move_or_copy_range` on the worksheet record: only the cell store (with the row /
    column dimensions inside it) is passed to the operation -/
def wsMoveOrCopy (w : WSheet) (rs re cs ce : Nat) (dr dc : Int) (mv : Bool) : Res WSheet :=
  match moveOrCopy w.grid rs re cs ce dr dc mv with
  | .ok g => .ok { w with grid := g }
  | .panic => .panic

/-! ## hyperlinks inside the content token -/

def linkBase : Nat := 1000

/-- content token of a cell with value / formula token `v < linkBase` and hyperlink token `h` (`0` = none) -/
def pack (v h : Nat) : Nat := v + linkBase * h
def valOf (t : Nat) : Nat := t % linkBase
def linkOf (t : Nat) : Nat := t / linkBase

/-- `set_cell(cell)` where `cell` carries value `v`, style `sty`, hyperlink `h`: `set_obj` assigns all three -/
def setCellH (s : Sheet) (col row v sty h : Nat) : Sheet := setCell s col row (pack v h) sty

/-- `get_cell_mut((col,row)).set_value(v)`: the value is replaced, the hyperlink stays -/
def setValH (s : Sheet) (col row v : Nat) : Sheet :=
  modify (getMut s col row) col row (fun c => { c with val := pack v (linkOf c.val) })

/-- the hyperlink of the cell stored at (row, col): `none` = no cell, `some 0` = a cell without hyperlink -/
def linkAt (s : Sheet) (row col : Nat) : Option Nat := (lookup (row, col) s.cells).map (fun c => linkOf c.val)

/-- the sheet as the value-only dump sees it (hyperlink tokens stripped) -/
def stripLinks (s : Sheet) : Sheet := { s with cells := s.cells.map (fun p => (p.1, { p.2 with val := valOf p.2.val })) }

/-- the cells that have a hyperlink, in (row, col) order: (row, col, hyperlink token) -/
def linksOf (s : Sheet) : List (Nat × Nat × Nat) :=
  s.rowIdx.filterMap (fun k => match lookup k s.cells with
    | some c => if linkOf c.val ≠ 0 then some (k.1, k.2, linkOf c.val) else none
    | none => none)

end Umya.Book
