/-
  HMAC-SHA-512 (RFC 2104 / FIPS 198-1) over the Lean SHA-512, for the native driver.
  NOT proved; validated by RFC 4231 test cases 1, 2, 6 in `Umya.PrimsExec.selftest`.
-/
import Umya.Model.Sha512
namespace Umya.Hmac

def xorPad (k : ByteArray) (c : UInt8) : ByteArray :=
  let rec go (n : Nat) (i : Nat) (o : ByteArray) : ByteArray :=
    match n with
    | 0 => o
    | n + 1 => go n (i + 1) (o.push ((if i < k.size then k.get! i else 0) ^^^ c))
  go 128 0 (ByteArray.emptyWithCapacity 128)

def hmacSha512 (key msg : ByteArray) : ByteArray :=
  let k := if key.size > 128 then Umya.Sha512.hash key else key
  let inner := Umya.Sha512.hash (xorPad k 0x36 ++ msg)
  Umya.Sha512.hash (xorPad k 0x5c ++ inner)

end Umya.Hmac
