/-
  The texts of the regular expressions the hand-written matchers of the model stand for.

  fancy_regex / regex are library code: the model does not interpret regular expressions, it has one hand-written matcher
  per use (`Umya/Model/Coord.lean` for the coordinate regex, `Umya/Model/Annot.lean` `isAddress` for the address regex,
  `Umya/Model/NumFmt.lean`, `Umya/Model/NumFmtDispatch.lean`, `Umya/Model/Date.lean` for the number-format ones).  Each
  matcher was written for ONE regular expression; this file records which.  `Umya/Lemmas/RegexGen.lean` proves on every run
  that the texts regenerated from the current source (`Umya.Gen.regex_literals`) are these, so that a changed expression
  breaks an obligation even when no generated input tells the two apart; that the matcher behaves like the expression is tied
  by the correspondence streams only (trusted base: fancy_regex on these expressions).
-/
namespace Umya.RegexTexts

/-- (file#index of the `Regex::new` call, text, the matcher of the model that stands for it) -/
def table : List (String × String × String) :=
  [("src/helper/coordinate.rs#0", "((\\$)?([A-Z]{1,3}))?((\\$)?([0-9]+))?", "Umya.Coord.indexFromCoordinate (regexMatch)"),
   ("src/helper/address.rs#0", "^([^\\:\\\\\\?\\[\\]\\/\\*]+\\!)?(\\$?[A-Z]{1,3}\\$?[0-9]+)(\\:\\$?[A-Z]{1,3}\\$?[0-9]+)?$", "Umya.Annot.isAddress"),
   ("src/structs/address.rs#0", "[^0-9a-zA-Z]", "Umya.Annot / Umya.Coord: needsQuote of a sheet name"),
   ("src/helper/number_format.rs#0", "(\\\\\\(((.)(?!((AM\\/PM)|(A\\/P)))|([^ ])))(?=(?:[^\"]|\"[^\"]*\")*$)", "Umya.NumFmtDispatch: escaped-character stripping"),
   ("src/helper/number_format.rs#1", "(;)(?=(?:[^\"]|\"[^\"]*\")*$)", "Umya.NumFmtDispatch: section split outside quotes"),
   ("src/helper/number_format.rs#2", "(\\[\\$[A-Z]*-[0-9A-F]*\\])*[hmsdy](?=(?:[^\"]|\"[^\"]*\")*$)", "Umya.NumFmtDispatch: date detection"),
   ("src/helper/number_format.rs#3", "%$", "Umya.NumFmt: percent detection"),
   ("src/helper/number_format.rs#4", "_.", "Umya.NumFmtDispatch: padding marks"),
   ("src/helper/number_format.rs#5", "«built at run time: color_regex»", "Umya.NumFmtDispatch: colour brackets (named colours)"),
   ("src/helper/number_format.rs#6", "\\[(>|>=|<|<=|=|<>)([+-]?\\d+([.]\\d+)?)\\]", "Umya.NumFmtDispatch: condition brackets"),
   ("src/helper/number_format/number_formater.rs#0", "(#,#|0,0)", "Umya.NumFmt: thousands separator"),
   ("src/helper/number_format/number_formater.rs#1", "(#|0)(,+)", "Umya.NumFmtDispatch: scaling commas"),
   ("src/helper/number_format/number_formater.rs#2", "(#|0),+", "Umya.NumFmtDispatch: trailing commas"),
   ("src/helper/number_format/number_formater.rs#3", "#?.*\\?{1,2}\\/\\?{1,2}", "Umya.NumFmtDispatch: fraction detection"),
   ("src/helper/number_format/number_formater.rs#4", "\\[[^\\]]+\\]", "Umya.NumFmtDispatch: square brackets"),
   ("src/helper/number_format/number_formater.rs#5", "(0+)(\\.?)(0*)", "Umya.NumFmt.parsePattern"),
   ("src/helper/number_format/number_formater.rs#6", "\\$[^0-9]*", "Umya.NumFmtDispatch: currency prefix"),
   ("src/helper/number_format/number_formater.rs#7", "0+", "Umya.NumFmtDispatch: zero runs"),
   ("src/helper/number_format/date_formater.rs#0", "^(\\[[0-9A-Za-z]*\\])*(\\[\\$[A-Z]*-[0-9A-F]*\\])", "Umya.Date: locale prefix"),
   ("src/helper/number_format/date_formater.rs#1", "(?:^|\")([^\"]*)(?:$|\")", "Umya.Date: unquoted pieces"),
   ("src/helper/number_format/date_formater.rs#2", "\"(.*)\"", "Umya.Date: quoted literal")]

def texts : List (String × String) := table.map fun r => (r.1, r.2.1)

end Umya.RegexTexts
