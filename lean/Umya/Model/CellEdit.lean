/-
  Edits that change WHICH cells a sheet holds (C04): `get_cell_mut` at an empty position (the cell is created, and
  with it the row record of its row), `remove_cell`, and what one save + load makes of one sheet's cell list.
  Core Lean only (the driver computes with these).
-/
import Umya.Model.CellXml
import Umya.Model.StyleCodec
namespace Umya.CellXml
open Umya.Num

section
variable (F : NumFmt)

/-- the cell at (row, column) `k` of a sheet's cell list -/
def lookup (s : List (Cell F.Num)) (k : Nat × Nat) : Option (Cell F.Num) :=
  s.find? (fun c => decide ((c.row, c.col) = k))

/-- a new cell put into the sheet's cell list, after the first `n` cells (the collection is a hash map: the place
    is whatever the row loop of the writer makes of it, so every place is covered) -/
def createSheet (n : Nat) (c : Cell F.Num) (s : List (Cell F.Num)) : List (Cell F.Num) :=
  s.take n ++ c :: s.drop n

/-- `remove_cell`: every cell at coordinate `k` leaves the list -/
def deleteSheet (k : Nat × Nat) (s : List (Cell F.Num)) : List (Cell F.Num) :=
  s.filter (fun c => !decide ((c.row, c.col) = k))

/-- what one save + load keeps of one sheet (`normalize`, one sheet) -/
def normS (s : List (Cell F.Num)) : List (Cell F.Num) :=
  (s.filter (fun c => !blankUnstyled F c)).map (Cell.resolved F)

/-- how many of the first `n` cells are written -/
def keptBefore (s : List (Cell F.Num)) (n : Nat) : Nat := (normS F (s.take n)).length

/-- a function applied to the cell list of sheet `i` (nothing happens when there is no such sheet) -/
def onSheet (cells : List (List (Cell F.Num))) (i : Nat) (g : List (Cell F.Num) → List (Cell F.Num)) :
    List (List (Cell F.Num)) :=
  match cells[i]? with
  | some s => cells.set i (g s)
  | none => cells

end

/-- `get_row_dimension_mut(row)` as called by `get_cell_mut`: a row without a record gets a default one
    (`x` = the xf index of the default style) -/
def ensureRow (r x : Nat) (rows : List (Umya.StyleCodec.Row × Nat)) : List (Umya.StyleCodec.Row × Nat) :=
  if rows.any (fun p => p.1.num == r) then rows else rows ++ [({ num := r }, x)]

/-- `get_column_dimension_by_number_mut(col)` as called by `get_cell_mut` (`Columns::get_column_mut`): a column
    without a record gets a default one (`Column::default()`: width 8.38, no flags) pushed at the end.  A record is
    (column, min, max, xf); the in-memory records are one per column (min = max = `col_num`), looked up by `col_num` -/
def ensureCol (k x : Nat) (cols : List (Umya.StyleCodec.Col × Nat × Nat × Nat)) :
    List (Umya.StyleCodec.Col × Nat × Nat × Nat) :=
  if cols.any (fun p => p.2.1 == k) then cols else cols ++ [({ width := Umya.StyleCodec.defaultWidth }, k, k, x)]

end Umya.CellXml
