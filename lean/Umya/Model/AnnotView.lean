/-
  C06 — sheet views: `structs/sheet_views.rs`, `sheet_view.rs`, `pane.rs`, `pane_values.rs`,
  `pane_state_values.rs`, `selection.rs`, `sheet_view_values.rs`, with `structs/coordinate.rs`
  (`to_string` / `set_coordinate`) and `sequence_of_references.rs` (`get_sqref` / `set_sqref`).

  `write` = the element tree an XML 1.0 reader delivers for what `write_to` emits; it is `none` where
  the Rust panics (`string_from_column_index` asserts `col >= 1`).  `read` = `set_attributes`; `none`
  where it panics (`parse::<u32>().unwrap()`, `Coordinate::set_coordinate` unwrapping a missing
  column / row, `Range::set_range` on more than one `:`).

  What the code does and the model follows:
  * `tabSelected` is written only when the VALUE is true (`Some(false)` and `None` write nothing);
    `workbookViewId` is always written (`0` when unset).
  * `<pane>`: `topLeftCell`, `activePane`, `state` are always written (defaults `A1`, `bottomRight`,
    `split`); `xSplit` / `ySplit` only when set.
  * `PaneValues::TopRight` is spelt `"TopRight"` by BOTH `get_value_string` and `from_str` (the schema
    says `topRight`): the library round-trips with itself; a file written by Excel with
    `activePane="topRight"` falls back to the default — not a C06 matter, recorded as an observation.
  * `<selection>`: `activeCellId` is recomputed by the writer (index of the first range of `sqref`
    whose TEXT contains the active cell's text as a substring, the number of ranges if none) and is
    never read.
  * the sheet-view reader takes `<pane>` / `<selection>` children (a later `<pane>` replaces an earlier
    one; selections are appended in document order) and ignores everything else.
  * `Worksheet::active_cell` is neither written nor (for any well-formed part) read: the reader's
    top-level `selection` arms are unreachable because `SheetViews::set_attributes` consumes the
    events up to `</sheetViews>` (`activeCellSaved`, refuted in `Thm/C06View.lean`).
-/
import Umya.Model.AnnotCodec
import Umya.Model.Coord
namespace Umya.AnnotView
open Umya.Spec.Xml (Node Attr)
open Umya.Dec Umya.AnnotCodec Umya.Coord

/-! ## enums -/

inductive PaneV where
  | bottomLeft | bottomRight | topLeft | topRight
  deriving DecidableEq, Repr

def PaneV.all : List PaneV := [.bottomLeft, .bottomRight, .topLeft, .topRight]

/-- `EnumTrait::get_value_string` -/
def PaneV.toStrS : PaneV → String
  | .bottomLeft => "bottomLeft" | .bottomRight => "bottomRight" | .topLeft => "topLeft" | .topRight => "TopRight"

/-- the Rust variant name (for the tie to the source tables) -/
def PaneV.nameS : PaneV → String
  | .bottomLeft => "BottomLeft" | .bottomRight => "BottomRight" | .topLeft => "TopLeft" | .topRight => "TopRight"

def PaneV.toStr (v : PaneV) : Text := v.toStrS.toList

/-- `FromStr::from_str` -/
def PaneV.fromStr (t : Text) : Option PaneV :=
  if t = "bottomLeft".toList then some .bottomLeft
  else if t = "bottomRight".toList then some .bottomRight
  else if t = "topLeft".toList then some .topLeft
  else if t = "TopRight".toList then some .topRight
  else none

/-- `Default` -/
def PaneV.dflt : PaneV := .bottomRight

inductive PaneState where
  | frozen | frozenSplit | split
  deriving DecidableEq, Repr

def PaneState.all : List PaneState := [.frozen, .frozenSplit, .split]

def PaneState.toStrS : PaneState → String
  | .frozen => "frozen" | .frozenSplit => "frozenSplit" | .split => "split"

def PaneState.nameS : PaneState → String
  | .frozen => "Frozen" | .frozenSplit => "FrozenSplit" | .split => "Split"

def PaneState.toStr (v : PaneState) : Text := v.toStrS.toList

def PaneState.fromStr (t : Text) : Option PaneState :=
  if t = "frozen".toList then some .frozen
  else if t = "frozenSplit".toList then some .frozenSplit
  else if t = "split".toList then some .split
  else none

def PaneState.dflt : PaneState := .split

inductive ViewV where
  | normal | pageBreakPreview | pageLayout
  deriving DecidableEq, Repr

def ViewV.all : List ViewV := [.normal, .pageBreakPreview, .pageLayout]

def ViewV.toStrS : ViewV → String
  | .normal => "normal" | .pageBreakPreview => "pageBreakPreview" | .pageLayout => "pageLayout"

def ViewV.nameS : ViewV → String
  | .normal => "Normal" | .pageBreakPreview => "PageBreakPreview" | .pageLayout => "PageLayout"

def ViewV.toStr (v : ViewV) : Text := v.toStrS.toList

def ViewV.fromStr (t : Text) : Option ViewV :=
  if t = "normal".toList then some .normal
  else if t = "pageBreakPreview".toList then some .pageBreakPreview
  else if t = "pageLayout".toList then some .pageLayout
  else none

def ViewV.dflt : ViewV := .normal

/-! ## `Coordinate` -/

/-- `structs::Coordinate` (defaults: column 1, row 1, no locks) -/
structure Coord where
  col : Nat := 1
  row : Nat := 1
  lockCol : Bool := false
  lockRow : Bool := false
  deriving DecidableEq, Repr

/-- `Coordinate::to_string`; `none` = the assertion `col >= 1` fails -/
def Coord.text? (c : Coord) : Option Text := coordinateFromIndexWithLock? c.col c.row c.lockCol c.lockRow

/-- `Coordinate::set_coordinate` on any object: all four results of `index_from_coordinate` are unwrapped -/
def Coord.parse? (t : Text) : Option Coord :=
  match indexFromCoordinate t with
  | (some c, some r, some lc, some lr) => some ⟨c, r, lc, lr⟩
  | _ => none

def Coord.WF (c : Coord) : Prop := 1 ≤ c.col ∧ c.col ≤ 18278 ∧ c.row < 4294967296

/-! ## `<pane>` -/

structure Pane (Z : NumZ) where
  xSplit : Option Z.F.Num := none
  ySplit : Option Z.F.Num := none
  topLeft : Coord := {}
  activePane : Option PaneV := none
  state : Option PaneState := none

def Pane.fields {Z} (p : Pane Z) (tl : Text) : List (Text × Option Text) :=
  [("xSplit".toList, p.xSplit.map Z.F.fmt), ("ySplit".toList, p.ySplit.map Z.F.fmt),
   ("topLeftCell".toList, some tl),
   ("activePane".toList, some (p.activePane.getD PaneV.dflt).toStr),
   ("state".toList, some (p.state.getD PaneState.dflt).toStr)]

/-- `Pane::write_to` -/
def Pane.write {Z} (p : Pane Z) : Option Node :=
  p.topLeft.text?.map fun tl => elem "pane" (render (p.fields tl)) []

/-- `topLeftCell` of a pane: `set_coordinate` when the attribute is there, the default otherwise -/
def paneTl? : Option Text → Option Coord
  | some t => Coord.parse? t
  | none => some {}

/-- `Pane::set_attributes` on a default object -/
def Pane.read {Z} (n : Node) : Option (Pane Z) :=
  let as := n.attrs
  (paneTl? (getAttr as "topLeftCell".toList)).map fun tl =>
  { xSplit := (getAttr as "xSplit".toList).map (numRead Z)
    ySplit := (getAttr as "ySplit".toList).map (numRead Z)
    topLeft := tl
    activePane := enumRead PaneV.fromStr none (getAttr as "activePane".toList)
    state := enumRead PaneState.fromStr none (getAttr as "state".toList) }

/-- after reload the two enum fields HAVE a value (the default when there was none) -/
def Pane.norm {Z} (p : Pane Z) : Pane Z :=
  { p with activePane := some (p.activePane.getD PaneV.dflt), state := some (p.state.getD PaneState.dflt) }

def Pane.WF {Z} (p : Pane Z) : Prop := p.topLeft.WF

/-! ## `<selection>` -/

structure Selection where
  pane : Option PaneV := none
  activeCell : Option Coord := none
  sqref : List Range := []
  deriving DecidableEq, Repr

/-- `SequenceOfReferences::get_sqref` -/
def sqrefText (rs : List Range) : Text := joinCh ' ' (rs.map Range.print)

/-- the loop computing `active_cell_id`: ranges before the first whose text contains the cell text -/
def activeCellId (cell : Text) : List Range → Nat
  | [] => 0
  | ρ :: r => if containsSub ρ.print cell then 0 else activeCellId cell r + 1

/-- the text of the active cell, if there is one (`none` = panic in `to_string`) -/
def optCoordText? : Option Coord → Option (Option Text)
  | some c => c.text?.map some
  | none => some none

/-- `if !active_cell_str.is_empty()` -/
def cellAttr : Option Text → Option Text
  | some c => if c = [] then none else some c
  | none => none

def cellId (rs : List Range) : Option Text → Nat
  | some c => activeCellId c rs
  | none => 0

def Selection.fields (s : Selection) (cell : Option Text) : List (Text × Option Text) :=
  [("pane".toList, s.pane.map PaneV.toStr),
   ("activeCell".toList, cellAttr cell),
   ("activeCellId".toList, if cellId s.sqref cell > 0 then some (decDigits (cellId s.sqref cell)) else none),
   ("sqref".toList, if sqrefText s.sqref = [] then none else some (sqrefText s.sqref))]

/-- `Selection::write_to` -/
def Selection.write (s : Selection) : Option Node :=
  (optCoordText? s.activeCell).map fun cell => elem "selection" (render (s.fields cell)) []

/-- `SequenceOfReferences::set_sqref` on an empty collection: split at blanks, the empty pieces left out
    (fix 13062503), `Range::set_range` each -/
def sqrefRead (t : Text) : Option (List Range) :=
  ((splitCh ' ' t).filter fun p => !p.isEmpty).mapM fun piece =>
    match Range.parse piece with
    | .ok ρ => some ρ
    | .panic => none

def optCoordParse? : Option Text → Option (Option Coord)
  | some t => (Coord.parse? t).map some
  | none => some none

def optSqrefRead : Option Text → Option (List Range)
  | some t => sqrefRead t
  | none => some []

/-- `Selection::set_attributes` on a default object -/
def Selection.read (n : Node) : Option Selection :=
  let as := n.attrs
  (optCoordParse? (getAttr as "activeCell".toList)).bind fun ac =>
  (optSqrefRead (getAttr as "sqref".toList)).map fun sq =>
  { pane := enumRead PaneV.fromStr none (getAttr as "pane".toList), activeCell := ac, sqref := sq }

/-! ## `<sheetView>`, `<sheetViews>` -/

structure SheetView (Z : NumZ) where
  showGridLines : Option Bool := none
  tabSelected : Option Bool := none
  workbookViewId : Option Nat := none
  pane : Option (Pane Z) := none
  view : Option ViewV := none
  zoomScale : Option Nat := none
  zoomScaleNormal : Option Nat := none
  zoomScalePageLayoutView : Option Nat := none
  zoomScaleSheetLayoutView : Option Nat := none
  topLeftCell : Option Text := none
  selections : List Selection := []

def SheetView.fields {Z} (v : SheetView Z) : List (Text × Option Text) :=
  [("showGridLines".toList, v.showGridLines.map boolStr),
   ("tabSelected".toList, if v.tabSelected.getD false then some (boolStr true) else none),
   ("view".toList, v.view.map ViewV.toStr),
   ("zoomScale".toList, v.zoomScale.map decDigits),
   ("zoomScaleNormal".toList, v.zoomScaleNormal.map decDigits),
   ("zoomScalePageLayoutView".toList, v.zoomScalePageLayoutView.map decDigits),
   ("zoomScaleSheetLayoutView".toList, v.zoomScaleSheetLayoutView.map decDigits),
   ("topLeftCell".toList, v.topLeftCell),
   ("workbookViewId".toList, some (u32Str v.workbookViewId))]

def sheetViewKeys : List Text :=
  ["showGridLines".toList, "tabSelected".toList, "view".toList, "zoomScale".toList, "zoomScaleNormal".toList,
   "zoomScalePageLayoutView".toList, "zoomScaleSheetLayoutView".toList, "topLeftCell".toList,
   "workbookViewId".toList]

def paneKids {Z} : Option (Pane Z) → Option (List Node)
  | some p => p.write.map ([·])
  | none => some []

/-- `SheetView::write_to`: the pane (if any), then the selections in order -/
def SheetView.write {Z} (v : SheetView Z) : Option Node :=
  (paneKids v.pane).bind fun pn =>
  (v.selections.mapM Selection.write).map fun sels =>
    elem "sheetView" (render v.fields) (pn ++ sels)

/-- the child loop of `SheetView::set_attributes` -/
def readKids {Z} : List Node → Option (Pane Z) × List Selection → Option (Option (Pane Z) × List Selection)
  | [], acc => some acc
  | k :: r, (p, ss) =>
    if k.name = "pane".toList then (Pane.read k).bind fun p' => readKids r (some p', ss)
    else if k.name = "selection".toList then (Selection.read k).bind fun s => readKids r (p, ss ++ [s])
    else readKids r (p, ss)

/-- `SheetView::set_attributes` on a default object -/
def SheetView.read {Z} (n : Node) : Option (SheetView Z) :=
  let as := n.attrs
  (optU32 (getAttr as "workbookViewId".toList)).bind fun wid =>
  (optU32 (getAttr as "zoomScale".toList)).bind fun z1 =>
  (optU32 (getAttr as "zoomScaleNormal".toList)).bind fun z2 =>
  (optU32 (getAttr as "zoomScalePageLayoutView".toList)).bind fun z3 =>
  (optU32 (getAttr as "zoomScaleSheetLayoutView".toList)).bind fun z4 =>
  (readKids (elemKids n) (none, [])).map fun ps =>
  { showGridLines := optBool (getAttr as "showGridLines".toList)
    tabSelected := optBool (getAttr as "tabSelected".toList)
    workbookViewId := wid
    pane := ps.1
    view := enumRead ViewV.fromStr none (getAttr as "view".toList)
    zoomScale := z1, zoomScaleNormal := z2, zoomScalePageLayoutView := z3, zoomScaleSheetLayoutView := z4
    topLeftCell := getAttr as "topLeftCell".toList
    selections := ps.2 }

/-- what reload changes: `tabSelected = Some(false)` becomes "no value"; `workbookViewId` and the pane's
    enum fields get their defaults as values.  Every getter returns the same. -/
def SheetView.norm {Z} (v : SheetView Z) : SheetView Z :=
  { v with
    tabSelected := if v.tabSelected.getD false then some true else none
    workbookViewId := some (v.workbookViewId.getD 0)
    pane := v.pane.map Pane.norm }

/-- `SheetViews::write_to`: nothing at all for an empty list -/
def writeViews {Z} (vs : List (SheetView Z)) : Option (List Node) :=
  if vs.isEmpty then some []
  else (vs.mapM SheetView.write).map fun ks => [elem "sheetViews" [] ks]

/-- `SheetViews::set_attributes`: every `<sheetView>` child, in order -/
def readViews {Z} (n : Node) : Option (List (SheetView Z)) :=
  ((elemKids n).filter (fun k => k.name = "sheetView".toList)).mapM SheetView.read

/-! ## `Worksheet::active_cell` -/

/-- what the sheet part says about `Worksheet::active_cell`: nothing (no writer code mentions it) -/
def writeActiveCell (_ : Text) : List Attr := []

/-- the reader's value after loading a part written by this library: the default `""`
    (its `selection` arms at worksheet level are never reached) -/
def readActiveCell (_ : List Attr) : Text := []

end Umya.AnnotView
