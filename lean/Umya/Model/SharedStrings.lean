/-
  Model of the shared-string side of a save (`writer/xlsx.rs::make_buffer`, after the per-save
  table fix; `SharedStringTable::set_cell`; `Cell::write_to` for `t="s"` cells;
  `writer/xlsx/shared_strings.rs`), of workbooks as values (`Clone`), and of concurrent savers.

  A string-table is a list; registration is find-or-append.  The content hash used by the Rust
  (`AHasher ∘ md5` of text + rich text) is abstracted as equality of the text (hash injectivity is
  an assumption recorded in the trusted base).
-/
namespace Umya.Sst

abbrev Text := List Char
abbrev Table := List Text

def indexOf? (x : Text) : Table → Option Nat
  | [] => none
  | y :: ys => if y = x then some 0 else (indexOf? x ys).map (· + 1)

/-- `SharedStringTable::set_cell`: find-or-append, returns the index -/
def intern (t : Table) (x : Text) : Table × Nat :=
  match indexOf? x t with
  | some i => (t, i)
  | none => (t ++ [x], t.length)

/-- register a list of strings in order; returns the table and the indices handed out -/
def internAll (t : Table) : List Text → Table × List Nat
  | [] => (t, [])
  | x :: xs =>
    let (t1, i) := intern t x
    let (t2, is) := internAll t1 xs
    (t2, i :: is)

/-- a worksheet as the saver sees it -/
inductive SheetS where
  | cells (texts : List Text)          -- deserialized: its text cells in emission order (row, column)
  | raw (indices : List Nat)           -- never deserialized: copied verbatim; `<v>` indexes the loaded table
  deriving Repr, DecidableEq

structure BookS where
  sheets : List SheetS := []
  loaded : Table := []                 -- the table read from the file the workbook came from
  deriving Repr, DecidableEq

def SheetS.isRaw : SheetS → Bool
  | .raw _ => true
  | .cells _ => false

def BookS.hasRaw (b : BookS) : Bool := b.sheets.any SheetS.isRaw

/-- the texts a save registers, in order -/
def BookS.texts (b : BookS) : List Text :=
  b.sheets.flatMap (fun s => match s with | .cells l => l | .raw _ => [])

structure Saved where
  table : Table                        -- `<si>` entries of sharedStrings.xml, in order
  count : Nat                          -- the `count` attribute (number of registrations)
  sheetIdx : List (List Nat)           -- per sheet: the `<v>` payload of every `t="s"` cell, in order
  deriving Repr, DecidableEq

def splitBy : List SheetS → List Nat → List (List Nat)
  | [], _ => []
  | .cells l :: rest, is => is.take l.length :: splitBy rest (is.drop l.length)
  | .raw ix :: rest, is => ix :: splitBy rest is

/-- `make_buffer` (string side): a table private to this save, seeded with the loaded table only
    when some sheet is still raw -/
def save (b : BookS) : Saved :=
  let base := if b.hasRaw then b.loaded else []
  let (t, is) := internAll base b.texts
  { table := t, count := b.texts.length, sheetIdx := splitBy b.sheets is }

/-! ## concurrent savers -/

/-- one saver's program state: the strings still to register, its table, the indices it got -/
structure Saver where
  todo : List Text
  table : Table := []
  got : List Nat := []
  dumped : Option Table := none
  deriving Repr, DecidableEq

/-- one atomic step of saver `i` (a registration, or the dump when nothing is left) -/
def Saver.step (s : Saver) : Saver :=
  match s.todo with
  | x :: xs => let (t, i) := intern s.table x; { s with todo := xs, table := t, got := s.got ++ [i] }
  | [] => match s.dumped with
    | none => { s with dumped := some s.table }
    | some _ => s

def stepAt : List Saver → Nat → List Saver
  | [], _ => []
  | s :: ss, 0 => s.step :: ss
  | s :: ss, i + 1 => s :: stepAt ss i

/-- run a schedule (a list of saver numbers) on savers with private tables -/
def runSched (ss : List Saver) (σ : List Nat) : List Saver := σ.foldl stepAt ss

/-- the same savers on ONE shared table (the design before the fix), for comparison -/
structure SharedState where
  table : Table := []
  savers : List Saver := []            -- their own `table` fields are unused
  deriving Repr, DecidableEq

def sharedStepAt (st : SharedState) (i : Nat) : SharedState :=
  match st.savers[i]? with
  | none => st
  | some s =>
    match s.todo with
    | x :: xs =>
      let (t, k) := intern st.table x
      { table := t, savers := st.savers.set i { s with todo := xs, got := s.got ++ [k] } }
    | [] => match s.dumped with
      | none => { st with savers := st.savers.set i { s with dumped := some st.table } }
      | some _ => st

def runShared (st : SharedState) (σ : List Nat) : SharedState := σ.foldl sharedStepAt st

end Umya.Sst
