/-
  Model of the CSV export for a wrap string of ANY length (`wrap_with_char` is a `String`):
  the branch `if wrap != "" { value = format!("{}{}{}", wrap, value.replace(wrap, &wrap.repeat(2)), wrap) }`
  of `src/writer/csv.rs::write_writer`.  `Umya/Model/Csv.lean` models the same branch for a
  one-character string; this file is the general case (`str::replace` with a string pattern:
  the matches are found from left to right, never overlap, and the search resumes after a match).

  Text is `List Char`.  Core Lean only.
-/
import Umya.Model.Csv
namespace Umya.Csv

/-- `value.replace(w, &w.repeat(2))` for a non-empty `w`.  `k` = how many characters of a match
    that was already found are still to be copied (no new match can start inside it). -/
def escapeWAux (w : Text) : Nat → Text → Text
  | _, [] => []
  | k + 1, c :: cs => c :: escapeWAux w k cs
  | 0, c :: cs =>
    if w.isPrefixOf (c :: cs) then w ++ (c :: escapeWAux w (w.length - 1) cs)
    else c :: escapeWAux w 0 cs

def escapeW (w v : Text) : Text := escapeWAux w 0 v

/-- `format!("{}{}{}", w, value.replace(w, ww), w)` -/
def quotedW (w v : Text) : Text := w ++ escapeW w v ++ w

/-- the text pushed into `row_vec` for one cell when `wrap_with_char` is the non-empty string `w` -/
def renderFieldW (trim? : Bool) (w v : Text) : Text := quotedW w (if trim? then trim v else v)

def renderRowW (trim? : Bool) (w : Text) (row : List Text) : Text :=
  join [','] (row.map (renderFieldW trim? w)) ++ ['\r', '\n']

/-- the string `data` for a non-empty wrap string `w` -/
def csvTextW (g : Grid) (trim? : Bool) (w : Text) : Text :=
  (List.range (highestRow g)).flatMap fun row =>
    renderRowW trim? w ((List.range (highestCol g)).map fun col => g.get (row + 1) (col + 1))

end Umya.Csv
