/-
  Abstract cryptographic primitives used by the models of `src/helper/crypt.rs`
  (C14 agile encryption, C15 protection password hashes) and by the specifications
  written from ECMA-376 / MS-OFFCRYPTO.

  Byte strings are `List UInt8` (`Bytes`).  The primitives are NOT proved: every theorem is stated
  for an arbitrary `Prims` value, with the laws it needs as explicit hypotheses
  (`Prims.Lawful`).  The executable instance (`Umya/Model/PrimsExec.lean`: SHA-512, AES-256-CBC,
  HMAC-SHA-512, base64 written in core Lean) is validated by test vectors at run time and by
  agreeing with the Rust crates on every check run.

  Also here: the two pure encodings both files share, `le32` (Rust `LittleEndian::write_u32` of
  an `as u32` cast) and `utf16le` (Rust `str::encode_utf16` + `to_le_bytes`).
-/
namespace Umya.Crypto

abbrev Bytes := List UInt8

structure Prims where
  /-- SHA-512 of a byte string -/
  sha512 : Bytes → Bytes
  /-- AES-CBC without padding: key, IV, block-aligned message -/
  aesCbcEnc : Bytes → Bytes → Bytes → Bytes
  aesCbcDec : Bytes → Bytes → Bytes → Bytes
  /-- HMAC-SHA-512: key, message -/
  hmac : Bytes → Bytes → Bytes
  /-- base64 (RFC 4648 standard alphabet, padded) -/
  b64 : Bytes → List Char
  unb64 : List Char → Option Bytes

/-- The laws the theorems assume about the primitives (hypotheses, never axioms). -/
structure Prims.Lawful (P : Prims) : Prop where
  sha_len : ∀ x, (P.sha512 x).length = 64
  hmac_len : ∀ k m, (P.hmac k m).length = 64
  enc_len : ∀ k iv m, (P.aesCbcEnc k iv m).length = m.length
  /-- AES-256-CBC decryption inverts encryption on block-aligned input -/
  dec_enc : ∀ k iv m, k.length = 32 → iv.length = 16 → m.length % 16 = 0 →
    P.aesCbcDec k iv (P.aesCbcEnc k iv m) = m
  unb64_b64 : ∀ x, P.unb64 (P.b64 x) = some x

/-- four little-endian bytes of `n mod 2^32` (`n as u32` then `write_u32`) -/
def le32 (n : Nat) : Bytes :=
  [UInt8.ofNat (n % 256), UInt8.ofNat (n / 256 % 256), UInt8.ofNat (n / 65536 % 256),
   UInt8.ofNat (n / 16777216 % 256)]

theorem le32_length (n : Nat) : (le32 n).length = 4 := rfl

/-- UTF-16 code units of one Unicode scalar value (`char::encode_utf16`) -/
def utf16Units (c : Char) : List Nat :=
  let n := c.toNat
  if n < 65536 then [n]
  else [55296 + (n - 65536) / 1024, 56320 + (n - 65536) % 1024]

/-- `password.encode_utf16()` with every unit pushed as `to_le_bytes()` -/
def utf16le (s : List Char) : Bytes :=
  s.flatMap fun c => (utf16Units c).flatMap fun u => [UInt8.ofNat (u % 256), UInt8.ofNat (u / 256 % 256)]

/-- `n` applications of `f` to the running value and the 0-based iteration number,
    counting up (`for i in 0..n { key = f(i, key) }`). -/
def spinUp (f : Nat → Bytes → Bytes) : Nat → Bytes → Bytes
  | 0, h => h
  | n + 1, h => f n (spinUp f n h)

/-- the same loop written the way the Rust executes it (accumulator, counter going up);
    used by the driver so that 100 000 iterations do not build a deep stack -/
def spinLoop (f : Nat → Bytes → Bytes) (n : Nat) (h : Bytes) : Bytes :=
  go n 0 h
where
  go : Nat → Nat → Bytes → Bytes
    | 0, _, h => h
    | k + 1, i, h => go k (i + 1) (f i h)

theorem spinUp_front (g : Nat → Bytes → Bytes) (k : Nat) (h : Bytes) :
    spinUp (fun j => g (j + 1)) k (g 0 h) = spinUp g (k + 1) h := by
  induction k with
  | zero => rfl
  | succ k ih => rw [spinUp, ih]; rfl

theorem spinLoop_go_eq (f : Nat → Bytes → Bytes) (k i : Nat) (h : Bytes) :
    spinLoop.go f k i h = spinUp (fun j => f (i + j)) k h := by
  induction k generalizing i h with
  | zero => rfl
  | succ k ih =>
    rw [spinLoop.go, ih, ← spinUp_front]
    simp only [Nat.add_zero]
    congr 1
    funext j
    congr 1
    omega

theorem spinLoop_eq_spinUp (f : Nat → Bytes → Bytes) (n : Nat) (h : Bytes) :
    spinLoop f n h = spinUp f n h := by
  unfold spinLoop
  rw [spinLoop_go_eq]
  simp

/-- the loop as a left fold over `0, 1, …, n-1` (the form the specifications use) -/
theorem spinUp_eq_foldl (f : Nat → Bytes → Bytes) (n : Nat) (h : Bytes) :
    spinUp f n h = (List.range n).foldl (fun acc i => f i acc) h := by
  induction n with
  | zero => rfl
  | succ n ih => rw [List.range_succ, List.foldl_append, ← ih]; rfl

end Umya.Crypto
