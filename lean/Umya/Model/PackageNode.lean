/-
  The PACKAGE the writer assembles (`make_buffer`, `src/writer/xlsx.rs`) for a workbook of n plain sheets — no
  custom document properties, no macros, no ribbon, no pivot caches, every sheet deserialized and without drawings,
  charts, comments, VML, OLE objects, printer settings or tables (sheets that have any of these get further
  parts and relationships; they are outside this model and stay validated per file).  Parts, in the order
  written:

      docProps/app.xml  docProps/core.xml  _rels/.rels  xl/theme/theme1.xml
      xl/worksheets/sheet1.xml … sheetN.xml                      (`worksheet::write`, N = position in the collection)
      xl/worksheets/_rels/sheetK.xml.rels                        (`worksheet_rels::write`: only when it has a relationship)
      xl/sharedStrings.xml                                        (`shared_strings::write`: only when the table is not empty)
      xl/styles.xml  xl/workbook.xml  xl/_rels/workbook.xml.rels  [Content_Types].xml

  with, exactly as the code writes them,
  * `_rels/.rels` (`rels.rs`): `rId3` extended-properties → `docProps/app.xml`, `rId2` core-properties →
    `docProps/core.xml`, `rId1` officeDocument → `xl/workbook.xml`, in this order;
  * `xl/_rels/workbook.xml.rels` (`workbook_rels.rs`): `rIdK` worksheet → `worksheets/sheetK.xml` for K = 1…n, then
    `rId(n+1)` styles → `styles.xml`, `rId(n+2)` theme → `theme/theme1.xml` and, when the shared-string part is
    written, `rId(n+3)` sharedStrings → `sharedStrings.xml`;
  * `[Content_Types].xml` (`content_types.rs`, `WriterManager::make_context_type_override`): `Default` for
    `rels` and `xml` (no optional extension is present among these parts), and one `Override` per registered
    part whose name starts with one of the known prefixes — docProps/app.xml, docProps/core.xml,
    xl/sharedStrings.xml (when written), xl/styles.xml, xl/theme/theme1.xml, xl/workbook.xml (not macro-enabled),
    xl/worksheets/sheetK.xml.  `_rels/.rels` and the sheet relationship parts are registered but match no prefix
    (they fall under `Default rels`); workbook.xml.rels and [Content_Types].xml are written by
    `make_file_from_writer` directly and are not registered.  The code emits the Overrides in the byte order
    of the part names (`file_list_sort`: …sheet1, sheet10, sheet2…); this model lists the worksheet ones in numeric
    order — a reader looks an Override up by `PartName`, and the tie compares them as a set.

  The bodies of docProps/app.xml, docProps/core.xml, xl/theme/theme1.xml and xl/styles.xml are OPAQUE (a tree
  parameter each: name and content type only; of styles the decoder reads the sizes of `cellXfs` / `dxfs`).
  Worksheet parts are the trees of `Umya/Model/SheetNode.lean` (with their opaque `Frame`), the workbook part
  the tree of `Umya/Model/WorkbookNode.lean` (with its opaque `WbFrame`, which contains `bookViews`), the
  shared-string part the tree of `Umya/Model/CellNode.lean`; the shared-string table is threaded through the
  sheets in order (`make_buffer`: one table per save).
-/
import Umya.Model.WorkbookNode
namespace Umya.PackageNode
open Umya.Xml Umya.CellXml Umya.CellNode Umya.SheetNode Umya.WorkbookNode Umya.Dec
open Umya.Spec.Xml (Node Attr)
open Umya.Spec.Sml (Part Package)

/-! ## part names (characters; the `String` is `String.ofList` of them) -/

def nApp : List Char := ['d', 'o', 'c', 'P', 'r', 'o', 'p', 's', '/', 'a', 'p', 'p', '.', 'x', 'm', 'l']
def nCore : List Char := ['d', 'o', 'c', 'P', 'r', 'o', 'p', 's', '/', 'c', 'o', 'r', 'e', '.', 'x', 'm', 'l']
def nRootRels : List Char := ['_', 'r', 'e', 'l', 's', '/', '.', 'r', 'e', 'l', 's']
def nTheme : List Char := ['x', 'l', '/', 't', 'h', 'e', 'm', 'e', '/', 't', 'h', 'e', 'm', 'e', '1', '.', 'x', 'm', 'l']
def nSst : List Char := ['x', 'l', '/', 's', 'h', 'a', 'r', 'e', 'd', 'S', 't', 'r', 'i', 'n', 'g', 's', '.', 'x', 'm', 'l']
def nStyles : List Char := ['x', 'l', '/', 's', 't', 'y', 'l', 'e', 's', '.', 'x', 'm', 'l']
def nWorkbookPart : List Char := ['x', 'l', '/', 'w', 'o', 'r', 'k', 'b', 'o', 'o', 'k', '.', 'x', 'm', 'l']
def nWorkbookRels : List Char := ['x', 'l', '/', '_', 'r', 'e', 'l', 's', '/', 'w', 'o', 'r', 'k', 'b', 'o', 'o', 'k', '.', 'x', 'm', 'l', '.', 'r', 'e', 'l', 's']
def nContentTypes : List Char := ['[', 'C', 'o', 'n', 't', 'e', 'n', 't', '_', 'T', 'y', 'p', 'e', 's', ']', '.', 'x', 'm', 'l']

/-- `format!("{PKG_SHEET}{}.xml", sheet_no)` -/
def sheetPartL (k : Nat) : List Char := 'x' :: 'l' :: '/' :: 'w' :: 'o' :: 'r' :: 'k' :: 's' :: 'h' :: 'e' :: 'e' :: 't' :: 's' :: '/' :: 's' :: 'h' :: 'e' :: 'e' :: 't' :: (decDigits k ++ ['.', 'x', 'm', 'l'])

/-- `format!("{PKG_SHEET_RELS}{}.xml.rels", worksheet_no)` -/
def sheetRelsL (k : Nat) : List Char := 'x' :: 'l' :: '/' :: 'w' :: 'o' :: 'r' :: 'k' :: 's' :: 'h' :: 'e' :: 'e' :: 't' :: 's' :: '/' :: '_' :: 'r' :: 'e' :: 'l' :: 's' :: '/' :: 's' :: 'h' :: 'e' :: 'e' :: 't' :: (decDigits k ++ ['.', 'x', 'm', 'l', '.', 'r', 'e', 'l', 's'])

/-! ## relationship types and content types (`helper/const_str.rs`) -/

def tXprops : List Char := ['h', 't', 't', 'p', ':', '/', '/', 's', 'c', 'h', 'e', 'm', 'a', 's', '.', 'o', 'p', 'e', 'n', 'x', 'm', 'l', 'f', 'o', 'r', 'm', 'a', 't', 's', '.', 'o', 'r', 'g', '/', 'o', 'f', 'f', 'i', 'c', 'e', 'D', 'o', 'c', 'u', 'm', 'e', 'n', 't', '/', '2', '0', '0', '6', '/', 'r', 'e', 'l', 'a', 't', 'i', 'o', 'n', 's', 'h', 'i', 'p', 's', '/', 'e', 'x', 't', 'e', 'n', 'd', 'e', 'd', '-', 'p', 'r', 'o', 'p', 'e', 'r', 't', 'i', 'e', 's']
def tCoreprops : List Char := ['h', 't', 't', 'p', ':', '/', '/', 's', 'c', 'h', 'e', 'm', 'a', 's', '.', 'o', 'p', 'e', 'n', 'x', 'm', 'l', 'f', 'o', 'r', 'm', 'a', 't', 's', '.', 'o', 'r', 'g', '/', 'p', 'a', 'c', 'k', 'a', 'g', 'e', '/', '2', '0', '0', '6', '/', 'r', 'e', 'l', 'a', 't', 'i', 'o', 'n', 's', 'h', 'i', 'p', 's', '/', 'm', 'e', 't', 'a', 'd', 'a', 't', 'a', '/', 'c', 'o', 'r', 'e', '-', 'p', 'r', 'o', 'p', 'e', 'r', 't', 'i', 'e', 's']
def tOfficeDoc : List Char := ['h', 't', 't', 'p', ':', '/', '/', 's', 'c', 'h', 'e', 'm', 'a', 's', '.', 'o', 'p', 'e', 'n', 'x', 'm', 'l', 'f', 'o', 'r', 'm', 'a', 't', 's', '.', 'o', 'r', 'g', '/', 'o', 'f', 'f', 'i', 'c', 'e', 'D', 'o', 'c', 'u', 'm', 'e', 'n', 't', '/', '2', '0', '0', '6', '/', 'r', 'e', 'l', 'a', 't', 'i', 'o', 'n', 's', 'h', 'i', 'p', 's', '/', 'o', 'f', 'f', 'i', 'c', 'e', 'D', 'o', 'c', 'u', 'm', 'e', 'n', 't']
def tStyles : List Char := ['h', 't', 't', 'p', ':', '/', '/', 's', 'c', 'h', 'e', 'm', 'a', 's', '.', 'o', 'p', 'e', 'n', 'x', 'm', 'l', 'f', 'o', 'r', 'm', 'a', 't', 's', '.', 'o', 'r', 'g', '/', 'o', 'f', 'f', 'i', 'c', 'e', 'D', 'o', 'c', 'u', 'm', 'e', 'n', 't', '/', '2', '0', '0', '6', '/', 'r', 'e', 'l', 'a', 't', 'i', 'o', 'n', 's', 'h', 'i', 'p', 's', '/', 's', 't', 'y', 'l', 'e', 's']
def tTheme : List Char := ['h', 't', 't', 'p', ':', '/', '/', 's', 'c', 'h', 'e', 'm', 'a', 's', '.', 'o', 'p', 'e', 'n', 'x', 'm', 'l', 'f', 'o', 'r', 'm', 'a', 't', 's', '.', 'o', 'r', 'g', '/', 'o', 'f', 'f', 'i', 'c', 'e', 'D', 'o', 'c', 'u', 'm', 'e', 'n', 't', '/', '2', '0', '0', '6', '/', 'r', 'e', 'l', 'a', 't', 'i', 'o', 'n', 's', 'h', 'i', 'p', 's', '/', 't', 'h', 'e', 'm', 'e']
def tSharedStrings : List Char := ['h', 't', 't', 'p', ':', '/', '/', 's', 'c', 'h', 'e', 'm', 'a', 's', '.', 'o', 'p', 'e', 'n', 'x', 'm', 'l', 'f', 'o', 'r', 'm', 'a', 't', 's', '.', 'o', 'r', 'g', '/', 'o', 'f', 'f', 'i', 'c', 'e', 'D', 'o', 'c', 'u', 'm', 'e', 'n', 't', '/', '2', '0', '0', '6', '/', 'r', 'e', 'l', 'a', 't', 'i', 'o', 'n', 's', 'h', 'i', 'p', 's', '/', 's', 'h', 'a', 'r', 'e', 'd', 'S', 't', 'r', 'i', 'n', 'g', 's']

def ctRels : List Char := ['a', 'p', 'p', 'l', 'i', 'c', 'a', 't', 'i', 'o', 'n', '/', 'v', 'n', 'd', '.', 'o', 'p', 'e', 'n', 'x', 'm', 'l', 'f', 'o', 'r', 'm', 'a', 't', 's', '-', 'p', 'a', 'c', 'k', 'a', 'g', 'e', '.', 'r', 'e', 'l', 'a', 't', 'i', 'o', 'n', 's', 'h', 'i', 'p', 's', '+', 'x', 'm', 'l']
def ctXml : List Char := ['a', 'p', 'p', 'l', 'i', 'c', 'a', 't', 'i', 'o', 'n', '/', 'x', 'm', 'l']
def ctApp : List Char := ['a', 'p', 'p', 'l', 'i', 'c', 'a', 't', 'i', 'o', 'n', '/', 'v', 'n', 'd', '.', 'o', 'p', 'e', 'n', 'x', 'm', 'l', 'f', 'o', 'r', 'm', 'a', 't', 's', '-', 'o', 'f', 'f', 'i', 'c', 'e', 'd', 'o', 'c', 'u', 'm', 'e', 'n', 't', '.', 'e', 'x', 't', 'e', 'n', 'd', 'e', 'd', '-', 'p', 'r', 'o', 'p', 'e', 'r', 't', 'i', 'e', 's', '+', 'x', 'm', 'l']
def ctCore : List Char := ['a', 'p', 'p', 'l', 'i', 'c', 'a', 't', 'i', 'o', 'n', '/', 'v', 'n', 'd', '.', 'o', 'p', 'e', 'n', 'x', 'm', 'l', 'f', 'o', 'r', 'm', 'a', 't', 's', '-', 'p', 'a', 'c', 'k', 'a', 'g', 'e', '.', 'c', 'o', 'r', 'e', '-', 'p', 'r', 'o', 'p', 'e', 'r', 't', 'i', 'e', 's', '+', 'x', 'm', 'l']
def ctSst : List Char := ['a', 'p', 'p', 'l', 'i', 'c', 'a', 't', 'i', 'o', 'n', '/', 'v', 'n', 'd', '.', 'o', 'p', 'e', 'n', 'x', 'm', 'l', 'f', 'o', 'r', 'm', 'a', 't', 's', '-', 'o', 'f', 'f', 'i', 'c', 'e', 'd', 'o', 'c', 'u', 'm', 'e', 'n', 't', '.', 's', 'p', 'r', 'e', 'a', 'd', 's', 'h', 'e', 'e', 't', 'm', 'l', '.', 's', 'h', 'a', 'r', 'e', 'd', 'S', 't', 'r', 'i', 'n', 'g', 's', '+', 'x', 'm', 'l']
def ctStyles : List Char := ['a', 'p', 'p', 'l', 'i', 'c', 'a', 't', 'i', 'o', 'n', '/', 'v', 'n', 'd', '.', 'o', 'p', 'e', 'n', 'x', 'm', 'l', 'f', 'o', 'r', 'm', 'a', 't', 's', '-', 'o', 'f', 'f', 'i', 'c', 'e', 'd', 'o', 'c', 'u', 'm', 'e', 'n', 't', '.', 's', 'p', 'r', 'e', 'a', 'd', 's', 'h', 'e', 'e', 't', 'm', 'l', '.', 's', 't', 'y', 'l', 'e', 's', '+', 'x', 'm', 'l']
def ctTheme : List Char := ['a', 'p', 'p', 'l', 'i', 'c', 'a', 't', 'i', 'o', 'n', '/', 'v', 'n', 'd', '.', 'o', 'p', 'e', 'n', 'x', 'm', 'l', 'f', 'o', 'r', 'm', 'a', 't', 's', '-', 'o', 'f', 'f', 'i', 'c', 'e', 'd', 'o', 'c', 'u', 'm', 'e', 'n', 't', '.', 't', 'h', 'e', 'm', 'e', '+', 'x', 'm', 'l']
def ctWorkbook : List Char := ['a', 'p', 'p', 'l', 'i', 'c', 'a', 't', 'i', 'o', 'n', '/', 'v', 'n', 'd', '.', 'o', 'p', 'e', 'n', 'x', 'm', 'l', 'f', 'o', 'r', 'm', 'a', 't', 's', '-', 'o', 'f', 'f', 'i', 'c', 'e', 'd', 'o', 'c', 'u', 'm', 'e', 'n', 't', '.', 's', 'p', 'r', 'e', 'a', 'd', 's', 'h', 'e', 'e', 't', 'm', 'l', '.', 's', 'h', 'e', 'e', 't', '.', 'm', 'a', 'i', 'n', '+', 'x', 'm', 'l']
def ctNs : List Char := ['h', 't', 't', 'p', ':', '/', '/', 's', 'c', 'h', 'e', 'm', 'a', 's', '.', 'o', 'p', 'e', 'n', 'x', 'm', 'l', 'f', 'o', 'r', 'm', 'a', 't', 's', '.', 'o', 'r', 'g', '/', 'p', 'a', 'c', 'k', 'a', 'g', 'e', '/', '2', '0', '0', '6', '/', 'c', 'o', 'n', 't', 'e', 'n', 't', '-', 't', 'y', 'p', 'e', 's']

/-! ## the relationship parts -/

/-- `write_relationship(writer, id, type, target, "")` of rels.rs / workbook_rels.rs: no `TargetMode` -/
def relEl (k : Nat) (type target : List Char) : Node :=
  Node.elem nRelationship [⟨['I', 'd'], rIdText k⟩, ⟨['T', 'y', 'p', 'e'], type⟩, ⟨['T', 'a', 'r', 'g', 'e', 't'], target⟩] []

/-- `_rels/.rels` -/
def rootRelsNode : Node :=
  Node.elem nRelationships [⟨['x', 'm', 'l', 'n', 's'], relNs⟩]
    [relEl 3 tXprops nApp, relEl 2 tCoreprops nCore, relEl 1 tOfficeDoc nWorkbookPart]

/-- the relationships of workbook.xml.rels after the worksheet ones: styles, theme, shared strings when written -/
def wbRelsRest (n : Nat) (hasSst : Bool) : List Node :=
  [relEl (n + 1) tStyles ['s', 't', 'y', 'l', 'e', 's', '.', 'x', 'm', 'l'], relEl (n + 2) tTheme ['t', 'h', 'e', 'm', 'e', '/', 't', 'h', 'e', 'm', 'e', '1', '.', 'x', 'm', 'l']] ++
  (if hasSst then [relEl (n + 3) tSharedStrings ['s', 'h', 'a', 'r', 'e', 'd', 'S', 't', 'r', 'i', 'n', 'g', 's', '.', 'x', 'm', 'l']] else [])

/-! ## `[Content_Types].xml` -/

def defaultEl (ext ct : List Char) : Node :=
  Node.elem ['D', 'e', 'f', 'a', 'u', 'l', 't'] [⟨['E', 'x', 't', 'e', 'n', 's', 'i', 'o', 'n'], ext⟩, ⟨['C', 'o', 'n', 't', 'e', 'n', 't', 'T', 'y', 'p', 'e'], ct⟩] []

/-- `(format!("/{}", file), content_type)` -/
def overrideEl (name ct : List Char) : Node :=
  Node.elem ['O', 'v', 'e', 'r', 'r', 'i', 'd', 'e'] [⟨['P', 'a', 'r', 't', 'N', 'a', 'm', 'e'], '/' :: name⟩, ⟨['C', 'o', 'n', 't', 'e', 'n', 't', 'T', 'y', 'p', 'e'], ct⟩] []

/-- the worksheet Overrides, `k` … `k + n - 1` -/
def sheetOverrides : Nat → Nat → List Node
  | _, 0 => []
  | k, n + 1 => overrideEl (sheetPartL k) sheetContentType :: sheetOverrides (k + 1) n

def contentTypesNode (n : Nat) (hasSst : Bool) : Node :=
  Node.elem ['T', 'y', 'p', 'e', 's'] [⟨['x', 'm', 'l', 'n', 's'], ctNs⟩]
    ([defaultEl ['r', 'e', 'l', 's'] ctRels, defaultEl ['x', 'm', 'l'] ctXml,
      overrideEl nApp ctApp, overrideEl nCore ctCore] ++
     (if hasSst then [overrideEl nSst ctSst] else []) ++
     [overrideEl nStyles ctStyles, overrideEl nTheme ctTheme, overrideEl nWorkbookPart ctWorkbook] ++
     sheetOverrides 1 n)

/-! ## the workbook and its package -/

/-- one sheet: its entry in `<sheets>`, what the sheet writer sees, the opaque children of its `<worksheet>`, and
    the `cellXfs` index the stylesheet hands out per cell -/
structure SheetP (N : Type) where
  entry : SheetE
  sheet : SheetW N
  frame : Frame := {}
  xf : List Char → Nat := fun _ => 0

structure BookP (N : Type) where
  sheets : List (SheetP N)
  names : List NameE := []
  wbFrame : WbFrame := {}
  app : Node
  core : Node
  theme : Node
  styles : Node

def xmlPart (name : List Char) (root : Node) : Part := { name := String.ofList name, xml := some root, isXml := true }

section
variable (F : Umya.Num.NumFmt)

/-- `for worksheet in … { worksheet::write(&worksheet_no, …, &shared_string_table, …) }`: the `<worksheet>` trees,
    one shared-string table threaded through the sheets -/
def renderSheetsP (tbl : Table) : List (SheetP F.Num) → Option (Table × List Node)
  | [] => some (tbl, [])
  | s :: ss =>
    match renderSheet F s.xf s.frame tbl s.sheet with
    | none => none
    | some (t1, root) =>
      match renderSheetsP t1 ss with
      | none => none
      | some (t2, roots) => some (t2, root :: roots)

/-- the worksheet parts `sheetK.xml`, K = `k` … -/
def sheetParts : Nat → List Node → List Part
  | _, [] => []
  | k, r :: rs => xmlPart (sheetPartL k) r :: sheetParts (k + 1) rs

/-- the worksheet relationship parts, written for the sheets that have a relationship (`is_write`) -/
def sheetRelsParts : Nat → List (SheetP F.Num) → List Part
  | _, [] => []
  | k, s :: ss =>
    (match relsRoot s.sheet.links [] with
     | some rr => [xmlPart (sheetRelsL k) rr]
     | none => []) ++ sheetRelsParts (k + 1) ss

/-- the shared-string part: none for an empty table (`shared_strings::write` returns early) -/
def sstPartsP (tbl : Table) : Option (List Part) :=
  if tbl = [] then some [] else (sstNode (tbl.map siOf)).map fun root => [xmlPart nSst root]

/-- the parts in the order written -/
def assemble (b : BookP F.Num) (hasSst : Bool) (roots : List Node) (sst : List Part) : Package :=
  let n := b.sheets.length
  [xmlPart nApp b.app, xmlPart nCore b.core, xmlPart nRootRels rootRelsNode, xmlPart nTheme b.theme] ++
  sheetParts 1 roots ++ sheetRelsParts F 1 b.sheets ++ sst ++
  [xmlPart nStyles b.styles,
   xmlPart nWorkbookPart (workbookNode b.wbFrame (b.sheets.map (·.entry)) b.names),
   xmlPart nWorkbookRels (workbookRelsNode n (wbRelsRest n hasSst)),
   xmlPart nContentTypes (contentTypesNode n hasSst)]

/-- `make_buffer` for the modelled workbooks -/
def writePackage (b : BookP F.Num) : Option Package :=
  match renderSheetsP F [] b.sheets with
  | none => none
  | some (tbl, roots) => (sstPartsP tbl).map (assemble F b (!tbl.isEmpty) roots)

end

/-! ## the skeleton: names, content types, relationship triples (what the tie compares with the real package) -/

structure RelT where
  id : List Char
  type : List Char
  target : List Char
  external : Bool
  deriving DecidableEq, Repr

/-- the hyperlink relationships of a sheet, `k` = `r_id` -/
def linkRelTs : Nat → List LinkW → List RelT
  | _, [] => []
  | k, l :: ls => if l.location then linkRelTs k ls else ⟨rIdText k, hyperlinkType, l.url, true⟩ :: linkRelTs (k + 1) ls

/-- part name, content type (none for [Content_Types].xml itself), outgoing relationships when it is a `.rels` part -/
structure PartS where
  name : List Char
  contentType : Option (List Char)
  rels : List RelT := []
  deriving Repr

def sheetSkel : Nat → Nat → List PartS
  | _, 0 => []
  | k, n + 1 => ⟨sheetPartL k, some sheetContentType, []⟩ :: sheetSkel (k + 1) n

def sheetRelsSkel : Nat → List (List LinkW) → List PartS
  | _, [] => []
  | k, ls :: r => (if linkRelTs 1 ls = [] then [] else [⟨sheetRelsL k, some ctRels, linkRelTs 1 ls⟩]) ++ sheetRelsSkel (k + 1) r

def wsRelTs : Nat → Nat → List RelT
  | _, 0 => []
  | k, n + 1 => ⟨rIdText k, worksheetType, sheetTarget k, false⟩ :: wsRelTs (k + 1) n

/-- the skeleton of the package for `links` = the (sorted) hyperlinks of every sheet, and whether a shared-string part is written -/
def skeleton (links : List (List LinkW)) (hasSst : Bool) : List PartS :=
  let n := links.length
  [⟨nApp, some ctApp, []⟩, ⟨nCore, some ctCore, []⟩,
   ⟨nRootRels, some ctRels, [⟨rIdText 3, tXprops, nApp, false⟩, ⟨rIdText 2, tCoreprops, nCore, false⟩, ⟨rIdText 1, tOfficeDoc, nWorkbookPart, false⟩]⟩,
   ⟨nTheme, some ctTheme, []⟩] ++
  sheetSkel 1 n ++ sheetRelsSkel 1 links ++
  (if hasSst then [⟨nSst, some ctSst, []⟩] else []) ++
  [⟨nStyles, some ctStyles, []⟩, ⟨nWorkbookPart, some ctWorkbook, []⟩,
   ⟨nWorkbookRels, some ctRels,
     wsRelTs 1 n ++ [⟨rIdText (n + 1), tStyles, ['s', 't', 'y', 'l', 'e', 's', '.', 'x', 'm', 'l'], false⟩, ⟨rIdText (n + 2), tTheme, ['t', 'h', 'e', 'm', 'e', '/', 't', 'h', 'e', 'm', 'e', '1', '.', 'x', 'm', 'l'], false⟩] ++
     (if hasSst then [⟨rIdText (n + 3), tSharedStrings, ['s', 'h', 'a', 'r', 'e', 'd', 'S', 't', 'r', 'i', 'n', 'g', 's', '.', 'x', 'm', 'l'], false⟩] else [])⟩,
   ⟨nContentTypes, none, []⟩]

end Umya.PackageNode
